package enginechk

import (
	"bytes"
	"io"
	"runtime"
	"sort"
	"sync"
	"testing"

	"github.com/sarchlab/akita/v5/timing"
	"pgregory.net/rapid"

	"verif/harness/kit"
)

// ---------------------------------------------------------------------------
// C41a: uniqueness / non-zero under concurrent use.
// ---------------------------------------------------------------------------

type c41Phase struct {
	G      int  `json:"g"`      // goroutines (1 = the calling goroutine itself)
	N      int  `json:"n"`      // IDs per goroutine
	Cached bool `json:"cached"` // call Generate on a cached generator instead of timing.GetIDGenerator().Generate()
	Yield  bool `json:"yield"`  // Gosched every 128 IDs
}

type c41Case struct {
	Kind   string     `json:"kind"` // "sequential", "parallel", "default" (first GetIDGenerator call decides)
	Procs  int        `json:"procs"`
	Phases []c41Phase `json:"phases"`
}

func instantiate(kind string) {
	timing.ResetIDGenerator()
	switch kind {
	case "sequential":
		timing.UseSequentialIDGenerator()
	case "parallel":
		timing.UseParallelIDGenerator()
	default:
		_ = timing.GetIDGenerator()
	}
}

func TestC41Concurrent(t *testing.T) {
	s := kit.Begin(t, "C41", "concurrent-unique",
		"generator kind in {sequential, parallel, default}, instantiated on the test goroutine (as simulation.Builder does) after ResetIDGenerator; 1..4 phases of 1..16 goroutines x "+
			"1..1500 IDs released together by a channel close, via timing.GetIDGenerator().Generate() or a cached generator; drawn GOMAXPROCS; -race. Oracle: every ID non-zero and "+
			"all IDs of the case pairwise distinct. Non-trivial: in some phase the value ranges handed to two goroutines interleaved (they really overlapped)")
	defer s.End()
	s.Assume("the generator is instantiated before concurrent use (simulation.Builder.createIDGenerator); concurrent *first* use of GetIDGenerator is outside the observed domain")

	run := func(f kit.Failer, c c41Case) {
		overlapped := false
		total := 0
		var all []uint64
		withProcs(c.Procs, func() {
			instantiate(c.Kind)
			for _, ph := range c.Phases {
				res := make([][]uint64, ph.G)
				gen := func(n int) []uint64 {
					out := make([]uint64, 0, n)
					var g timing.IDGenerator
					if ph.Cached {
						g = timing.GetIDGenerator()
					}
					for i := 0; i < n; i++ {
						if ph.Cached {
							out = append(out, g.Generate())
						} else {
							out = append(out, timing.GetIDGenerator().Generate())
						}
						if ph.Yield && i%128 == 127 {
							runtime.Gosched()
						}
					}
					return out
				}
				if ph.G == 1 {
					res[0] = gen(ph.N)
				} else {
					start := make(chan struct{})
					var wg sync.WaitGroup
					for g := 0; g < ph.G; g++ {
						wg.Add(1)
						go func(g int) {
							defer wg.Done()
							<-start
							res[g] = gen(ph.N)
						}(g)
					}
					close(start)
					wg.Wait()
				}
				// overlap: some goroutine's [min,max] intersects another's
				type rng struct{ lo, hi uint64 }
				var rs []rng
				for _, ids := range res {
					lo, hi := ^uint64(0), uint64(0)
					for _, id := range ids {
						if id < lo {
							lo = id
						}
						if id > hi {
							hi = id
						}
					}
					rs = append(rs, rng{lo, hi})
					all = append(all, ids...)
				}
				sort.Slice(rs, func(i, j int) bool { return rs[i].lo < rs[j].lo })
				for i := 1; i < len(rs); i++ {
					if rs[i].lo < rs[i-1].hi {
						overlapped = true
					}
				}
				total += ph.G * ph.N
			}
		})
		if len(all) != total {
			f.Fatalf("harness: collected %d ids, expected %d", len(all), total)
		}
		sorted := append([]uint64(nil), all...)
		sort.Slice(sorted, func(i, j int) bool { return sorted[i] < sorted[j] })
		if len(sorted) > 0 && sorted[0] == 0 {
			s.Fail(f, c, c.Kind+":zero-id", "the generator handed out ID 0")
			return
		}
		for i := 1; i < len(sorted); i++ {
			if sorted[i] == sorted[i-1] {
				s.Fail(f, c, c.Kind+":duplicate-id", "ID %d was handed out twice among %d IDs", sorted[i], total)
				return
			}
		}
		cls := []string{c.Kind}
		if overlapped {
			cls = append(cls, "goroutines-overlapped")
		}
		s.Note(c, overlapped, cls...)
	}

	var c c41Case
	if ok, err := kit.LoadReplay("C41", "concurrent-unique", &c); ok {
		if err != nil {
			t.Fatal(err)
		}
		for i := 0; i < 20 && !t.Failed(); i++ {
			run(t, c)
		}
		return
	} else if kit.ReplayMode() {
		t.Skip()
	}

	kit.SetChecks(400, 2_000)
	rapid.Check(t, func(rt *rapid.T) {
		var c c41Case
		c.Kind = rapid.SampledFrom([]string{"sequential", "parallel", "default"}).Draw(rt, "kind")
		c.Procs = rapid.SampledFrom([]int{1, 2, 4, 8, 16}).Draw(rt, "procs")
		k := rapid.IntRange(1, 4).Draw(rt, "phases")
		for i := 0; i < k; i++ {
			ph := c41Phase{
				G:      rapid.IntRange(1, 16).Draw(rt, "g"),
				Cached: rapid.Bool().Draw(rt, "cached"),
				Yield:  rapid.Bool().Draw(rt, "yield"),
			}
			if rapid.Bool().Draw(rt, "big") {
				ph.N = rapid.IntRange(1, 1500).Draw(rt, "n")
			} else {
				ph.N = rapid.IntRange(1, 100).Draw(rt, "n")
			}
			c.Phases = append(c.Phases, ph)
		}
		run(rt, c)
	})
}

// ---------------------------------------------------------------------------
// C41b: the sequential generator is reproducible and its checkpoint continues
// the sequence exactly.
// ---------------------------------------------------------------------------

// The oracle does not assume what the sequence looks like (1,2,3,...): it
// only assumes there is ONE sequence S. A history moves a cursor over S:
//
//	gen n      hands out S[pos..pos+n), pos += n
//	save       remembers (pos, checkpoint bytes / counter value)
//	load i     restores save i: pos = its pos             (same or fresh generator)
//	reset      ResetIDGenerator + UseSequentialIDGenerator: pos = 0 ("another run")
//
// S is learnt the first time a position is visited; every later visit of the
// position must produce the same ID; IDs at different positions differ; no ID is 0.
type c41Op struct {
	Op    string `json:"op"` // gen | save | load | reset
	N     int    `json:"n,omitempty"`
	Ref   int    `json:"ref,omitempty"`   // which save to load (index into saves made so far)
	Fresh bool   `json:"fresh,omitempty"` // load into a freshly reset generator
	API   string `json:"api,omitempty"`   // "checkpoint" (Save/LoadCheckpoint) or "nextid" (Get/SetIDGeneratorNextID)
}

type c41SeqCase struct {
	Ops []c41Op `json:"ops"`
}

type checkpointable interface {
	SaveCheckpoint(w io.Writer) error
	LoadCheckpoint(r io.Reader) error
}

func TestC41Sequence(t *testing.T) {
	s := kit.Begin(t, "C41", "sequential-reproducible",
		"history of 1..40 ops over the sequential generator: gen n (1..40), save, load i (into the same or a freshly reset generator; through SaveCheckpoint/LoadCheckpoint as "+
			"simulation.SaveCheckpoint does, or Get/SetIDGeneratorNextID), reset (a new run). Oracle: a cursor over one unknown sequence S learnt on first visit: re-visited positions "+
			"must give the same ID, distinct positions distinct IDs, none zero. Non-trivial: a load into a fresh generator was followed by IDs at already-known positions, and a reset re-visited known positions")
	defer s.End()

	run := func(f kit.Failer, c c41SeqCase) {
		type save struct {
			pos   int
			blob  []byte
			next  uint64
			useCk bool
		}
		var S []uint64
		byID := map[uint64]int{}
		var saves []save
		pos := 0
		instantiate("sequential")
		revisitAfterFresh, revisitAfterReset := false, false
		lastMove := ""
		for i, op := range c.Ops {
			switch op.Op {
			case "gen":
				for k := 0; k < op.N; k++ {
					id := timing.GetIDGenerator().Generate()
					if id == 0 {
						s.Fail(f, c, "sequential:zero-id", "op %d: ID 0 at position %d", i, pos)
						return
					}
					if pos < len(S) {
						if S[pos] != id {
							s.Fail(f, c, "sequential:"+lastMove+"-diverged", "op %d: position %d produced ID %d, the sequence had %d there (after %s)", i, pos, id, S[pos], lastMove)
							return
						}
						switch lastMove {
						case "fresh-load":
							revisitAfterFresh = true
						case "reset":
							revisitAfterReset = true
						}
					} else {
						if q, dup := byID[id]; dup {
							s.Fail(f, c, "sequential:duplicate-id", "op %d: ID %d at position %d was already handed out at position %d", i, id, pos, q)
							return
						}
						byID[id] = pos
						S = append(S, id)
					}
					pos++
				}
			case "save":
				sv := save{pos: pos, useCk: op.API != "nextid"}
				if sv.useCk {
					ck, ok := timing.GetIDGenerator().(checkpointable)
					if !ok {
						s.Fail(f, c, "sequential:not-checkpointable", "the sequential generator does not offer SaveCheckpoint/LoadCheckpoint")
						return
					}
					var buf bytes.Buffer
					if err := ck.SaveCheckpoint(&buf); err != nil {
						s.Fail(f, c, "sequential:save-error", "SaveCheckpoint: %v", err)
						return
					}
					sv.blob = buf.Bytes()
				} else {
					sv.next = timing.GetIDGeneratorNextID()
				}
				saves = append(saves, sv)
			case "load":
				if len(saves) == 0 {
					continue
				}
				sv := saves[op.Ref%len(saves)]
				lastMove = "load"
				if op.Fresh {
					instantiate("sequential")
					lastMove = "fresh-load"
				}
				if sv.useCk {
					ck := timing.GetIDGenerator().(checkpointable)
					if err := ck.LoadCheckpoint(bytes.NewReader(sv.blob)); err != nil {
						s.Fail(f, c, "sequential:load-error", "LoadCheckpoint(%q): %v", sv.blob, err)
						return
					}
				} else {
					timing.SetIDGeneratorNextID(sv.next)
				}
				pos = sv.pos
			case "reset":
				instantiate("sequential")
				pos = 0
				lastMove = "reset"
			default:
				f.Fatalf("harness: unknown op %q", op.Op)
			}
		}
		cls := []string{}
		if revisitAfterFresh {
			cls = append(cls, "revisit-after-fresh-load")
		}
		if revisitAfterReset {
			cls = append(cls, "revisit-after-reset")
		}
		s.Note(c, revisitAfterFresh && revisitAfterReset, cls...)
	}

	var c c41SeqCase
	if ok, err := kit.LoadReplay("C41", "sequential-reproducible", &c); ok {
		if err != nil {
			t.Fatal(err)
		}
		run(t, c)
		return
	} else if kit.ReplayMode() {
		t.Skip()
	}

	kit.SetChecks(20_000, 100_000)
	rapid.Check(t, func(rt *rapid.T) {
		var c c41SeqCase
		n := rapid.IntRange(1, 40).Draw(rt, "nops")
		nsaves := 0
		for i := 0; i < n; i++ {
			var op c41Op
			switch k := rapid.IntRange(0, 9).Draw(rt, "op"); {
			case k <= 3:
				op = c41Op{Op: "gen", N: rapid.IntRange(1, 40).Draw(rt, "n")}
			case k <= 5:
				op = c41Op{Op: "save", API: rapid.SampledFrom([]string{"checkpoint", "checkpoint", "nextid"}).Draw(rt, "api")}
				nsaves++
			case k <= 8 && nsaves > 0:
				op = c41Op{Op: "load", Ref: rapid.IntRange(0, nsaves-1).Draw(rt, "ref"), Fresh: rapid.Bool().Draw(rt, "fresh")}
			case k == 9:
				op = c41Op{Op: "reset"}
			default:
				op = c41Op{Op: "gen", N: rapid.IntRange(1, 5).Draw(rt, "n")}
			}
			c.Ops = append(c.Ops, op)
		}
		run(rt, c)
	})
}

// TestC41ParallelNotCheckpointable pins the documented behaviour that the
// parallel generator refuses to be checkpointed (its IDs are not reproducible),
// rather than silently restoring a counter.
func TestC41ParallelNotCheckpointable(t *testing.T) {
	s := kit.Begin(t, "C41", "parallel-not-checkpointable", "single documented-behaviour case: the parallel generator's SaveCheckpoint/LoadCheckpoint return an error")
	defer s.End()
	if kit.ReplayMode() {
		t.Skip()
	}
	s.Exhaustive()
	instantiate("parallel")
	defer timing.ResetIDGenerator()
	type kc struct {
		Kind string `json:"kind"`
	}
	c := kc{"parallel"}
	if ck, ok := timing.GetIDGenerator().(checkpointable); ok {
		if err := ck.SaveCheckpoint(io.Discard); err == nil {
			s.Fail(t, c, "parallel:save-accepted", "parallel generator SaveCheckpoint returned nil (documented: not checkpointable)")
			return
		}
		if err := ck.LoadCheckpoint(bytes.NewReader([]byte(`{"kind":"sequential","next_id":5}`))); err == nil {
			s.Fail(t, c, "parallel:load-accepted", "parallel generator LoadCheckpoint returned nil (documented: not checkpointable)")
			return
		}
	}
	s.Note(c, true, "parallel")
}
