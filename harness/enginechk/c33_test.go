package enginechk

import (
	"fmt"
	"testing"

	"github.com/sarchlab/akita/v5/hooking"
	"github.com/sarchlab/akita/v5/timing"
	"pgregory.net/rapid"

	"verif/harness/kit"
)

// C33 (engine part): attaching passive hooks to an engine does not change the
// run. Differential: the same program (C01 generator) with handlers that
// return a non-nil error at drawn events, the same RunUntil/Run call sequence,
// once on an engine without hooks and once with 1..2 recording hooks. Whatever
// the engine does with a handler's error, it must do the same in both legs.

type c33Case struct {
	Prog     program  `json:"prog"` // Prog.Hook is ignored here
	Err      []int    `json:"err"`  // per node: 0 nil, 1 error after scheduling children, 2 error instead of scheduling them
	Bounds   []uint64 `json:"bounds,omitempty"`
	NHooks   int      `json:"nhooks"`
	Parallel bool     `json:"parallel,omitempty"`
	Procs    int      `json:"procs,omitempty"`
}

type c33Entry struct {
	Node    int    `json:"n"`
	T       uint64 `json:"t"`
	Handler string `json:"h"`
	Now     uint64 `json:"now"`
}

type c33Call struct {
	Kind    string `json:"kind"` // until | run | probe
	B       uint64 `json:"b,omitempty"`
	Err     string `json:"err"` // "" = nil
	Now     uint64 `json:"now"`
	Handled int    `json:"handled"` // events handled so far when the call returned
}

type c33Leg struct {
	log     []c33Entry
	calls   []c33Call
	hookObs int
}

type c33Handler struct {
	id  string
	leg *c33Leg
	c   *c33Case
	kid [][]int
	eng *timing.SerialEngine
}

func (h *c33Handler) Handle(e timing.Event) error {
	ne := e.(nodeEvt)
	h.leg.log = append(h.leg.log, c33Entry{ne.node, uint64(ne.t), h.id, uint64(h.eng.CurrentTime())})
	fail := h.c.Err[ne.node]
	if fail != 2 {
		for _, k := range h.kid[ne.node] {
			h.eng.Schedule(h.c.Prog.event(k, uint64(ne.t)+h.c.Prog.Nodes[k].T))
		}
	}
	if fail != 0 {
		return fmt.Errorf("handler of node %d failed", ne.node)
	}
	return nil
}

// passive hook: records only.
type c33Hook struct {
	leg *c33Leg
}

func (h *c33Hook) Func(ctx hooking.HookCtx) {
	if ctx.Pos == timing.HookPosBeforeEvent || ctx.Pos == timing.HookPosAfterEvent {
		h.leg.hookObs++
	}
}

func errText(err error) string {
	if err == nil {
		return ""
	}
	return "error: " + err.Error()
}

// runSerialLeg executes the call sequence RunUntil(b1..bk); Run; then probes
// what is still queued by calling Run until a call handles nothing and
// returns nil (at most n+3 probes: an engine that stops at a handler error
// needs one call per failing event).
func runSerialLeg(c *c33Case, hooks int) *c33Leg {
	leg := &c33Leg{}
	eng := timing.NewSerialEngine()
	kids := c.Prog.kids()
	for i := 0; i < c.Prog.NH; i++ {
		eng.RegisterHandler(handlerName(i), &c33Handler{id: handlerName(i), leg: leg, c: c, kid: kids, eng: eng})
	}
	for i := 0; i < hooks; i++ {
		eng.AcceptHook(&c33Hook{leg})
	}
	for i, nd := range c.Prog.Nodes {
		if nd.P < 0 {
			eng.Schedule(c.Prog.event(i, nd.T))
		}
	}
	for _, b := range c.Bounds {
		err := eng.RunUntil(timing.VTimeInPicoSec(b))
		leg.calls = append(leg.calls, c33Call{"until", b, errText(err), uint64(eng.CurrentTime()), len(leg.log)})
	}
	err := eng.Run()
	leg.calls = append(leg.calls, c33Call{"run", 0, errText(err), uint64(eng.CurrentTime()), len(leg.log)})
	for i := 0; i < len(c.Prog.Nodes)+3; i++ {
		before := len(leg.log)
		err := eng.Run()
		leg.calls = append(leg.calls, c33Call{"probe", 0, errText(err), uint64(eng.CurrentTime()), len(leg.log)})
		if err == nil && len(leg.log) == before {
			break
		}
	}
	return leg
}

type c33ParLeg struct {
	hist history
	err  string
	now  uint64
	anom []string
}

func runParallelLeg(c *c33Case, hooks int) (out c33ParLeg, ok bool, sig, msg string) {
	ok, sig, msg = kit.Guard(func() {
		withProcs(c.Procs, func() {
			p := c.Prog
			p.Hook = hooks > 0
			r := newStampRecErr(&p, true, c.Err)
			for i := 1; i < hooks; i++ {
				r.eng.AcceptHook(&stampHook{r})
			}
			out.err = errText(r.eng.Run())
			out.now = uint64(r.eng.CurrentTime())
			out.hist = r.history()
			out.anom = r.anomaly
		})
	})
	return
}

func TestC33EngineHooks(t *testing.T) {
	s := kit.Begin(t, "C33", "engine-hooked",
		"C01's program generator (1..80 events, primary/secondary, same-time ties, dt=0 chains) with 0..3 drawn events whose handler returns a non-nil error (after, or instead of, scheduling "+
			"its children), 0..6 non-decreasing RunUntil boundaries drawn relative to the reference event times, then Run, then probing Runs until nothing is left. Leg A: fresh SerialEngine without "+
			"hooks; leg B: fresh SerialEngine with 1..2 passive hooks (count BeforeEvent/AfterEvent only). Oracle: identical handled-event log (node, time, handler, CurrentTime inside the handler, "+
			"order), identical return value (nil / error text), CurrentTime and handled count after every call, hence identical set of still-queued events. 1 case in 5: ParallelEngine (one Run, "+
			"drawn GOMAXPROCS), compared by per-node handled counts, Run's return value and CurrentTime, plus the C04 order invariants on both legs when no handler skips its children. "+
			"Non-trivial: a handler returned an error while later events were still to be handled, or >= 20 events handled")
	defer s.End()
	s.Assume("whatever the engine does with a handler's error (the unmodified engines ignore it) it must do the same with and without hooks; the check does not fix what that behaviour is")

	run := func(f kit.Failer, c c33Case) {
		p := &c.Prog
		limit := uint64(maxTime)
		if c.Parallel {
			limit = parLimit
		}
		abs, ok := p.absTimes(limit)
		if !ok || len(c.Err) != len(p.Nodes) || c.NHooks < 1 || c.NHooks > 2 {
			f.Fatalf("harness: malformed case")
		}
		for i := 1; i < len(c.Bounds); i++ {
			if c.Bounds[i] < c.Bounds[i-1] {
				f.Fatalf("harness: boundaries not sorted")
			}
		}
		timing.ResetIDGenerator()
		nErr, nAbort := 0, 0
		for _, e := range c.Err {
			if e != 0 {
				nErr++
			}
			if e == 2 {
				nAbort++
			}
		}
		cls := []string{fmt.Sprintf("hooked-with-%d-hooks", c.NHooks)}
		handled, errPending := 0, false

		if c.Parallel {
			a, ok, sig, msg := runParallelLeg(&c, 0)
			if !ok {
				s.Fail(f, c, sig, "leg without hooks: %s", msg)
				return
			}
			b, ok, sig, msg := runParallelLeg(&c, c.NHooks)
			if !ok {
				s.Fail(f, c, sig, "leg with %d hooks: %s", c.NHooks, msg)
				return
			}
			for _, an := range append(a.anom, b.anom...) {
				sg, m := splitAnomaly(an)
				s.Fail(f, c, "parallel:"+sg, "%s", m)
				return
			}
			if a.err != b.err {
				s.Fail(f, c, "parallel:hook-changes-run-result", "Run returned %q without hooks and %q with %d hooks", a.err, b.err, c.NHooks)
				return
			}
			for n := range p.Nodes {
				if a.hist.Count[n] != b.hist.Count[n] {
					s.Fail(f, c, "parallel:hook-changes-handled-events", "node %d@%d handled %d times without hooks and %d times with %d hooks", n, abs[n], a.hist.Count[n], b.hist.Count[n], c.NHooks)
					return
				}
				if a.hist.Count[n] > 0 {
					handled++
					if c.Err[n] != 0 {
						for m := range p.Nodes {
							if a.hist.Count[m] > 0 && a.hist.Enter[m] > a.hist.Exit[n] {
								errPending = true
							}
						}
					}
				}
			}
			if a.now != b.now {
				s.Fail(f, c, "parallel:hook-changes-currenttime", "CurrentTime after Run is %d without hooks and %d with %d hooks", a.now, b.now, c.NHooks)
				return
			}
			if nAbort == 0 {
				for i, leg := range []c33ParLeg{a, b} {
					if sg, m, _ := judgeOrder(p, abs, leg.hist, nil, nil); sg != "" {
						s.Fail(f, c, "parallel:"+sg, "leg %d (0 = no hooks): %s", i, m)
						return
					}
				}
			}
			cls = append(cls, "parallel")
		} else {
			var a, b *c33Leg
			ok, sig, msg := kit.Guard(func() { a = runSerialLeg(&c, 0) })
			if !ok {
				s.Fail(f, c, sig, "leg without hooks: %s", msg)
				return
			}
			ok, sig, msg = kit.Guard(func() { b = runSerialLeg(&c, c.NHooks) })
			if !ok {
				s.Fail(f, c, sig, "leg with %d hooks: %s", c.NHooks, msg)
				return
			}
			if a.hookObs != 0 {
				f.Fatalf("harness: hook observations in the hook-free leg")
			}
			// call by call
			for i := 0; i < len(a.calls) && i < len(b.calls); i++ {
				x, y := a.calls[i], b.calls[i]
				what := fmt.Sprintf("call %d (%s %d)", i, x.Kind, x.B)
				switch {
				case x.Err != y.Err:
					s.Fail(f, c, "serial:hook-changes-run-result", "%s returned %q without hooks and %q with %d hooks", what, x.Err, y.Err, c.NHooks)
					return
				case x.Handled != y.Handled:
					s.Fail(f, c, "serial:hook-changes-handled-events", "%s returned with %d events handled without hooks and %d with %d hooks", what, x.Handled, y.Handled, c.NHooks)
					return
				case x.Now != y.Now:
					s.Fail(f, c, "serial:hook-changes-currenttime", "after %s CurrentTime is %d without hooks and %d with %d hooks", what, x.Now, y.Now, c.NHooks)
					return
				}
			}
			if len(a.calls) != len(b.calls) {
				s.Fail(f, c, "serial:hook-changes-queued-events", "draining what was left took %d Run calls without hooks and %d with %d hooks", len(a.calls), len(b.calls), c.NHooks)
				return
			}
			for i := 0; i < len(a.log) && i < len(b.log); i++ {
				if a.log[i] != b.log[i] {
					s.Fail(f, c, "serial:hook-changes-event-log", "log[%d] is %+v without hooks and %+v with %d hooks", i, a.log[i], b.log[i], c.NHooks)
					return
				}
			}
			if len(a.log) != len(b.log) {
				s.Fail(f, c, "serial:hook-changes-handled-events", "%d events handled without hooks, %d with %d hooks", len(a.log), len(b.log), c.NHooks)
				return
			}
			handled = len(b.log)
			for i, e := range b.log {
				if c.Err[e.Node] != 0 && i < len(b.log)-1 {
					errPending = true
				}
			}
			if b.hookObs > 0 {
				cls = append(cls, "hooks-fired")
			}
			if len(c.Bounds) > 0 {
				cls = append(cls, "rununtil-bounds")
			}
			for _, cl := range a.calls {
				if cl.Err != "" {
					cls = append(cls, "run-call-returned-error")
					break
				}
			}
			cls = append(cls, "serial")
		}
		if nErr > 0 {
			cls = append(cls, "handler-returned-error")
		} else {
			cls = append(cls, "no-handler-error")
		}
		if nAbort > 0 {
			cls = append(cls, "error-instead-of-children")
		}
		if errPending {
			cls = append(cls, "error-then-more-events-queued")
		}
		if handled >= 20 {
			cls = append(cls, "events>=20")
		}
		s.Note(c, errPending || handled >= 20, cls...)
	}

	var c c33Case
	if ok, err := kit.LoadReplay("C33", "engine-hooked", &c); ok {
		if err != nil {
			t.Fatal(err)
		}
		run(t, c)
		return
	} else if kit.ReplayMode() {
		t.Skip()
	}

	kit.SetChecks(2_000, 40_000)
	rapid.Check(t, func(rt *rapid.T) {
		var c c33Case
		c.Parallel = rapid.IntRange(0, 4).Draw(rt, "engine") == 0
		limit, maxN := uint64(maxTime), 80
		if c.Parallel {
			limit, maxN = parLimit, 40
			c.Procs = rapid.SampledFrom([]int{1, 2, 4, 8}).Draw(rt, "procs")
		}
		c.Prog = genProgram(rt, genOpts{limit: limit, maxN: maxN})
		c.Prog.Hook = false
		n := len(c.Prog.Nodes)
		c.Err = make([]int, n)
		if rapid.IntRange(0, 4).Draw(rt, "anyerr") != 0 {
			k := rapid.IntRange(1, 3).Draw(rt, "nerr")
			for i := 0; i < k; i++ {
				c.Err[rapid.IntRange(0, n-1).Draw(rt, "errnode")] = rapid.SampledFrom([]int{1, 1, 2}).Draw(rt, "errkind")
			}
		}
		c.NHooks = rapid.IntRange(1, 2).Draw(rt, "nhooks")
		if !c.Parallel {
			bs := genBounds(rt, refSchedule(&c.Prog))
			if len(bs) > 6 {
				bs = bs[:6]
			}
			c.Bounds = bs
		}
		run(rt, c)
	})
}
