package enginechk

import (
	"fmt"
	"runtime"
	"sort"
	"sync"
	"sync/atomic"
	"testing"

	"github.com/sarchlab/akita/v5/timing"
	"pgregory.net/rapid"

	"verif/harness/kit"
)

// C41, concurrent FIRST use: GetIDGenerator creates the default generator
// lazily behind a double-checked lock, so several goroutines may race on the
// very first call. Each round: ResetIDGenerator (while no goroutine uses the
// generator), then G goroutines released together each call
// timing.GetIDGenerator() and Generate() K times.

type c41FirstSpec struct {
	G     int   `json:"g"`     // goroutines racing on the first use
	K     int   `json:"k"`     // IDs each of them generates
	Rep   int   `json:"rep"`   // rounds with this shape
	Spin  []int `json:"spin"`  // per goroutine: busy iterations between release and GetIDGenerator
	Stamp bool  `json:"stamp"` // take logical-clock stamps around the first call (observes overlap; adds two atomics)
}

type c41FirstCase struct {
	Procs int            `json:"procs"`
	Specs []c41FirstSpec `json:"specs"`
}

type c41FirstRound struct {
	gens   []timing.IDGenerator
	ids    [][]uint64
	t0, t1 []int64
}

// runFirstUseRounds runs spec.Rep rounds with G persistent workers. Per round
// the workers are woken by a channel close, report ready, and are released
// together by one atomic store of the last one to arrive (tighter than the
// staggered channel wake-ups). Ordering: the workers' work of round r happens-before the
// doneCh receive, which happens-before ResetIDGenerator and the release of
// round r+1.
func runFirstUseRounds(spec c41FirstSpec, procs int, judge func(r int, rd *c41FirstRound, global timing.IDGenerator) bool) {
	var goFlag, ready, done, clk atomic.Int64
	rounds := make([]c41FirstRound, spec.Rep)
	startCh := make([]chan struct{}, spec.Rep)
	for r := range rounds {
		rounds[r] = c41FirstRound{gens: make([]timing.IDGenerator, spec.G), ids: make([][]uint64, spec.G),
			t0: make([]int64, spec.G), t1: make([]int64, spec.G)}
		startCh[r] = make(chan struct{})
	}
	doneCh := make(chan struct{}, 1)
	var wg sync.WaitGroup
	for g := 0; g < spec.G; g++ {
		wg.Add(1)
		go func(g int) {
			defer wg.Done()
			for r := 0; r < spec.Rep; r++ {
				if _, ok := <-startCh[r]; ok {
					return // a value (not a close) means: stop
				}
				// short spin: the last worker to arrive releases everybody with one atomic store
				if ready.Add(1) == int64((r+1)*spec.G) {
					goFlag.Store(int64(r + 1))
				}
				for goFlag.Load() <= int64(r) {
					// always yield: a pure spin costs milliseconds per round when the
					// machine is oversubscribed (measured), for no better overlap per second
					runtime.Gosched()
				}
				rd := &rounds[r]
				spin(spec.Spin[g])
				if spec.Stamp {
					rd.t0[g] = clk.Add(1)
				}
				gen := timing.GetIDGenerator()
				if spec.Stamp {
					rd.t1[g] = clk.Add(1)
				}
				ids := make([]uint64, spec.K)
				for i := range ids {
					ids[i] = gen.Generate()
				}
				rd.gens[g], rd.ids[g] = gen, ids
				if done.Add(1) == int64((r+1)*spec.G) {
					doneCh <- struct{}{}
				}
			}
		}(g)
	}
	for r := 0; r < spec.Rep; r++ {
		timing.ResetIDGenerator()
		close(startCh[r])
		<-doneCh
		if !judge(r, &rounds[r], timing.GetIDGenerator()) {
			if r+1 < spec.Rep {
				for g := 0; g < spec.G; g++ {
					startCh[r+1] <- struct{}{}
				}
			}
			break
		}
	}
	wg.Wait()
	timing.ResetIDGenerator()
}

func TestC41FirstUse(t *testing.T) {
	s := kit.Begin(t, "C41", "concurrent-first-use",
		"case = drawn GOMAXPROCS and 1..4 round shapes (G 2..16 goroutines, K 1..50 IDs each, 50..400 rounds per shape, per-goroutine spin 0..300 before the first call, stamps on/off); "+
			"each round: ResetIDGenerator on the test goroutine, then the G goroutines are released together by an atomic phase barrier and each calls timing.GetIDGenerator() (lazy creation "+
			"of the default generator) and Generate() K times; -race. Oracle per round: all goroutines and the process got the identical generator instance, all IDs non-zero and pairwise "+
			"distinct, and the set of IDs equals the first G*K IDs a fresh generator hands out single-threaded (learnt at the start of the case). Non-trivial: in some stamped round >= 2 "+
			"goroutines were inside their first GetIDGenerator call at the same time")
	defer s.End()
	s.Assume("ResetIDGenerator is only called while no other goroutine uses the generator (between rounds, ordered by the barrier); only GetIDGenerator-vs-GetIDGenerator pairs are concurrent")
	s.Assume("the race detector is part of the oracle: a DATA RACE report makes the driver report a violation")

	run := func(f kit.Failer, c c41FirstCase) {
		maxTotal := 0
		for _, sp := range c.Specs {
			if len(sp.Spin) != sp.G || sp.G < 1 || sp.K < 1 {
				f.Fatalf("harness: malformed case")
			}
			if sp.G*sp.K > maxTotal {
				maxTotal = sp.G * sp.K
			}
		}
		// the sequence a fresh default generator hands out, single-threaded
		timing.ResetIDGenerator()
		seq := make([]uint64, maxTotal)
		for i := range seq {
			seq[i] = timing.GetIDGenerator().Generate()
		}
		rounds, overlapRounds := 0, 0
		var failSig, failMsg string
		withProcs(c.Procs, func() {
			for si, sp := range c.Specs {
				runFirstUseRounds(sp, c.Procs, func(r int, rd *c41FirstRound, global timing.IDGenerator) bool {
					rounds++
					var all []uint64
					for _, ids := range rd.ids {
						all = append(all, ids...)
					}
					sort.Slice(all, func(i, j int) bool { return all[i] < all[j] })
					want := append([]uint64(nil), seq[:len(all)]...)
					sort.Slice(want, func(i, j int) bool { return want[i] < want[j] })
					for i, id := range all {
						switch {
						case id == 0:
							failSig, failMsg = "first-use:zero-id", sprintf("shape %d round %d: ID 0 handed out", si, r)
							return false
						case i > 0 && all[i-1] == id:
							failSig, failMsg = "first-use:duplicate-id", sprintf("shape %d round %d (G=%d, K=%d): ID %d handed out twice", si, r, sp.G, sp.K, id)
							return false
						case want[i] != id:
							failSig = "first-use:not-the-fresh-sequence"
							failMsg = sprintf("shape %d round %d: the %d IDs handed out are not the first %d IDs of a fresh generator (sorted position %d: got %d, want %d)", si, r, len(all), len(all), i, id, want[i])
							return false
						}
					}
					for g, gen := range rd.gens {
						if gen != rd.gens[0] || gen != global {
							failSig = "first-use:distinct-generator-instances"
							failMsg = sprintf("shape %d round %d (G=%d): goroutine %d got a generator instance different from goroutine 0's / the process-wide one", si, r, sp.G, g)
							return false
						}
					}
					if sp.Stamp {
						firstReturn := int64(1) << 62
						for _, v := range rd.t1 {
							if v < firstReturn {
								firstReturn = v
							}
						}
						inside := 0
						for _, v := range rd.t0 {
							if v < firstReturn {
								inside++
							}
						}
						if inside >= 2 {
							overlapRounds++
						}
					}
					return true
				})
				if failSig != "" {
					return
				}
			}
		})
		s.AddExtra("rounds", rounds)
		s.AddExtra("rounds-with->=2-goroutines-inside-first-call", overlapRounds)
		if failSig != "" {
			s.Fail(f, c, failSig, "%s", failMsg)
			return
		}
		cls := []string{}
		if overlapRounds > 0 {
			cls = append(cls, "overlapping-first-calls")
		}
		s.Note(c, overlapRounds > 0, cls...)
	}

	var c c41FirstCase
	if ok, err := kit.LoadReplay("C41", "concurrent-first-use", &c); ok {
		if err != nil {
			t.Fatal(err)
		}
		for i := 0; i < 20 && !t.Failed(); i++ {
			run(t, c)
		}
		return
	} else if kit.ReplayMode() {
		t.Skip()
	}

	kit.SetChecks(40, 400)
	rapid.Check(t, func(rt *rapid.T) {
		var c c41FirstCase
		c.Procs = rapid.SampledFrom([]int{2, 4, 8, 16, 16}).Draw(rt, "procs")
		n := rapid.IntRange(1, 4).Draw(rt, "nshapes")
		for i := 0; i < n; i++ {
			sp := c41FirstSpec{
				G:     rapid.IntRange(2, 16).Draw(rt, "g"),
				K:     rapid.SampledFrom([]int{1, 1, 2, 5, 50}).Draw(rt, "k"),
				Rep:   rapid.IntRange(50, 400).Draw(rt, "rep"),
				Stamp: rapid.Bool().Draw(rt, "stamp"),
			}
			spinMode := rapid.IntRange(0, 2).Draw(rt, "spinmode")
			for g := 0; g < sp.G; g++ {
				d := 0
				switch spinMode {
				case 1:
					d = rapid.IntRange(0, 20).Draw(rt, "spin")
				case 2:
					d = rapid.IntRange(0, 300).Draw(rt, "spin")
				}
				sp.Spin = append(sp.Spin, d)
			}
			c.Specs = append(c.Specs, sp)
		}
		run(rt, c)
	})
}

func sprintf(format string, a ...any) string { return fmt.Sprintf(format, a...) }
