package enginechk

import (
	"sort"
	"testing"

	"github.com/sarchlab/akita/v5/timing"
	"pgregory.net/rapid"

	"verif/harness/kit"
)

type c02Case struct {
	Prog   program  `json:"prog"`
	Bounds []uint64 `json:"bounds"` // non-decreasing RunUntil boundaries, then Run
}

// genBounds draws boundaries relative to the program's reference event times.
func genBounds(rt *rapid.T, ref []entry) []uint64 {
	ts := distinctTimes(ref)
	cnt := map[uint64]int{}
	for _, e := range ref {
		cnt[e.T]++
	}
	var busy []uint64 // instants with >= 2 events
	for _, t := range ts {
		if cnt[t] >= 2 {
			busy = append(busy, t)
		}
	}
	k := rapid.IntRange(0, 12).Draw(rt, "nbounds")
	var bs []uint64
	for i := 0; i < k; i++ {
		var b uint64
		switch rapid.IntRange(0, 6).Draw(rt, "bkind") {
		case 0: // equal to an event time
			b = ts[rapid.IntRange(0, len(ts)-1).Draw(rt, "idx")]
		case 1: // equal to an instant holding several events
			if len(busy) > 0 {
				b = busy[rapid.IntRange(0, len(busy)-1).Draw(rt, "bidx")]
			} else {
				b = ts[rapid.IntRange(0, len(ts)-1).Draw(rt, "idx")]
			}
		case 2: // strictly between two event times when there is room, else just below the later one
			i := rapid.IntRange(0, len(ts)-1).Draw(rt, "idx")
			b = ts[i]
			if i+1 < len(ts) && ts[i+1]-ts[i] >= 2 {
				b = ts[i] + rapid.Uint64Range(1, ts[i+1]-ts[i]-1).Draw(rt, "off")
			} else if b < maxTime {
				b++ // == next event time or beyond the last: still a legal boundary
			}
		case 3: // just below an event time
			b = ts[rapid.IntRange(0, len(ts)-1).Draw(rt, "idx")]
			if b > 0 {
				b--
			}
		case 4: // before the first
			b = rapid.Uint64Range(0, ts[0]).Draw(rt, "b")
		case 5: // beyond the last
			last := ts[len(ts)-1]
			b = last + minU(rapid.SampledFrom([]uint64{1, 2, 1000, maxTime}).Draw(rt, "beyond"), maxTime-last)
		default: // repeat the previous one
			if len(bs) > 0 {
				b = bs[len(bs)-1]
			} else {
				b = ts[0]
			}
		}
		bs = append(bs, b)
	}
	sort.Slice(bs, func(i, j int) bool { return bs[i] < bs[j] })
	return bs
}

func TestC02(t *testing.T) {
	s := kit.Begin(t, "C02", "rununtil",
		"C01's program generator + 0..12 non-decreasing RunUntil boundaries drawn relative to the reference event times (equal to an event time, equal to an instant with "+
			">= 2 events, strictly between, just below, before the first, beyond the last up to 2^64-1, repeated). Engine A: Run. Engine B (fresh, same program): RunUntil(b1..bk); Run. "+
			"Logs must be identical and equal to the reference; after each RunUntil(b): all handled times <= b, handled count = number of reference events with time <= b, "+
			"CurrentTime = time of last handled event (0 when none yet). Non-trivial: some boundary equals an instant that contains a same-instant (dt=0) chain and that call "+
			"left later events queued")
	defer s.End()

	run := func(f kit.Failer, c c02Case) {
		p := &c.Prog
		if _, ok := p.absTimes(maxTime); !ok {
			f.Fatalf("harness: malformed program")
		}
		for i := 1; i < len(c.Bounds); i++ {
			if c.Bounds[i] < c.Bounds[i-1] {
				f.Fatalf("harness: boundaries not sorted")
			}
		}
		ref := refSchedule(p)
		timing.ResetIDGenerator()

		// Engine A: a single Run.
		var a *serialRun
		ok, sig, msg := kit.Guard(func() {
			a = newSerialRun(p)
			_ = a.eng.Run()
		})
		if !ok {
			s.Fail(f, c, sig, "%s", msg)
			return
		}
		logA, _, _ := a.log()

		// Engine B: boundaries, then Run.
		type callObs struct {
			handledAfter int
			now          timing.VTimeInPicoSec
			err          error
		}
		var b *serialRun
		var calls []callObs
		var finalErr error
		ok, sig, msg = kit.Guard(func() {
			b = newSerialRun(p)
			for _, bd := range c.Bounds {
				err := b.eng.RunUntil(timing.VTimeInPicoSec(bd))
				n := 0
				for _, o := range b.obs {
					if o.Kind == 'H' {
						n++
					}
				}
				calls = append(calls, callObs{n, b.eng.CurrentTime(), err})
			}
			finalErr = b.eng.Run()
		})
		if !ok {
			s.Fail(f, c, sig, "%s", msg)
			return
		}
		for _, an := range b.anomaly {
			sg, m := splitAnomaly(an)
			s.Fail(f, c, sg, "%s", m)
			return
		}
		logB, hs, hm := b.log()

		// per-call postconditions
		zeroCall, cutOnChain, cut := false, false, false
		chainAt := map[uint64]bool{}
		for _, e := range ref {
			nd := p.Nodes[e.Node]
			if nd.P >= 0 && nd.T == 0 {
				chainAt[e.T] = true
			}
		}
		prev := 0
		for i, co := range calls {
			bd := c.Bounds[i]
			if co.err != nil {
				s.Fail(f, c, "rununtil-error", "RunUntil(%d) returned %v", bd, co.err)
				return
			}
			if co.handledAfter > len(logB) {
				f.Fatalf("harness: handled count beyond log")
			}
			for j := prev; j < co.handledAfter; j++ {
				if logB[j].T > bd {
					s.Fail(f, c, "rununtil-overrun", "RunUntil(%d) (call %d) handled node %d at time %d", bd, i, logB[j].Node, logB[j].T)
					return
				}
			}
			want := sort.Search(len(ref), func(k int) bool { return ref[k].T > bd })
			if co.handledAfter < want {
				s.Fail(f, c, "rununtil-underrun", "RunUntil(%d) (call %d) returned with %d events handled; the reference has %d events with time <= %d (first left: node %d@%d)",
					bd, i, co.handledAfter, want, bd, ref[co.handledAfter].Node, ref[co.handledAfter].T)
				return
			}
			if co.handledAfter > want {
				s.Fail(f, c, "rununtil-overrun", "RunUntil(%d) (call %d) returned with %d events handled; only %d events have time <= %d", bd, i, co.handledAfter, want, bd)
				return
			}
			wantNow := timing.VTimeInPicoSec(0)
			if co.handledAfter > 0 {
				wantNow = timing.VTimeInPicoSec(logB[co.handledAfter-1].T)
			}
			if co.now != wantNow {
				s.Fail(f, c, "rununtil-clock", "after RunUntil(%d) (call %d) CurrentTime()=%d, last handled event at %d", bd, i, co.now, wantNow)
				return
			}
			if co.handledAfter == prev {
				zeroCall = true
			}
			if co.handledAfter > prev && co.handledAfter < len(ref) {
				cut = true
				if chainAt[bd] {
					cutOnChain = true
				}
			}
			prev = co.handledAfter
		}
		if finalErr != nil {
			s.Fail(f, c, "run-error", "Run returned %v", finalErr)
			return
		}
		// differential: boundaries are invisible
		if sg, m := diffLogs(p, logA, logB); sg != "" {
			s.Fail(f, c, "differential:"+sg, "Run vs RunUntil%v+Run: %s", c.Bounds, m)
			return
		}
		// and both agree with the reference
		if sg, m := diffLogs(p, ref, logB); sg != "" {
			s.Fail(f, c, "reference:"+sg, "%s", m)
			return
		}
		if hs != "" {
			s.Fail(f, c, hs, "%s", hm)
			return
		}
		if got, want := b.eng.CurrentTime(), timing.VTimeInPicoSec(ref[len(ref)-1].T); got != want {
			s.Fail(f, c, "currenttime-after-run", "CurrentTime()=%d after the final Run, last event at %d", got, want)
			return
		}

		cls := []string{sizeClass(len(p.Nodes))}
		if len(c.Bounds) == 0 {
			cls = append(cls, "no-boundary")
		}
		if zeroCall {
			cls = append(cls, "zero-event-call")
		}
		if cut {
			cls = append(cls, "cut")
		}
		if cutOnChain {
			cls = append(cls, "cut-at-chain-instant")
		}
		for i := 1; i < len(c.Bounds); i++ {
			if c.Bounds[i] == c.Bounds[i-1] {
				cls = append(cls, "repeated-boundary")
				break
			}
		}
		if len(c.Bounds) > 0 && c.Bounds[len(c.Bounds)-1] == maxTime {
			cls = append(cls, "boundary=2^64-1")
		}
		if p.Hook {
			cls = append(cls, "hook")
		}
		s.Note(c, cutOnChain, cls...)
	}

	var c c02Case
	if ok, err := kit.LoadReplay("C02", "rununtil", &c); ok {
		if err != nil {
			t.Fatal(err)
		}
		run(t, c)
		return
	} else if kit.ReplayMode() {
		t.Skip()
	}

	kit.SetChecks(40_000, 300_000)
	rapid.Check(t, func(rt *rapid.T) {
		c := c02Case{Prog: genProgram(rt, genOpts{limit: maxTime, maxN: 200})}
		c.Bounds = genBounds(rt, refSchedule(&c.Prog))
		run(rt, c)
	})
}
