package enginechk

import (
	"encoding/json"
	"testing"

	"github.com/sarchlab/akita/v5/timing"
	"pgregory.net/rapid"

	"verif/harness/kit"
)

// The ParallelEngine uses math.MaxUint64 as "no event" in
// earliestTimeInQueueGroup, so event times are kept <= 2^64-2 for it (see the
// report: a secondary-only event at 2^64-1 would never be reached).
const parLimit = maxTime - 1

// sigSibling names the one input class in which the unchanged tree breaks the
// phase clause: >= 2 secondaries of one instant run in the same round and one
// of them schedules a primary for that same instant.
const sigSibling = "secondary-round:sibling-secondary-schedules-same-instant-primary"

type c04Case struct {
	Prog    program `json:"prog"`
	Procs   []int   `json:"procs"` // GOMAXPROCS values the case is run under
	Steered bool    `json:"steered,omitempty"`
}

// hasSiblingClass tells whether the program (reference times abs) contains the
// sigSibling input class: an instant with >= 2 secondaries one of which has a
// primary dt=0 child. It returns the index of such a child or -1.
func siblingChild(p *program, abs []uint64) int {
	secAt := map[uint64]int{}
	for i, nd := range p.Nodes {
		if nd.Sec {
			secAt[abs[i]]++
		}
	}
	for i, nd := range p.Nodes {
		if nd.P >= 0 && nd.T == 0 && !nd.Sec && p.Nodes[nd.P].Sec && secAt[abs[i]] >= 2 {
			return i
		}
	}
	return -1
}

// steerAwayFromSibling rewrites the program so that it is outside the
// sigSibling class: each offending child becomes a secondary (times do not
// change, so the loop reaches a fixpoint). Returns whether it changed anything.
func steerAwayFromSibling(p *program, abs []uint64) bool {
	changed := false
	for {
		c := siblingChild(p, abs)
		if c < 0 {
			return changed
		}
		p.Nodes[c].Sec = true
		changed = true
	}
}

type c04Run struct {
	hist         history
	hookB, hookA []int64
	anomaly      []string
	err          error
}

func runParallel(p *program, procs int) (out c04Run, ok bool, sig, msg string) {
	ok, sig, msg = kit.Guard(func() {
		withProcs(procs, func() {
			r := newStampRec(p, true)
			out.err = r.eng.Run()
			out.hist = r.history()
			out.hookB, out.hookA = loadAll(r.hookB), loadAll(r.hookA)
			out.anomaly = r.anomaly
		})
	})
	return
}

func histJSON(h history) string {
	b, _ := json.Marshal(h)
	if len(b) > 3000 {
		b = append(b[:3000], "..."...)
	}
	return string(b)
}

func TestC04(t *testing.T) {
	s := kit.Begin(t, "C04", "parallel-order",
		"C01's program generator (1..60 events, times <= 2^64-2, handlers spin 0..3000 iterations / Gosched 0..3 times before and after scheduling their children) run on the real "+
			"ParallelEngine under two drawn GOMAXPROCS values from {1,2,3,4,8,16}, built with -race. History = per node sched/enter/exit stamps from one atomic counter. Invariants "+
			"(sound for every interleaving): each node entered exactly once and Run returned; time(a)<time(b) => exit(a)<enter(b); for primary p and secondary s of one instant, "+
			"sched(p)<enter(s) => exit(p)<enter(s); CurrentTime()==event time inside handlers. Non-trivial: two handler bodies overlapped in the recorded history and a secondary "+
			"scheduled a primary at its own instant")
	defer s.End()
	s.Assume("an event 'starts' when its handler body begins executing; 'primaries scheduled during the instant' = primaries whose Schedule call returned before the secondary's body began")
	s.Assume("only interleavings the Go runtime produced under the drawn spin/yield/GOMAXPROCS perturbations are explored; the race detector is part of the oracle (driver treats a DATA RACE report as a violation)")
	_, siblingKnown := s.IsKnown(sigSibling)

	run := func(f kit.Failer, c c04Case) {
		p := &c.Prog
		abs, ok := p.absTimes(parLimit)
		if !ok || len(c.Procs) == 0 {
			f.Fatalf("harness: malformed case")
		}
		timing.ResetIDGenerator()
		ref := refSchedule(p)
		ft := features(p, ref)
		overlapped, sibHit := false, false
		for _, procs := range c.Procs {
			out, ok, sig, msg := runParallel(p, procs)
			if !ok {
				s.Fail(f, c, sig, "GOMAXPROCS=%d: %s", procs, msg)
				return
			}
			if out.err != nil {
				s.Fail(f, c, "run-error", "Run returned %v", out.err)
				return
			}
			for _, a := range out.anomaly {
				sg, m := splitAnomaly(a)
				s.Fail(f, c, sg, "GOMAXPROCS=%d: %s", procs, m)
				return
			}
			sg, m, sib := judgeOrder(p, abs, out.hist, out.hookB, out.hookA)
			if sg != "" {
				s.Fail(f, c, sg, "GOMAXPROCS=%d: %s; history %s", procs, m, histJSON(out.hist))
				return
			}
			if sib != "" {
				sibHit = true
				s.Fail(f, c, sigSibling, "GOMAXPROCS=%d: %s; history %s", procs, sib, histJSON(out.hist))
				// listed: the other invariants were judged already, go on
			}
			if concurrency(out.hist) {
				overlapped = true
			}
		}
		cls := []string{sizeClass(len(p.Nodes))}
		if overlapped {
			cls = append(cls, "handlers-overlapped")
		}
		if ft.secToPrim0 {
			cls = append(cls, "secondary->primary@dt0")
		}
		if ft.both {
			cls = append(cls, "both-classes")
		}
		if ft.chain {
			cls = append(cls, "same-instant-chain")
		}
		if sibHit {
			cls = append(cls, "known:sibling-secondary")
		}
		if c.Steered {
			cls = append(cls, "steered")
		}
		if siblingChild(p, abs) >= 0 {
			cls = append(cls, "in-sibling-class")
		}
		if ref[len(ref)-1].T > parLimit-16 {
			cls = append(cls, "near-2^64")
		}
		s.Note(c, overlapped && ft.secToPrim0, cls...)
	}

	var c c04Case
	if ok, err := kit.LoadReplay("C04", "parallel-order", &c); ok {
		if err != nil {
			t.Fatal(err)
		}
		// schedule-dependent: re-run the saved case several times
		for i := 0; i < 20 && !t.Failed(); i++ {
			run(t, c)
		}
		return
	} else if kit.ReplayMode() {
		t.Skip()
	}

	kit.SetChecks(2_500, 10_000)
	rapid.Check(t, func(rt *rapid.T) {
		c := c04Case{Prog: genProgram(rt, genOpts{limit: parLimit, maxN: 60, spin: true, maxSpin: 3000})}
		c.Procs = []int{
			rapid.SampledFrom([]int{1, 2, 3, 4, 8, 16}).Draw(rt, "procs0"),
			rapid.SampledFrom([]int{1, 2, 3, 4, 8, 16}).Draw(rt, "procs1"),
		}
		if siblingKnown && rapid.IntRange(0, 3).Draw(rt, "steer") != 0 {
			abs, _ := c.Prog.absTimes(parLimit)
			if steerAwayFromSibling(&c.Prog, abs) {
				c.Steered = true
				s.Excluded(1)
			}
		}
		run(rt, c)
	})
}

// TestC04Known_SiblingSecondary is the dedicated reproduction of the listed
// finding sigSibling: two secondary roots at time 0, each with a primary child
// at dt=0. At GOMAXPROCS=1 the two handler goroutines of the secondary round
// run one after the other, so the second one starts after the first one's
// same-instant primary has been scheduled and before that primary is handled.
func TestC04Known_SiblingSecondary(t *testing.T) {
	s := kit.Begin(t, "C04", "known-sibling-secondary", "deterministic reproduction of "+sigSibling+" (fixed program, GOMAXPROCS=1, up to 50 attempts)")
	defer s.End()
	if kit.ReplayMode() {
		t.Skip()
	}
	c := c04Case{Procs: []int{1}, Prog: program{NH: 1, Nodes: []pNode{
		{P: -1, T: 0, Sec: true}, {P: -1, T: 0, Sec: true},
		{P: 0, T: 0}, {P: 1, T: 0},
	}}}
	abs, _ := c.Prog.absTimes(parLimit)
	for attempt := 0; attempt < 50; attempt++ {
		out, ok, sig, msg := runParallel(&c.Prog, 1)
		if !ok {
			s.Fail(t, c, sig, "%s", msg)
			return
		}
		sg, m, sib := judgeOrder(&c.Prog, abs, out.hist, out.hookB, out.hookA)
		if sg != "" {
			s.Fail(t, c, sg, "%s; history %s", m, histJSON(out.hist))
			return
		}
		if sib != "" {
			s.KnownStillFails(t, c, sigSibling, sib)
			s.Note(c, true, "reproduced")
			return
		}
	}
	s.Note(c, false, "not-reproduced")
	t.Logf("the listed finding %s did not reproduce in 50 attempts", sigSibling)
}
