package enginechk

import (
	"fmt"
	"runtime"
	"sort"
	"sync"
	"sync/atomic"
	"testing"

	"github.com/sarchlab/akita/v5/timing"
	"pgregory.net/rapid"

	"verif/harness/kit"
)

// Signatures. The serial engine's Pause only stores a flag: a handler that is
// in flight (or whose dispatch passed the flag check) keeps running after
// Pause returned. All observations of that go under sigSerialPause; everything
// else the check can see has its own signature, so the search stays useful
// behind the listed finding.
const (
	sigSerialPause   = "serial:pause-returns-while-handler-in-flight"
	sigSerialLeak    = "serial:pause-does-not-stop-dispatch"
	sigParallelPause = "parallel:pause-not-quiescent"
)

type pauseStep struct {
	Delay    int  `json:"delay"`     // busy iterations before Pause
	DelayYld int  `json:"delay_yld"` // Gosched calls before Pause
	Hold     int  `json:"hold"`      // sampling iterations between Pause and Continue
	HoldYld  bool `json:"hold_yld"`  // Gosched while holding (lets a leaked handler run at GOMAXPROCS=1)
}

type c05Case struct {
	Prog     program     `json:"prog"`
	Parallel bool        `json:"parallel"`
	Procs    []int       `json:"procs"`
	Plan     []pauseStep `json:"plan"`
}

type pauseObs struct {
	StampP      int64 `json:"stamp_pause_returned"`
	StampC      int64 `json:"stamp_before_continue"`
	H0          int64 `json:"handled_at_pause"`
	H1          int64 `json:"handled_before_continue"`
	RunningSeen int   `json:"running_seen"`
}

type c05Run struct {
	hist     history
	obs      []pauseObs
	anomaly  []string
	err      error
	panicked bool
	sig, msg string
}

// runPaused runs the program with a pauser goroutine executing the plan.
// Pause/Continue strictly alternate and are never called from a handler (the
// only caller in /repo, monitoring2, calls them from HTTP goroutines under a
// mutex). No step waits on wall-clock time.
func runPaused(c *c05Case, procs int) (out c05Run) {
	withProcs(procs, func() {
		r := newStampRec(&c.Prog, c.Parallel)
		start := make(chan struct{})
		var wg sync.WaitGroup
		wg.Add(2)
		go func() {
			defer wg.Done()
			<-start
			ok, sig, msg := kit.Guard(func() { out.err = r.eng.Run() })
			if !ok {
				out.panicked, out.sig, out.msg = true, sig, msg
			}
		}()
		obs := make([]pauseObs, 0, len(c.Plan))
		go func() {
			defer wg.Done()
			<-start
			for _, st := range c.Plan {
				spin(st.Delay)
				for i := 0; i < st.DelayYld; i++ {
					runtime.Gosched()
				}
				r.eng.Pause()
				o := pauseObs{StampP: r.clk.Add(1), H0: r.handled.Load()}
				for i := 0; i < st.Hold; i++ {
					if r.running.Load() != 0 {
						o.RunningSeen++
					}
					if st.HoldYld && i%16 == 0 {
						runtime.Gosched()
					}
				}
				o.H1 = r.handled.Load()
				o.StampC = r.clk.Add(1)
				r.eng.Continue()
				obs = append(obs, o)
			}
		}()
		close(start)
		wg.Wait()
		out.obs = obs
		out.hist = r.history()
		out.anomaly = r.anomaly
	})
	return
}

// windowActivity lists the nodes whose handler body was executing at some
// point of the window (stampP, stampC): entered before the window closed and
// exited after it opened.
func windowActivity(h history, o pauseObs) (active []int) {
	for n := range h.Enter {
		if h.Count[n] == 0 {
			continue
		}
		if h.Enter[n] < o.StampC && h.Exit[n] > o.StampP {
			active = append(active, n)
		}
	}
	return
}

func serialLogFromHistory(abs []uint64, h history) []entry {
	var idx []int
	for n := range h.Enter {
		for k := int32(0); k < h.Count[n]; k++ {
			idx = append(idx, n)
		}
	}
	sort.SliceStable(idx, func(a, b int) bool { return h.Enter[idx[a]] < h.Enter[idx[b]] })
	out := make([]entry, len(idx))
	for i, n := range idx {
		out[i] = entry{n, abs[n]}
	}
	return out
}

func TestC05(t *testing.T) {
	s := kit.Begin(t, "C05", "pause",
		"C04's program generator (1..60 events; handler bodies set an atomic running counter, spin/yield, schedule children, bump a handled counter, clear running) on the "+
			"SerialEngine or ParallelEngine (drawn), Run in one goroutine, a pauser goroutine executing 1..6 drawn (delay-spin, Pause, hold-and-sample, Continue) steps; two drawn "+
			"GOMAXPROCS values; -race. Oracle: from the stamp history, no handler body overlaps any window (Pause returned, Continue called) and running is never sampled set; after the last "+
			"Continue the run completes with the C01 reference log (serial) / the C04 invariants (parallel). Non-trivial: some Pause returned after the first and before the last "+
			"handler body (0 < handled < N at Pause) or caught a handler in flight")
	defer s.End()
	s.Assume("Pause/Continue alternate strictly and are never called from a handler (ParallelEngine.Pause is a plain mutex; monitoring2 is the only caller in /repo)")
	s.Assume("sound but incomplete: only pause moments that the drawn delays and the Go scheduler produced are explored; a hang is left to the driver's watchdog (inconclusive), never reported as a violation")

	run := func(f kit.Failer, c c05Case) {
		p := &c.Prog
		limit := uint64(maxTime)
		if c.Parallel {
			limit = parLimit
		}
		abs, ok := p.absTimes(limit)
		if !ok || len(c.Procs) == 0 {
			f.Fatalf("harness: malformed case")
		}
		timing.ResetIDGenerator()
		ref := refSchedule(p)
		n := int64(len(p.Nodes))
		eng := "serial"
		if c.Parallel {
			eng = "parallel"
		}
		landed, inflight, knownHit := false, false, false
		for _, procs := range c.Procs {
			out := runPaused(&c, procs)
			if out.panicked {
				s.Fail(f, c, out.sig, "GOMAXPROCS=%d: %s", procs, out.msg)
				return
			}
			if out.err != nil {
				s.Fail(f, c, "run-error", "Run returned %v", out.err)
				return
			}
			for _, a := range out.anomaly {
				sg, m := splitAnomaly(a)
				s.Fail(f, c, eng+":"+sg, "GOMAXPROCS=%d: %s", procs, m)
				return
			}
			// quiescence of every pause window
			for i, o := range out.obs {
				act := windowActivity(out.hist, o)
				if o.H0 > 0 && o.H0 < n {
					landed = true
				}
				if len(act) == 0 && o.RunningSeen == 0 && o.H1 == o.H0 {
					continue
				}
				inflight = true
				desc := fmt.Sprintf("GOMAXPROCS=%d, %s engine, pause %d: Pause returned at stamp %d, Continue called at stamp %d; handler bodies executing inside that window: nodes %v "+
					"(enter/exit %v); running sampled set %d times; handled counter %d -> %d", procs, eng, i, o.StampP, o.StampC, act, stampsOf(out.hist, act), o.RunningSeen, o.H0, o.H1)
				if c.Parallel {
					s.Fail(f, c, sigParallelPause, "%s", desc)
					return
				}
				if len(act) >= 2 || o.H1-o.H0 >= 2 {
					s.Fail(f, c, sigSerialLeak, "%s", desc)
					return
				}
				knownHit = true
				s.Fail(f, c, sigSerialPause, "%s", desc)
				// listed finding: the history itself is intact, keep judging completeness
			}
			// after the last Continue the run still handles every event, in order
			if c.Parallel {
				sg, m, _ := judgeOrder(p, abs, out.hist, nil, nil)
				if sg != "" {
					s.Fail(f, c, "after-continue:"+sg, "GOMAXPROCS=%d: %s; history %s", procs, m, histJSON(out.hist))
					return
				}
			} else {
				if sg, m := diffLogs(p, ref, serialLogFromHistory(abs, out.hist)); sg != "" {
					s.Fail(f, c, "after-continue:"+sg, "GOMAXPROCS=%d: %s; history %s", procs, m, histJSON(out.hist))
					return
				}
			}
		}
		cls := []string{eng}
		if landed {
			cls = append(cls, eng+":pause-mid-run")
		}
		if inflight {
			cls = append(cls, eng+":caught-handler-in-flight")
		}
		if knownHit {
			cls = append(cls, "known:serial-pause")
		}
		s.Note(c, landed || inflight, cls...)
	}

	var c c05Case
	if ok, err := kit.LoadReplay("C05", "pause", &c); ok {
		if err != nil {
			t.Fatal(err)
		}
		for i := 0; i < 20 && !t.Failed(); i++ {
			run(t, c)
		}
		return
	} else if kit.ReplayMode() {
		t.Skip()
	}

	kit.SetChecks(2_000, 10_000)
	rapid.Check(t, func(rt *rapid.T) {
		var c c05Case
		c.Parallel = rapid.Bool().Draw(rt, "parallel")
		limit := uint64(maxTime)
		if c.Parallel {
			limit = parLimit
		}
		c.Prog = genProgram(rt, genOpts{limit: limit, maxN: 60, spin: true, maxSpin: 3000})
		c.Procs = []int{
			rapid.SampledFrom([]int{1, 2, 3, 4, 8, 16}).Draw(rt, "procs0"),
			rapid.SampledFrom([]int{1, 2, 3, 4, 8, 16}).Draw(rt, "procs1"),
		}
		k := rapid.IntRange(1, 6).Draw(rt, "npauses")
		for i := 0; i < k; i++ {
			var st pauseStep
			switch rapid.IntRange(0, 2).Draw(rt, "delayclass") {
			case 0:
				st.Delay = rapid.IntRange(0, 200).Draw(rt, "delay")
			case 1:
				st.Delay = rapid.IntRange(0, 5_000).Draw(rt, "delay")
			default:
				st.Delay = rapid.IntRange(0, 60_000).Draw(rt, "delay")
			}
			st.DelayYld = rapid.IntRange(0, 4).Draw(rt, "delayyld")
			st.Hold = rapid.IntRange(0, 4_000).Draw(rt, "hold")
			st.HoldYld = rapid.Bool().Draw(rt, "holdyld")
			c.Plan = append(c.Plan, st)
		}
		run(rt, c)
	})
}

func stampsOf(h history, nodes []int) [][2]int64 {
	out := make([][2]int64, len(nodes))
	for i, n := range nodes {
		out[i] = [2]int64{h.Enter[n], h.Exit[n]}
	}
	return out
}

// TestC05Known_SerialPauseMidHandler is the dedicated reproduction of
// sigSerialPause. One event whose handler reports "I am inside", then keeps
// its running flag set for a bounded number of yields (it leaves early once
// the pauser reports that Pause has returned). The pauser waits for "inside",
// calls Pause and looks at the flag. On the unchanged tree Pause returns at
// once and the flag is still set. With an engine whose Pause waits for the
// in-flight handler, the bounded loop runs out, Pause returns afterwards, the
// flag is clear and nothing is reported (no deadlock either way).
func TestC05Known_SerialPauseMidHandler(t *testing.T) {
	s := kit.Begin(t, "C05", "known-serial-pause", "deterministic reproduction of "+sigSerialPause+": Pause called while the only handler is known to be inside its body")
	defer s.End()
	if kit.ReplayMode() {
		t.Skip()
	}
	type kcase struct {
		Desc string `json:"desc"`
	}
	c := kcase{"one event at time 0; handler signals entry and stays in its body for <= 200000 yields; another goroutine calls Pause after the signal"}

	eng := timing.NewSerialEngine()
	var running, pauseReturned atomic.Int32
	inside := make(chan struct{})
	h := handlerFunc(func(timing.Event) error {
		running.Store(1)
		close(inside)
		for i := 0; i < 200_000 && pauseReturned.Load() == 0; i++ {
			runtime.Gosched()
		}
		// stay a little longer so the sampler can look
		for i := 0; i < 2_000; i++ {
			runtime.Gosched()
		}
		running.Store(0)
		return nil
	})
	eng.RegisterHandler("h0", h)
	eng.Schedule(nodeEvt{t: 0, h: "h0"})
	done := make(chan struct{})
	go func() { _ = eng.Run(); close(done) }()
	<-inside
	eng.Pause()
	seen := running.Load() != 0
	pauseReturned.Store(1)
	eng.Continue()
	<-done
	if seen {
		s.KnownStillFails(t, c, sigSerialPause, "SerialEngine.Pause() returned while the handler of the only event was still inside its body (running flag set)")
		s.Note(c, true, "reproduced")
		return
	}
	s.Note(c, false, "not-reproduced")
}

type handlerFunc func(timing.Event) error

func (f handlerFunc) Handle(e timing.Event) error { return f(e) }
