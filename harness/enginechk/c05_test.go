package enginechk

import (
	"fmt"
	"runtime"
	"sort"
	"sync"
	"sync/atomic"
	"testing"

	"github.com/sarchlab/akita/v5/timing"
	"pgregory.net/rapid"

	"verif/harness/kit"
)

// Signatures. The serial engine's Pause only stores a flag: a handler that is
// in flight (or whose dispatch passed the flag check) keeps running after
// Pause returned. All observations of that go under sigSerialPause; everything
// else the check can see has its own signature, so the search stays useful
// behind the listed finding.
const (
	sigSerialPause   = "serial:pause-returns-while-handler-in-flight"
	sigSerialLeak    = "serial:pause-does-not-stop-dispatch"
	sigParallelPause = "parallel:pause-not-quiescent"
)

type pauseStep struct {
	Delay    int  `json:"delay"`     // busy iterations before Pause
	DelayYld int  `json:"delay_yld"` // Gosched calls before Pause
	Hold     int  `json:"hold"`      // sampling iterations between Pause and Continue
	HoldYld  bool `json:"hold_yld"`  // Gosched while holding (lets a leaked handler run at GOMAXPROCS=1)
}

// runCall is one call of the run plan: RunUntil(B) or Run, issued after a
// drawn busy delay.
type runCall struct {
	Until bool   `json:"until,omitempty"`
	B     uint64 `json:"b,omitempty"`
	Delay int    `json:"delay,omitempty"`
	Yld   int    `json:"yld,omitempty"`
}

type c05Case struct {
	Prog     program     `json:"prog"`
	Parallel bool        `json:"parallel"`
	Procs    []int       `json:"procs"`
	Plan     []pauseStep `json:"plan"`
	// Runners is the run plan: each inner list is issued in order by its own
	// goroutine on the same engine; calls of different goroutines may overlap
	// (they serialise on the SerialEngine's run lock). The last call of
	// runner 0 is always Run, which returns only once no event remains, so the
	// program completes whatever the interleaving. Empty = one goroutine, one
	// Run. The ParallelEngine gets exactly that (no RunUntil, no run lock).
	Runners [][]runCall `json:"runners,omitempty"`
	// Gate: the pauser issues its first Pause only after every runner has
	// invoked its first call and some handler body has been entered (pure
	// synchronisation on events that are certain to happen: runner 0 ends with
	// Run and the program has >= 1 event).
	Gate bool `json:"gate,omitempty"`
}

// callObs is one executed call of the run plan.
type callObs struct {
	Runner int   `json:"runner"`
	Invoke int64 `json:"invoke"` // stamp taken just before the call
	Return int64 `json:"return"` // stamp taken just after it returned
}

type untilRunner interface {
	RunUntil(t timing.VTimeInPicoSec) error
}

type pauseObs struct {
	StampP      int64 `json:"stamp_pause_returned"`
	StampC      int64 `json:"stamp_before_continue"`
	H0          int64 `json:"handled_at_pause"`
	H1          int64 `json:"handled_before_continue"`
	RunningSeen int   `json:"running_seen"`
}

type c05Run struct {
	hist     history
	obs      []pauseObs
	calls    []callObs
	anomaly  []string
	err      error
	panicked bool
	sig, msg string
}

// runPaused runs the program with a pauser goroutine executing the plan.
// Pause/Continue strictly alternate and are never called from a handler (the
// only caller in /repo, monitoring2, calls them from HTTP goroutines under a
// mutex). No step waits on wall-clock time.
func runPaused(c *c05Case, procs int) (out c05Run) {
	withProcs(procs, func() {
		r := newStampRec(&c.Prog, c.Parallel)
		start := make(chan struct{})
		var wg sync.WaitGroup
		runners := c.Runners
		if len(runners) == 0 || c.Parallel {
			runners = [][]runCall{{{}}}
		}
		var mu sync.Mutex // guards out.err/out.panicked/out.calls while runners are alive
		var firstInvoked atomic.Int32
		for ri, plan := range runners {
			wg.Add(1)
			go func(ri int, plan []runCall) {
				defer wg.Done()
				<-start
				for ci, rc := range plan {
					spin(rc.Delay)
					for i := 0; i < rc.Yld; i++ {
						runtime.Gosched()
					}
					var err error
					co := callObs{Runner: ri, Invoke: r.clk.Add(1)}
					if ci == 0 {
						firstInvoked.Add(1)
					}
					ok, sig, msg := kit.Guard(func() {
						if rc.Until {
							err = r.eng.(untilRunner).RunUntil(timing.VTimeInPicoSec(rc.B))
						} else {
							err = r.eng.Run()
						}
					})
					co.Return = r.clk.Add(1)
					mu.Lock()
					out.calls = append(out.calls, co)
					if err != nil && out.err == nil {
						out.err = err
					}
					if !ok && !out.panicked {
						out.panicked, out.sig, out.msg = true, sig, msg
					}
					mu.Unlock()
					if !ok {
						return
					}
				}
			}(ri, plan)
		}
		wg.Add(1)
		obs := make([]pauseObs, 0, len(c.Plan))
		go func() {
			defer wg.Done()
			<-start
			if c.Gate {
				for firstInvoked.Load() < int32(len(runners)) || r.handled.Load() == 0 && r.running.Load() == 0 {
					runtime.Gosched()
				}
				for i := 0; i < 4; i++ {
					runtime.Gosched()
				}
			}
			for _, st := range c.Plan {
				spin(st.Delay)
				for i := 0; i < st.DelayYld; i++ {
					runtime.Gosched()
				}
				r.eng.Pause()
				o := pauseObs{StampP: r.clk.Add(1), H0: r.handled.Load()}
				for i := 0; i < st.Hold; i++ {
					if r.running.Load() != 0 {
						o.RunningSeen++
					}
					if st.HoldYld && i%16 == 0 {
						runtime.Gosched()
					}
				}
				o.H1 = r.handled.Load()
				o.StampC = r.clk.Add(1)
				r.eng.Continue()
				obs = append(obs, o)
			}
		}()
		close(start)
		wg.Wait()
		out.obs = obs
		out.hist = r.history()
		out.anomaly = r.anomaly
	})
	return
}

// windowActivity lists the nodes whose handler body was executing at some
// point of the window (stampP, stampC): entered before the window closed and
// exited after it opened.
func windowActivity(h history, o pauseObs) (active []int) {
	for n := range h.Enter {
		if h.Count[n] == 0 {
			continue
		}
		if h.Enter[n] < o.StampC && h.Exit[n] > o.StampP {
			active = append(active, n)
		}
	}
	return
}

func serialLogFromHistory(abs []uint64, h history) []entry {
	var idx []int
	for n := range h.Enter {
		for k := int32(0); k < h.Count[n]; k++ {
			idx = append(idx, n)
		}
	}
	sort.SliceStable(idx, func(a, b int) bool { return h.Enter[idx[a]] < h.Enter[idx[b]] })
	out := make([]entry, len(idx))
	for i, n := range idx {
		out[i] = entry{n, abs[n]}
	}
	return out
}

// TestC05GatedOverlap runs first (source order): run plans whose calls are all
// invoked up front (every runner's first call without delay, at most 2 calls
// per runner) and a pauser that starts only once the run is under way. This is
// the overlapping-run-calls class with the start-up coincidences (a run call
// arriving while a Pause is still waiting) taken out, so that an engine that
// wedges in those coincidences still gets its quiescence judged here before
// the unrestricted plans of TestC05.
func TestC05GatedOverlap(t *testing.T) {
	c05Check(t, "overlap-gated", true, 800, 6_000)
}

func TestC05(t *testing.T) {
	c05Check(t, "pause", false, 1_000, 8_000)
}

// c05Violated: an earlier C05 sub-check of this process already reported a
// violation. The later, less restricted sub-checks are then skipped: the
// verdict exists, and an engine broken in that way may also wedge (a hang
// would only delay the report until the driver's watchdog).
var c05Violated bool

func c05Check(t *testing.T, sub string, gated bool, quick, thorough int) {
	if c05Violated {
		t.Skip("an earlier C05 sub-check already reported a violation")
	}
	defer func() {
		if t.Failed() {
			c05Violated = true
		}
	}()
	shape := "serial: a run plan of 1..3 goroutines each issuing 1..4 RunUntil(b)/Run calls with drawn delays, pauser starts at once; "
	if gated {
		shape = "serial engine only: a run plan of 2..3 goroutines each issuing 1..2 RunUntil(b)/Run calls, first calls without delay, the pauser's first Pause gated on 'all first calls invoked and a handler entered'; "
	}
	s := kit.Begin(t, "C05", sub, shape+
		"C04's program generator (1..60 events; handler bodies set an atomic running counter, spin/yield, schedule children, bump a handled counter, clear running) on the "+
		"SerialEngine or ParallelEngine (drawn); run plan calls go to the same engine (boundaries at/just below/just above reference event times; calls overlap and serialise on the run lock; runner 0 ends with Run), parallel: one Run; a pauser goroutine executing 1..6 drawn (delay-spin, Pause, hold-and-sample, Continue) steps; two drawn "+
		"GOMAXPROCS values; -race. Oracle: from the stamp history, no handler body overlaps any window (Pause returned, Continue called) and running is never sampled set; after the last "+
		"Continue the run completes with the C01 reference log (serial) / the C04 invariants (parallel). Non-trivial: some Pause returned after the first and before the last "+
		"handler body (0 < handled < N at Pause) or caught a handler in flight")
	defer s.End()
	s.Assume("Pause/Continue alternate strictly and are never called from a handler (ParallelEngine.Pause is a plain mutex; monitoring2 is the only caller in /repo)")
	s.Assume("sound but incomplete: only pause moments that the drawn delays and the Go scheduler produced are explored; a hang is left to the driver's watchdog (inconclusive), never reported as a violation")

	run := func(f kit.Failer, c c05Case) {
		p := &c.Prog
		limit := uint64(maxTime)
		if c.Parallel {
			limit = parLimit
		}
		abs, ok := p.absTimes(limit)
		if !ok || len(c.Procs) == 0 {
			f.Fatalf("harness: malformed case")
		}
		if len(c.Runners) > 0 {
			if c.Parallel {
				f.Fatalf("harness: run plans are only generated for the serial engine")
			}
			r0 := c.Runners[0]
			if len(r0) == 0 || r0[len(r0)-1].Until {
				f.Fatalf("harness: the last call of runner 0 must be Run")
			}
		}
		timing.ResetIDGenerator()
		ref := refSchedule(p)
		n := int64(len(p.Nodes))
		eng := "serial"
		if c.Parallel {
			eng = "parallel"
		}
		landed, inflight, knownHit := false, false, false
		overlapCalls, takeover, pauseInTakeover := false, false, false
		for _, procs := range c.Procs {
			out := runPaused(&c, procs)
			if out.panicked {
				s.Fail(f, c, out.sig, "GOMAXPROCS=%d: %s", procs, out.msg)
				return
			}
			if out.err != nil {
				s.Fail(f, c, "run-error", "Run returned %v", out.err)
				return
			}
			for _, a := range out.anomaly {
				sg, m := splitAnomaly(a)
				s.Fail(f, c, eng+":"+sg, "GOMAXPROCS=%d: %s", procs, m)
				return
			}
			// run-plan classes, judged from stamps: call x was invoked while a call
			// y of another goroutine was still inside (x queued on the run lock or
			// got in first); "takeover" = some handler body entered after y had
			// returned and before x returned, i.e. events were handled by a call
			// that had overlapped an earlier one.
			for _, x := range out.calls {
				for _, y := range out.calls {
					if x.Runner == y.Runner || !(y.Invoke < x.Invoke && x.Invoke < y.Return) {
						continue
					}
					overlapCalls = true
					for nd := range out.hist.Enter {
						if e := out.hist.Enter[nd]; e > y.Return && e > x.Invoke && e < x.Return {
							takeover = true
							for _, o := range out.obs {
								if o.StampP > y.Return && o.StampP < x.Return {
									pauseInTakeover = true
								}
							}
							break
						}
					}
				}
			}
			// quiescence of every pause window
			for i, o := range out.obs {
				act := windowActivity(out.hist, o)
				if o.H0 > 0 && o.H0 < n {
					landed = true
				}
				if len(act) == 0 && o.RunningSeen == 0 && o.H1 == o.H0 {
					continue
				}
				inflight = true
				desc := fmt.Sprintf("GOMAXPROCS=%d, %s engine, pause %d: Pause returned at stamp %d, Continue called at stamp %d; handler bodies executing inside that window: nodes %v "+
					"(enter/exit %v); running sampled set %d times; handled counter %d -> %d; run calls (runner, invoke, return) %v", procs, eng, i, o.StampP, o.StampC, act,
					stampsOf(out.hist, act), o.RunningSeen, o.H0, o.H1, out.calls)
				if c.Parallel {
					s.Fail(f, c, sigParallelPause, "%s", desc)
					return
				}
				if len(act) >= 2 || o.H1-o.H0 >= 2 {
					s.Fail(f, c, sigSerialLeak, "%s", desc)
					return
				}
				knownHit = true
				s.Fail(f, c, sigSerialPause, "%s", desc)
				// listed finding: the history itself is intact, keep judging completeness
			}
			// after the last Continue the run still handles every event, in order
			if c.Parallel {
				sg, m, _ := judgeOrder(p, abs, out.hist, nil, nil)
				if sg != "" {
					s.Fail(f, c, "after-continue:"+sg, "GOMAXPROCS=%d: %s; history %s", procs, m, histJSON(out.hist))
					return
				}
			} else {
				if sg, m := diffLogs(p, ref, serialLogFromHistory(abs, out.hist)); sg != "" {
					s.Fail(f, c, "after-continue:"+sg, "GOMAXPROCS=%d: %s; history %s", procs, m, histJSON(out.hist))
					return
				}
			}
		}
		cls := []string{eng}
		if landed {
			cls = append(cls, eng+":pause-mid-run")
		}
		if inflight {
			cls = append(cls, eng+":caught-handler-in-flight")
		}
		if knownHit {
			cls = append(cls, "known:serial-pause")
		}
		if len(c.Runners) > 1 {
			cls = append(cls, "multi-runner-plan")
		}
		if overlapCalls {
			cls = append(cls, "overlapping-run-calls")
		}
		if takeover {
			cls = append(cls, "overlapped-call-handled-events")
		}
		if pauseInTakeover {
			cls = append(cls, "pause-during-overlapped-call")
		}
		s.Note(c, landed || inflight, cls...)
	}

	var c c05Case
	if ok, err := kit.LoadReplay("C05", sub, &c); ok {
		if err != nil {
			t.Fatal(err)
		}
		for i := 0; i < 20 && !t.Failed(); i++ {
			run(t, c)
		}
		return
	} else if kit.ReplayMode() {
		t.Skip()
	}

	kit.SetChecks(quick, thorough)
	rapid.Check(t, func(rt *rapid.T) {
		var c c05Case
		c.Gate = gated
		c.Parallel = !gated && rapid.Bool().Draw(rt, "parallel")
		limit := uint64(maxTime)
		if c.Parallel {
			limit = parLimit
		}
		c.Prog = genProgram(rt, genOpts{limit: limit, maxN: 60, spin: true, maxSpin: 3000})
		c.Procs = []int{
			rapid.SampledFrom([]int{1, 2, 3, 4, 8, 16}).Draw(rt, "procs0"),
			rapid.SampledFrom([]int{1, 2, 3, 4, 8, 16}).Draw(rt, "procs1"),
		}
		if !c.Parallel {
			c.Runners = genRunPlan(rt, refSchedule(&c.Prog), gated)
		}
		k := rapid.IntRange(1, 6).Draw(rt, "npauses")
		for i := 0; i < k; i++ {
			var st pauseStep
			switch rapid.IntRange(0, 2).Draw(rt, "delayclass") {
			case 0:
				st.Delay = rapid.IntRange(0, 200).Draw(rt, "delay")
			case 1:
				st.Delay = rapid.IntRange(0, 5_000).Draw(rt, "delay")
			default:
				st.Delay = rapid.IntRange(0, 60_000).Draw(rt, "delay")
			}
			st.DelayYld = rapid.IntRange(0, 4).Draw(rt, "delayyld")
			st.Hold = rapid.IntRange(0, 4_000).Draw(rt, "hold")
			st.HoldYld = rapid.Bool().Draw(rt, "holdyld")
			c.Plan = append(c.Plan, st)
		}
		run(rt, c)
	})
}

func stampsOf(h history, nodes []int) [][2]int64 {
	out := make([][2]int64, len(nodes))
	for i, n := range nodes {
		out[i] = [2]int64{h.Enter[n], h.Exit[n]}
	}
	return out
}

// TestC05Known_SerialPauseMidHandler is the dedicated reproduction of
// sigSerialPause. One event whose handler reports "I am inside", then keeps
// its running flag set for a bounded number of yields (it leaves early once
// the pauser reports that Pause has returned). The pauser waits for "inside",
// calls Pause and looks at the flag. On the unchanged tree Pause returns at
// once and the flag is still set. With an engine whose Pause waits for the
// in-flight handler, the bounded loop runs out, Pause returns afterwards, the
// flag is clear and nothing is reported (no deadlock either way).
func TestC05Known_SerialPauseMidHandler(t *testing.T) {
	s := kit.Begin(t, "C05", "known-serial-pause", "deterministic reproduction of "+sigSerialPause+": Pause called while the only handler is known to be inside its body")
	defer s.End()
	if kit.ReplayMode() {
		t.Skip()
	}
	type kcase struct {
		Desc string `json:"desc"`
	}
	c := kcase{"one event at time 0; handler signals entry and stays in its body for <= 200000 yields; another goroutine calls Pause after the signal"}

	eng := timing.NewSerialEngine()
	var running, pauseReturned atomic.Int32
	inside := make(chan struct{})
	h := handlerFunc(func(timing.Event) error {
		running.Store(1)
		close(inside)
		for i := 0; i < 200_000 && pauseReturned.Load() == 0; i++ {
			runtime.Gosched()
		}
		// stay a little longer so the sampler can look
		for i := 0; i < 2_000; i++ {
			runtime.Gosched()
		}
		running.Store(0)
		return nil
	})
	eng.RegisterHandler("h0", h)
	eng.Schedule(nodeEvt{t: 0, h: "h0"})
	done := make(chan struct{})
	go func() { _ = eng.Run(); close(done) }()
	<-inside
	eng.Pause()
	seen := running.Load() != 0
	pauseReturned.Store(1)
	eng.Continue()
	<-done
	if seen {
		s.KnownStillFails(t, c, sigSerialPause, "SerialEngine.Pause() returned while the handler of the only event was still inside its body (running flag set)")
		s.Note(c, true, "reproduced")
		return
	}
	s.Note(c, false, "not-reproduced")
}

type handlerFunc func(timing.Event) error

func (f handlerFunc) Handle(e timing.Event) error { return f(e) }

// genRunPlan draws 1..3 runner goroutines with 1..4 calls each. Boundaries are
// drawn relative to the program's reference event times. Runner 0 ends with
// Run. (RunUntil with a boundary below the engine's current time, which can
// arise when calls of different goroutines interleave, returns at once: every
// queued event is later.)
func genRunPlan(rt *rapid.T, ref []entry, gated bool) [][]runCall {
	ts := distinctTimes(ref)
	nr := rapid.SampledFrom([]int{1, 2, 2, 3, 3}).Draw(rt, "nrunners")
	maxCalls := 4
	if gated {
		nr = rapid.IntRange(2, 3).Draw(rt, "grunners")
		maxCalls = 2
	}
	plan := make([][]runCall, nr)
	for ri := range plan {
		nc := rapid.IntRange(1, maxCalls).Draw(rt, "ncalls")
		for ci := 0; ci < nc; ci++ {
			var rc runCall
			rc.Until = rapid.IntRange(0, 3).Draw(rt, "until") != 0
			if rc.Until {
				b := ts[rapid.IntRange(0, len(ts)-1).Draw(rt, "bidx")]
				switch rapid.IntRange(0, 3).Draw(rt, "bkind") {
				case 0:
					if b > 0 {
						b--
					}
				case 1:
					if b < maxTime {
						b++
					}
				}
				rc.B = b
			}
			switch rapid.IntRange(0, 2).Draw(rt, "rdelayclass") {
			case 0:
			case 1:
				rc.Delay = rapid.IntRange(0, 300).Draw(rt, "rdelay")
			default:
				rc.Delay = rapid.IntRange(0, 6000).Draw(rt, "rdelay")
			}
			rc.Yld = rapid.IntRange(0, 2).Draw(rt, "ryld")
			if gated && ci == 0 {
				rc.Delay, rc.Yld = 0, 0
			}
			plan[ri] = append(plan[ri], rc)
		}
	}
	last := &plan[0][len(plan[0])-1]
	last.Until, last.B = false, 0
	return plan
}
