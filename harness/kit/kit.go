// Package kit is the shared machinery of the /verif harness: per-check
// sessions that count generated cases, classify them, keep samples, match
// failures against KNOWN_FINDINGS.txt, dump shrunk failing cases as replay
// files and write evidence fragments that ./check merges.
package kit

import (
	"bufio"
	"crypto/sha256"
	"encoding/binary"
	"encoding/hex"
	"encoding/json"
	"flag"
	"fmt"
	"hash/fnv"
	"os"
	"path/filepath"
	"runtime/debug"
	"sort"
	"strconv"
	"strings"
	"sync"
	"testing"
	"time"
)

// VerifDir is /verif unless overridden (tests of the harness itself).
func VerifDir() string {
	if d := os.Getenv("VERIF_DIR"); d != "" {
		return d
	}
	return "/verif"
}

// Tier returns "quick" or "thorough".
func Tier() string {
	if os.Getenv("VERIF_TIER") == "thorough" {
		return "thorough"
	}
	return "quick"
}

// Thorough reports whether the thorough tier is running.
func Thorough() bool { return Tier() == "thorough" }

// Scale picks a count by tier. VERIF_SCALE (float) multiplies it (used by the
// sensitivity runs to shorten or lengthen a search).
func Scale(quick, thorough int) int {
	n := quick
	if Thorough() {
		n = thorough
	}
	if s := os.Getenv("VERIF_SCALE"); s != "" {
		if f, err := strconv.ParseFloat(s, 64); err == nil && f > 0 {
			n = int(float64(n) * f)
			if n < 1 {
				n = 1
			}
		}
	}
	return n
}

// SetChecks sets rapid's case count for the next rapid.Check call.
func SetChecks(quick, thorough int) int {
	n := Scale(quick, thorough)
	_ = flag.Set("rapid.checks", strconv.Itoa(n))
	return n
}

// Known is one entry of KNOWN_FINDINGS.txt.
type Known struct {
	Property string
	Sig      string
	Desc     string
}

var (
	knownOnce sync.Once
	knownList []Known
)

// LoadKnown parses KNOWN_FINDINGS.txt. Lines:
//
//	finding: property=<id> sig=<signature> <free text>
//	fixed: property=<id> <commit> <free text>      (suppresses nothing)
func LoadKnown() []Known {
	knownOnce.Do(func() {
		files := []string{filepath.Join(VerifDir(), "KNOWN_FINDINGS.txt")}
		more, _ := filepath.Glob(filepath.Join(VerifDir(), "known.d", "*.txt"))
		sort.Strings(more)
		files = append(files, more...)
		var all []byte
		for _, fn := range files {
			b, err := os.ReadFile(fn)
			if err == nil {
				all = append(all, b...)
				all = append(all, '\n')
			}
		}
		sc := bufio.NewScanner(strings.NewReader(string(all)))
		sc.Buffer(make([]byte, 1<<20), 1<<20)
		for sc.Scan() {
			line := strings.TrimSpace(sc.Text())
			if !strings.HasPrefix(line, "finding:") {
				continue
			}
			rest := strings.TrimSpace(strings.TrimPrefix(line, "finding:"))
			k := Known{}
			fields := strings.Fields(rest)
			var desc []string
			for _, fl := range fields {
				switch {
				case strings.HasPrefix(fl, "property=") && k.Property == "":
					k.Property = strings.TrimPrefix(fl, "property=")
				case strings.HasPrefix(fl, "sig=") && k.Sig == "":
					k.Sig = strings.TrimPrefix(fl, "sig=")
				default:
					desc = append(desc, fl)
				}
			}
			k.Desc = strings.Join(desc, " ")
			if k.Property != "" && k.Sig != "" {
				knownList = append(knownList, k)
			}
		}
	})
	return knownList
}

// Session collects what one sub-check of one property explored.
type Session struct {
	mu          sync.Mutex
	t           testing.TB
	ID          string
	Sub         string
	Rule        string
	start       time.Time
	evals       int
	frozen      bool // set at the first failure: shrink re-executions are not counted
	nontrivial  map[uint64]struct{}
	classes     map[string]int
	samples     []json.RawMessage
	trivSample  json.RawMessage
	excluded    int
	knownHits   map[string]int
	failCase    any
	failSig     string
	failMsg     string
	violations  int
	extra       map[string]any
	assumptions []string
	exhaustive  bool
	ended       bool
	probe       bool // probe sessions ignore the known list and write nothing
}

// BeginProbe opens a session for re-running a committed reproduction: failures
// are reported to the Failer whatever the known list says, and End writes no
// evidence and no replay file.
func BeginProbe(t testing.TB, id, sub string) *Session {
	s := Begin(t, id, sub, "")
	s.probe = true
	return s
}

// Begin opens a session. Always `defer s.End()` right after.
func Begin(t testing.TB, id, sub, rule string) *Session {
	// rapid replays testdata/rapid/** first; never wanted here.
	_ = os.RemoveAll("testdata/rapid")
	_ = flag.Set("rapid.nofailfile", "true")
	return &Session{
		t: t, ID: id, Sub: sub, Rule: rule, start: time.Now(),
		nontrivial: map[uint64]struct{}{},
		classes:    map[string]int{},
		knownHits:  map[string]int{},
		extra:      map[string]any{},
	}
}

// Assume records an assumption / trusted-base line for the evidence file.
func (s *Session) Assume(a string) { s.assumptions = append(s.assumptions, a) }

// Extra attaches a measured value to the evidence fragment.
func (s *Session) Extra(k string, v any) {
	s.mu.Lock()
	s.extra[k] = v
	s.mu.Unlock()
}

// AddExtra adds to a numeric measured value.
func (s *Session) AddExtra(k string, n int) {
	s.mu.Lock()
	cur, _ := s.extra[k].(int)
	s.extra[k] = cur + n
	s.mu.Unlock()
}

// Exhaustive marks the sub-check as a complete enumeration of its space.
func (s *Session) Exhaustive() { s.exhaustive = true }

// Hash64 gives the canonical 64-bit hash of a case (its JSON form).
func Hash64(c any) uint64 {
	b, err := json.Marshal(c)
	if err != nil {
		b = []byte(fmt.Sprintf("%#v", c))
	}
	h := fnv.New64a()
	h.Write(b)
	return h.Sum64()
}

func truncJSON(c any, max int) json.RawMessage {
	b, err := json.Marshal(c)
	if err != nil {
		b, _ = json.Marshal(fmt.Sprintf("%+v", c))
	}
	if len(b) > max {
		s := string(b[:max]) + "…(truncated)"
		b, _ = json.Marshal(s)
	}
	return b
}

// Note records one executed case. nontrivial must be judged from what the
// execution actually did. classes label the case for the histogram.
func (s *Session) Note(c any, nontrivial bool, classes ...string) {
	s.mu.Lock()
	defer s.mu.Unlock()
	if s.frozen {
		return
	}
	s.evals++
	for _, cl := range classes {
		if cl != "" {
			s.classes[cl]++
		}
	}
	if nontrivial {
		s.classes["nontrivial"]++
		h := Hash64(c)
		if _, ok := s.nontrivial[h]; !ok {
			s.nontrivial[h] = struct{}{}
			if len(s.samples) < 3 {
				s.samples = append(s.samples, truncJSON(c, 1500))
			}
		}
	} else if s.trivSample == nil {
		s.trivSample = truncJSON(c, 600)
	}
}

// Excluded counts a case that was steered away from a listed known finding.
func (s *Session) Excluded(n int) {
	s.mu.Lock()
	if !s.frozen {
		s.excluded += n
	}
	s.mu.Unlock()
}

// IsKnown tells whether (property, sig) is listed in KNOWN_FINDINGS.txt.
func (s *Session) IsKnown(sig string) (Known, bool) {
	for _, k := range LoadKnown() {
		if k.Property == s.ID && k.Sig == sig {
			return k, true
		}
	}
	return Known{}, false
}

// Failer is the part of *rapid.T / *testing.T used to abort a case.
type Failer interface {
	Fatalf(format string, args ...any)
}

// Fail reports that case c violates the property. sig classifies the failure
// (by failing input class / call site). A failure whose signature is listed as
// a known finding is counted and swallowed; anything else aborts the case
// (rapid then shrinks; the last failing case seen is the shrunk one).
func (s *Session) Fail(f Failer, c any, sig, format string, args ...any) {
	msg := fmt.Sprintf(format, args...)
	s.mu.Lock()
	if _, ok := s.isKnownLocked(sig); ok {
		s.knownHits[sig]++
		s.mu.Unlock()
		return
	}
	s.frozen = true
	s.failCase, s.failSig, s.failMsg = c, sig, msg
	s.mu.Unlock()
	f.Fatalf("property %s violated [%s]: %s", s.ID, sig, msg)
}

func (s *Session) isKnownLocked(sig string) (Known, bool) {
	if s.probe {
		return Known{}, false
	}
	for _, k := range LoadKnown() {
		if k.Property == s.ID && k.Sig == sig {
			return k, true
		}
	}
	return Known{}, false
}

// KnownStillFails is called by the dedicated reproduction of a listed finding:
// it prints the KNOWN-FINDING line (the finding is listed and still
// reproduces). If the finding is not listed, the same failure is a violation.
func (s *Session) KnownStillFails(f Failer, c any, sig, what string) {
	if _, ok := s.IsKnown(sig); ok {
		s.mu.Lock()
		s.knownHits[sig]++
		s.mu.Unlock()
		fmt.Printf("KNOWN-FINDING: property=%s sig=%s %s\n", s.ID, sig, clip(what, 240))
		return
	}
	s.Fail(f, c, sig, "%s", what)
}

// Guard runs fn and converts a panic into (sig, msg). ok=false on panic.
func Guard(fn func()) (ok bool, sig, msg string) {
	ok = true
	defer func() {
		if r := recover(); r != nil {
			ok = false
			st := string(debug.Stack())
			sig = "panic:" + topRepoFrame(st)
			msg = fmt.Sprintf("panic: %v\n%s", r, trimStack(st))
		}
	}()
	fn()
	return
}

func topRepoFrame(st string) string {
	for _, l := range strings.Split(st, "\n") {
		l = strings.TrimSpace(l)
		if strings.HasPrefix(l, "github.com/sarchlab/akita/v5/") {
			l = strings.TrimPrefix(l, "github.com/sarchlab/akita/v5/")
			if i := strings.Index(l, "("); i > 0 {
				// keep receiver forms like timing.(*SerialEngine).Run
				if j := strings.LastIndex(l, "("); j > i {
					l = l[:j]
				}
			}
			return l
		}
	}
	return "unknown"
}

func trimStack(st string) string {
	lines := strings.Split(st, "\n")
	if len(lines) > 40 {
		lines = lines[:40]
	}
	return strings.Join(lines, "\n")
}

type fragment struct {
	Property    string            `json:"property_id"`
	Sub         string            `json:"sub"`
	Rule        string            `json:"rule"`
	Evaluations int               `json:"evaluations"`
	Nontrivial  int               `json:"distinct_nontrivial"`
	HashFile    string            `json:"hash_file,omitempty"`
	Classes     map[string]int    `json:"classes"`
	Samples     []json.RawMessage `json:"samples"`
	Excluded    int               `json:"excluded_known"`
	KnownHits   map[string]int    `json:"known_hits,omitempty"`
	Violations  int               `json:"violations"`
	WallS       float64           `json:"wall_s"`
	Extra       map[string]any    `json:"extra,omitempty"`
	Assumptions []string          `json:"assumptions,omitempty"`
	Exhaustive  bool              `json:"exhaustive,omitempty"`
}

// End writes the replay file (on failure) and the evidence fragment.
func (s *Session) End() {
	s.mu.Lock()
	defer s.mu.Unlock()
	if s.ended || s.probe {
		return
	}
	s.ended = true

	if s.failCase != nil || s.failSig != "" {
		s.violations++
		path := s.writeReplay()
		fmt.Printf("VIOLATION property=%s replay=%s\n", s.ID, path)
		fmt.Printf("VIOLATION-DETAIL property=%s sub=%s sig=%s %s\n", s.ID, s.Sub, s.failSig, firstLine(s.failMsg))
	} else if s.t.Failed() {
		// The test failed without going through Fail (e.g. rapid "only
		// generated N valid tests", or a harness assertion). Let the driver
		// see it as inconclusive: no VIOLATION line.
		fmt.Printf("VERIF-HARNESS-FAILURE property=%s sub=%s\n", s.ID, s.Sub)
	}

	out := os.Getenv("VERIF_EVIDENCE_OUT")
	if out == "" {
		return
	}
	_ = os.MkdirAll(out, 0o755)
	samples := s.samples
	if len(samples) == 0 && s.trivSample != nil {
		samples = append(samples, s.trivSample)
	}
	base := fmt.Sprintf("%s.%s.%d", s.ID, sanitize(s.Sub), os.Getpid())
	hf := filepath.Join(out, base+".hashes")
	hb := make([]byte, 0, 8*len(s.nontrivial))
	keys := make([]uint64, 0, len(s.nontrivial))
	for h := range s.nontrivial {
		keys = append(keys, h)
	}
	sort.Slice(keys, func(i, j int) bool { return keys[i] < keys[j] })
	for _, h := range keys {
		hb = binary.LittleEndian.AppendUint64(hb, h)
	}
	_ = os.WriteFile(hf, hb, 0o644)
	fr := fragment{
		Property: s.ID, Sub: s.Sub, Rule: s.Rule, Evaluations: s.evals,
		Nontrivial: len(s.nontrivial), HashFile: hf, Classes: s.classes,
		Samples: samples, Excluded: s.excluded, KnownHits: s.knownHits,
		Violations: s.violations, WallS: time.Since(s.start).Seconds(),
		Extra: s.extra, Assumptions: s.assumptions, Exhaustive: s.exhaustive,
	}
	b, _ := json.MarshalIndent(fr, "", " ")
	_ = os.WriteFile(filepath.Join(out, base+".json"), b, 0o644)
}

func firstLine(s string) string {
	if i := strings.IndexByte(s, '\n'); i >= 0 {
		s = s[:i]
	}
	if len(s) > 400 {
		s = s[:400]
	}
	return s
}

func sanitize(s string) string {
	return strings.Map(func(r rune) rune {
		if r >= 'a' && r <= 'z' || r >= 'A' && r <= 'Z' || r >= '0' && r <= '9' || r == '-' || r == '_' {
			return r
		}
		return '_'
	}, s)
}

// Replay is the library-independent form of a failing case.
type Replay struct {
	Property string          `json:"property_id"`
	Sub      string          `json:"sub"`
	Sig      string          `json:"sig"`
	Message  string          `json:"message"`
	Case     json.RawMessage `json:"case"`
}

func (s *Session) writeReplay() string {
	cb, err := json.Marshal(s.failCase)
	if err != nil {
		cb, _ = json.Marshal(fmt.Sprintf("%+v", s.failCase))
	}
	r := Replay{Property: s.ID, Sub: s.Sub, Sig: s.failSig, Message: s.failMsg, Case: cb}
	b, _ := json.MarshalIndent(r, "", " ")
	sum := sha256.Sum256(b)
	dir := os.Getenv("VERIF_REPLAY_DIR")
	if dir == "" {
		dir = filepath.Join(VerifDir(), "replays", s.ID)
	}
	_ = os.MkdirAll(dir, 0o755)
	path := filepath.Join(dir, sanitize(s.Sub)+"-"+hex.EncodeToString(sum[:6])+".json")
	_ = os.WriteFile(path, b, 0o644)
	return path
}

// LoadReplay reads the replay file named by VERIF_REPLAY when it belongs to
// (id, sub) and decodes its case into c. ok=false when there is nothing to
// replay for this sub-check.
func LoadReplay(id, sub string, c any) (ok bool, err error) {
	p := os.Getenv("VERIF_REPLAY")
	if p == "" {
		return false, nil
	}
	b, err := os.ReadFile(p)
	if err != nil {
		return false, err
	}
	var r Replay
	if err := json.Unmarshal(b, &r); err != nil {
		return false, err
	}
	if r.Property != id || r.Sub != sub {
		return false, nil
	}
	return true, json.Unmarshal(r.Case, c)
}

// ReplayMode is true when the driver asked for a replay only.
func ReplayMode() bool { return os.Getenv("VERIF_REPLAY") != "" }

// KnownReplays lists the committed reproductions of listed findings for a
// property (files /verif/known/<ID>/*.json in replay format).
func KnownReplays(id string) []string {
	m, _ := filepath.Glob(filepath.Join(VerifDir(), "known", id, "*.json"))
	sort.Strings(m)
	return m
}

// LoadReplayFile decodes one replay file's case into c and returns its record.
func LoadReplayFile(path string, c any) (Replay, error) {
	var r Replay
	b, err := os.ReadFile(path)
	if err != nil {
		return r, err
	}
	if err := json.Unmarshal(b, &r); err != nil {
		return r, err
	}
	return r, json.Unmarshal(r.Case, c)
}

// KnownRecorder is a Failer that records instead of aborting; used by the
// dedicated reproductions of listed findings.
type KnownRecorder struct {
	Failed bool
	Msg    string
}

func (k *KnownRecorder) Fatalf(format string, args ...any) {
	k.Failed = true
	k.Msg = fmt.Sprintf(format, args...)
}

func clip(s string, n int) string {
	if len(s) > n {
		return s[:n] + "…"
	}
	return s
}
