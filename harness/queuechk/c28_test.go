package queuechk

import (
	"bytes"
	"encoding/json"
	"fmt"
	"testing"

	"github.com/sarchlab/akita/v5/mem/vm/lruset"
	"pgregory.net/rapid"

	"verif/harness/kit"
)

// c28Op is one step of an LRU-set history. K:
//
//	lookup key | update way old new | remove key | evict | visit way | json src | jsonstruct src
//
// Keys are indices into c28Keys. Src selects which live copy is serialised.
type c28Op struct {
	K   string `json:"k"`
	Way int    `json:"way,omitempty"`
	Key int    `json:"key,omitempty"`
	Old int    `json:"old,omitempty"`
	Src int    `json:"src,omitempty"`
}

type c28Case struct {
	Ways int     `json:"ways"`
	Ops  []c28Op `json:"ops"`
}

// c28Keys is the key pool: the canonical KeyString form the TLB / mmuCache use
// (including the all-zero key of a never-filled block and a key whose decimal
// PID prefix looks like another key's), the empty string the repository's own
// test uses, and one non-ASCII key. All valid UTF-8 (JSON object keys).
var c28Keys = []string{
	lruset.KeyString(0, 0),
	lruset.KeyString(1, 0x1000),
	lruset.KeyString(1, 0x2000),
	lruset.KeyString(2, 0x1000),
	lruset.KeyString(11, 0x1000),
	lruset.KeyString(12, 0xffffffffffffffff),
	"",
	"k\"é",
}

// c28Model is the reference: key -> way bindings and the recency list
// (index 0 = least recently visited way still in the list).
type c28Model struct {
	keys map[string]int
	rec  []int
}

func newC28Model(ways int) *c28Model {
	m := &c28Model{keys: map[string]int{}}
	// documented: "All ways start in the visit list so the first eviction returns way 0"
	for w := 0; w < ways; w++ {
		m.rec = append(m.rec, w)
	}
	return m
}

func (m *c28Model) lookup(k string) (int, bool) { w, ok := m.keys[k]; return w, ok }

// documented: "UpdateKey removes the old key mapping and installs the new one pointing to wayID."
func (m *c28Model) update(w int, old, new string) { delete(m.keys, old); m.keys[new] = w }
func (m *c28Model) remove(k string)               { delete(m.keys, k) }
func (m *c28Model) evict() (int, bool) {
	if len(m.rec) == 0 {
		return 0, false
	}
	w := m.rec[0]
	m.rec = append([]int{}, m.rec[1:]...)
	return w, true
}
func (m *c28Model) inList(w int) bool {
	for _, x := range m.rec {
		if x == w {
			return true
		}
	}
	return false
}
func (m *c28Model) visit(w int) {
	out := make([]int, 0, len(m.rec)+1)
	for _, x := range m.rec {
		if x != w {
			out = append(out, x)
		}
	}
	m.rec = append(out, w)
}

// keyOf returns the first pool key currently bound to way w (-1 if none).
func (m *c28Model) keyOf(w int) int {
	for i, k := range c28Keys {
		if bw, ok := m.keys[k]; ok && bw == w {
			return i
		}
	}
	return -1
}

// absentKey returns a pool key that is currently unbound (-1 if all are bound).
func (m *c28Model) absentKey() int {
	for i, k := range c28Keys {
		if _, ok := m.keys[k]; !ok {
			return i
		}
	}
	return -1
}

func (m *c28Model) apply(op c28Op) {
	switch op.K {
	case "update":
		m.update(op.Way, c28Keys[op.Old], c28Keys[op.Key])
	case "remove":
		m.remove(c28Keys[op.Key])
	case "evict":
		m.evict()
	case "visit":
		m.visit(op.Way)
	}
}

// genC28 draws a history. A shadow model steers part of the history into the
// callers' discipline (TLB fill = Evict, UpdateKey(evicted way, the key that way
// currently holds, new key), Visit(way); hit = Lookup, Visit(found way)); the rest
// is free-form. The produced ops are concrete data.
func genC28(rt *rapid.T) c28Case {
	c := c28Case{Ways: rapid.SampledFrom([]int{0, 1, 2, 2, 3, 3, 4, 4, 5, 6, 7, 8}).Draw(rt, "ways")}
	sh := newC28Model(c.Ways)
	nk := len(c28Keys)
	push := func(op c28Op) { c.Ops = append(c.Ops, op); sh.apply(op) }
	oldFor := func(w int) int {
		if k := sh.keyOf(w); k >= 0 {
			return k
		}
		if k := sh.absentKey(); k >= 0 {
			return k
		}
		return 0
	}
	// pickKey prefers (2 of 3) a key that is currently bound, so hits and
	// effective removes are common.
	pickKey := func() int {
		var bound []int
		for i, k := range c28Keys {
			if _, ok := sh.keys[k]; ok {
				bound = append(bound, i)
			}
		}
		if len(bound) > 0 && rapid.IntRange(0, 2).Draw(rt, "preferBound") != 0 {
			return rapid.SampledFrom(bound).Draw(rt, "boundKey")
		}
		return rapid.IntRange(0, nk-1).Draw(rt, "key")
	}
	kinds := []string{"fill", "fill", "fill", "hit", "hit", "lookup", "update", "update", "remove", "evict", "evict", "visit", "visit", "json", "jsonstruct"}
	n := rapid.IntRange(0, 40).Draw(rt, "n")
	for len(c.Ops) < n {
		k := rapid.SampledFrom(kinds).Draw(rt, "k")
		switch k {
		case "fill":
			w, ok := sh.evict() // peek: push() re-applies the evict on the shadow
			if ok {
				sh.rec = append([]int{w}, sh.rec...)
			}
			push(c28Op{K: "evict"})
			if !ok {
				continue
			}
			push(c28Op{K: "update", Way: w, Old: oldFor(w), Key: rapid.IntRange(0, nk-1).Draw(rt, "new")})
			if rapid.IntRange(0, 9).Draw(rt, "skipVisit") != 0 {
				push(c28Op{K: "visit", Way: w})
			}
		case "hit":
			key := pickKey()
			push(c28Op{K: "lookup", Key: key})
			if w, ok := sh.lookup(c28Keys[key]); ok && w < c.Ways {
				push(c28Op{K: "visit", Way: w})
			}
		case "lookup", "remove":
			push(c28Op{K: k, Key: pickKey()})
		case "update":
			if c.Ways == 0 {
				continue // no valid way id exists
			}
			w := rapid.IntRange(0, c.Ways-1).Draw(rt, "way")
			op := c28Op{K: "update", Way: w, Key: rapid.IntRange(0, nk-1).Draw(rt, "new")}
			if rapid.Bool().Draw(rt, "disciplined") {
				op.Old = oldFor(w)
			} else {
				op.Old = rapid.IntRange(0, nk-1).Draw(rt, "old")
			}
			push(op)
		case "evict":
			push(c28Op{K: "evict"})
		case "visit":
			if c.Ways == 0 {
				continue
			}
			push(c28Op{K: "visit", Way: rapid.IntRange(0, c.Ways-1).Draw(rt, "way")})
		case "json", "jsonstruct":
			push(c28Op{K: k, Src: rapid.IntRange(0, 3).Draw(rt, "src")})
		}
	}
	return c
}

type c28Wrap struct {
	Blocks []int      `json:"blocks"`
	LRU    lruset.Set `json:"lru"`
	Tail   string     `json:"tail"`
}

func TestC28LRUSet(t *testing.T) {
	s := kit.Begin(t, "C28", "lruset",
		"history of <=~42 ops on lruset.NewSet(ways), ways in {0..8}; keys from a pool of 8 (KeyString forms incl. the all-zero key, \"\" and a non-ASCII key; valid UTF-8 only); way ids always in [0,ways) "+
			"(Visit/UpdateKey index per-way state, the callers only pass ids of existing blocks; for 0 ways only Lookup/Remove/Evict/JSON are issued). Ops: Lookup, UpdateKey, Remove, Evict, Visit, JSON round trip of the bare Set or of a struct "+
			"holding the Set by value (source = any live copy; up to 3 restored copies stay alive and receive every later op). About half the ops come in the callers' shapes (fill = Evict,UpdateKey(evicted way, key it holds, new),Visit; hit = Lookup,Visit), the rest free-form "+
			"(including UpdateKey with an old key that belongs to another way or to nobody). Reference semantics: key->way map with the documented UpdateKey = delete(old) then bind(new) (a way may therefore keep other keys: the statement only fixes 'way last bound to a key'), Remove = delete; "+
			"recency list initially 0..ways-1 (documented), Evict pops its head or reports !ok when empty, Visit moves the way to the MRU end and re-inserts a way that was evicted (callers always Visit after Evict). "+
			"Oracle: after every op each live copy returns exactly the model's answer; at each JSON op and at the end all live copies marshal to identical bytes; at the end every pool key is looked up and the recency list is drained by Evict on every copy and must equal the model's order. "+
			"Non-trivial: >=1 Visit of an evicted way AND >=1 UpdateKey on a way that had a live key AND a JSON round trip followed by >=1 state-changing op")
	defer s.End()
	s.Assume("trusts encoding/json; out-of-range way ids and invalid-UTF-8 keys are outside the input domain")

	run := func(f kit.Failer, c c28Case) {
		m := newC28Model(c.Ways)
		var copies []*lruset.Set
		ok, sig, msg := kit.Guard(func() { s0 := lruset.NewSet(c.Ways); copies = append(copies, &s0) })
		if !ok {
			s.Fail(f, c, sig, "NewSet(%d) panicked: %s", c.Ways, msg)
			return
		}
		who := func(j int) string {
			if j == 0 {
				return "original"
			}
			return fmt.Sprintf("restored copy %d", j)
		}
		sigFor := func(j int, base string) string {
			if j == 0 {
				return base
			}
			return "json-copy:" + base
		}
		marshalAllEqual := func(i int) ([]byte, bool) {
			var first []byte
			for j, cp := range copies {
				b, err := json.Marshal(cp)
				if err != nil {
					s.Fail(f, c, "json-error", "op %d marshal of %s: %v", i, who(j), err)
					return nil, false
				}
				if j == 0 {
					first = b
				} else if !bytes.Equal(first, b) {
					s.Fail(f, c, "json-remarshal-differs", "op %d: %s marshals to %s but the original to %s", i, who(j), b, first)
					return nil, false
				}
			}
			return first, true
		}

		var visitEvicted, rebindLive, jsonN, opsAfterJSON, evictN, evictEmpty, undisciplined, lookupHit, removeHit int

		for i, op := range c.Ops {
			switch op.K {
			case "lookup":
				ww, wok := m.lookup(c28Keys[op.Key])
				if wok {
					lookupHit++
				}
				for j, cp := range copies {
					var gw int
					var gok bool
					if ok, sig, msg := kit.Guard(func() { gw, gok = cp.Lookup(c28Keys[op.Key]) }); !ok {
						s.Fail(f, c, sig, "op %d Lookup panicked on %s: %s", i, who(j), msg)
						return
					}
					if gok != wok || (wok && gw != ww) {
						s.Fail(f, c, sigFor(j, "lookup"), "op %d Lookup(%q) on %s = (%d,%v) want (%d,%v)", i, c28Keys[op.Key], who(j), gw, gok, ww, wok)
						return
					}
				}
			case "update":
				if m.keyOf(op.Way) >= 0 {
					rebindLive++
				}
				if bw, bound := m.lookup(c28Keys[op.Old]); bound && bw != op.Way {
					undisciplined++
				}
				m.update(op.Way, c28Keys[op.Old], c28Keys[op.Key])
				for j, cp := range copies {
					if ok, sig, msg := kit.Guard(func() { cp.UpdateKey(op.Way, c28Keys[op.Old], c28Keys[op.Key]) }); !ok {
						s.Fail(f, c, sig, "op %d UpdateKey panicked on %s: %s", i, who(j), msg)
						return
					}
				}
			case "remove":
				if _, bound := m.lookup(c28Keys[op.Key]); bound {
					removeHit++
				}
				m.remove(c28Keys[op.Key])
				for j, cp := range copies {
					if ok, sig, msg := kit.Guard(func() { cp.Remove(c28Keys[op.Key]) }); !ok {
						s.Fail(f, c, sig, "op %d Remove panicked on %s: %s", i, who(j), msg)
						return
					}
				}
			case "evict":
				ww, wok := m.evict()
				if wok {
					evictN++
				} else {
					evictEmpty++
				}
				for j, cp := range copies {
					var gw int
					var gok bool
					if ok, sig, msg := kit.Guard(func() { gw, gok = cp.Evict() }); !ok {
						s.Fail(f, c, sig, "op %d Evict panicked on %s: %s", i, who(j), msg)
						return
					}
					if gok != wok || (wok && gw != ww) {
						s.Fail(f, c, sigFor(j, "evict-order"), "op %d Evict on %s = (%d,%v) want (%d,%v); model recency after: %v", i, who(j), gw, gok, ww, wok, m.rec)
						return
					}
				}
			case "visit":
				if !m.inList(op.Way) {
					visitEvicted++
				}
				m.visit(op.Way)
				for j, cp := range copies {
					if ok, sig, msg := kit.Guard(func() { cp.Visit(op.Way) }); !ok {
						s.Fail(f, c, sigFor(j, sig), "op %d Visit(%d) panicked on %s: %s", i, op.Way, who(j), msg)
						return
					}
				}
			case "json", "jsonstruct":
				if _, ok := marshalAllEqual(i); !ok {
					return
				}
				src := copies[op.Src%len(copies)]
				var fresh *lruset.Set
				var data []byte
				var err error
				if op.K == "json" {
					data, err = json.Marshal(src)
					if err == nil {
						var ns lruset.Set
						err = json.Unmarshal(data, &ns)
						fresh = &ns
					}
				} else {
					// Set held by value (setState.LRU in the TLB / mmuCache state)
					data, err = json.Marshal(c28Wrap{Blocks: []int{1, 2}, LRU: *src, Tail: "t"})
					if err == nil {
						var nw c28Wrap
						err = json.Unmarshal(data, &nw)
						fresh = &nw.LRU
					}
				}
				if err != nil {
					s.Fail(f, c, "json-error", "op %d %s: %v (data %s)", i, op.K, err, data)
					return
				}
				copies = append(copies, fresh)
				if len(copies) > 4 {
					copies = append(copies[:1], copies[2:]...)
				}
				if _, ok := marshalAllEqual(i); !ok {
					return
				}
				jsonN++
			}
			if jsonN > 0 && (op.K == "update" || op.K == "remove" || op.K == "evict" || op.K == "visit") {
				opsAfterJSON++
			}
		}

		// final probe: bytes, bindings, complete recency order
		end := len(c.Ops)
		if _, ok := marshalAllEqual(end); !ok {
			return
		}
		for ki, k := range c28Keys {
			ww, wok := m.lookup(k)
			for j, cp := range copies {
				gw, gok := cp.Lookup(k)
				if gok != wok || (wok && gw != ww) {
					s.Fail(f, c, sigFor(j, "lookup"), "final Lookup(key %d %q) on %s = (%d,%v) want (%d,%v)", ki, k, who(j), gw, gok, ww, wok)
					return
				}
			}
		}
		remaining := len(m.rec)
		for d := 0; d <= remaining; d++ {
			ww, wok := m.evict()
			for j, cp := range copies {
				var gw int
				var gok bool
				if ok, sig, msg := kit.Guard(func() { gw, gok = cp.Evict() }); !ok {
					s.Fail(f, c, sig, "final drain Evict panicked on %s: %s", who(j), msg)
					return
				}
				if gok != wok || (wok && gw != ww) {
					s.Fail(f, c, sigFor(j, "evict-order"), "final drain step %d on %s: Evict = (%d,%v) want (%d,%v)", d, who(j), gw, gok, ww, wok)
					return
				}
			}
		}

		classes := []string{fmt.Sprintf("ways=%d", c.Ways)}
		add := func(n int, cl string) {
			if n > 0 {
				classes = append(classes, cl)
			}
		}
		add(visitEvicted, "visit-evicted-way")
		add(rebindLive, "rebind-way-with-live-key")
		add(undisciplined, "oldkey-of-other-way")
		add(jsonN, "json")
		add(opsAfterJSON, "mutation-after-json")
		add(evictN, "evict")
		add(evictEmpty, "evict-on-empty")
		add(lookupHit, "lookup-hit")
		add(removeHit, "remove-hit")
		if remaining > 1 {
			classes = append(classes, "final-drain>1")
		}
		s.Note(c, visitEvicted > 0 && rebindLive > 0 && opsAfterJSON > 0, classes...)
	}

	var c c28Case
	if ok, err := kit.LoadReplay("C28", "lruset", &c); ok {
		if err != nil {
			t.Fatal(err)
		}
		run(t, c)
		return
	} else if kit.ReplayMode() {
		t.Skip()
	}

	kit.SetChecks(30_000, 150_000)
	rapid.Check(t, func(rt *rapid.T) { c := genC28(rt); run(rt, c) })
}
