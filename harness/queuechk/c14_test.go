package queuechk

import (
	"encoding/json"
	"fmt"
	"io"
	"log"
	"reflect"
	"testing"

	"github.com/sarchlab/akita/v5/queueing"
	"pgregory.net/rapid"

	"verif/harness/kit"
)

func init() {
	// queueing.Buffer reports overflow with log.Panic, which also prints; the
	// documented panic is expected thousands of times per run.
	log.SetOutput(io.Discard)
}

// c14Op is one step of a buffer history. K:
//
//	push v | pop | peek | upd v | clear | elems | snap | restore vs | json | jsonstruct | save | load | query
//
// json/jsonstruct: marshal the live buffer and unmarshal into a target buffer
// that is a zero Buffer when Stale is empty, else a live buffer with another
// name, capacity len(Stale) and the Stale elements in it. save keeps the JSON
// form of the live buffer; load unmarshals the kept form into the live buffer
// (a checkpoint loaded into an already-built, possibly non-empty component).
type c14Op struct {
	K     string `json:"k"`
	V     int    `json:"v,omitempty"`
	Vs    []int  `json:"vs,omitempty"`
	Stale []int  `json:"stale,omitempty"`
	Swap  bool   `json:"swap,omitempty"` // json ops: continue the history on the restored copy
}

type c14Case struct {
	Typ  string  `json:"typ"` // element type: "int", "string" or "rec"
	Cap  int     `json:"cap"`
	Name string  `json:"name"`
	Ops  []c14Op `json:"ops"`
}

// c14Str maps a drawn value to a string element; 0 is the zero value.
func c14Str(v int) string {
	switch v {
	case 0:
		return ""
	case 1:
		return "\"q\\"
	case 2:
		return "é✓<&>"
	case 3:
		return "\x00\n "
	default:
		return fmt.Sprintf("s%d", v)
	}
}

// c14Rec is the third element type: a plain-data struct (as component states
// hold) with an omitempty scalar, an omitempty map and a nested slice.
type c14Rec struct {
	ID   int            `json:"id"`
	Opt  int            `json:"opt,omitempty"`
	Tags map[string]int `json:"tags,omitempty"`
	Path []int          `json:"path"`
}

// c14MkRec builds a fresh record (fresh map and slice) for a drawn value; 0 is
// the zero value. Maps are nil or non-empty (an empty non-nil map does not
// survive its own omitempty encoding, which is not the buffer's business).
func c14MkRec(v int) c14Rec {
	switch v {
	case 0:
		return c14Rec{}
	case 1:
		return c14Rec{ID: 1}
	case 2:
		return c14Rec{ID: 2, Opt: 5}
	case 3:
		return c14Rec{ID: 3, Tags: map[string]int{"a": 1}}
	case 4:
		return c14Rec{ID: 4, Opt: 7, Tags: map[string]int{"b": 2, "c": 3}, Path: []int{1, 2, 3}}
	case 5:
		return c14Rec{ID: 5, Path: []int{9}}
	case 6:
		return c14Rec{Opt: 1}
	case 7:
		return c14Rec{ID: 7, Tags: map[string]int{"a": 9}, Path: []int{4, 5}}
	case 8:
		return c14Rec{ID: 8, Path: []int{1}}
	default:
		return c14Rec{ID: v, Opt: 9, Tags: map[string]int{"z": 0}}
	}
}

func c14EqRec(a, b c14Rec) bool {
	if a.ID != b.ID || a.Opt != b.Opt || len(a.Tags) != len(b.Tags) || len(a.Path) != len(b.Path) {
		return false
	}
	for k, v := range a.Tags {
		if w, ok := b.Tags[k]; !ok || w != v {
			return false
		}
	}
	for i := range a.Path {
		if a.Path[i] != b.Path[i] {
			return false
		}
	}
	return true
}

func genC14(rt *rapid.T) c14Case {
	c := c14Case{
		Typ:  rapid.SampledFrom([]string{"rec", "int", "string", "rec"}).Draw(rt, "typ"),
		Cap:  rapid.SampledFrom([]int{0, 1, 1, 2, 2, 3, 3, 4, 5, 6}).Draw(rt, "cap"),
		Name: rapid.SampledFrom([]string{"", "B", "Comp.Port.Incoming", "名\"x"}).Draw(rt, "name"),
	}
	kinds := []string{
		"push", "push", "push", "push", "push", "push",
		"pop", "pop", "pop", "pop",
		"peek", "upd", "upd", "upd", "clear", "elems", "snap", "restore",
		"json", "jsonstruct", "save", "load", "load", "query",
	}
	vals := func(rt *rapid.T, n int, label string) []int {
		out := make([]int, n)
		for j := range out {
			out[j] = rapid.IntRange(0, 9).Draw(rt, label)
		}
		return out
	}
	opGen := rapid.Custom(func(rt *rapid.T) c14Op {
		op := c14Op{K: rapid.SampledFrom(kinds).Draw(rt, "k")}
		switch op.K {
		case "push", "upd":
			op.V = rapid.IntRange(0, 9).Draw(rt, "v")
		case "restore":
			// mostly within capacity, sometimes one or two beyond (documented refusal)
			m := rapid.IntRange(0, c.Cap+2).Draw(rt, "len")
			if m > c.Cap && rapid.IntRange(0, 2).Draw(rt, "keepOver") != 0 {
				m = rapid.IntRange(0, c.Cap).Draw(rt, "len2")
			}
			op.Vs = vals(rt, m, "rv")
		case "json", "jsonstruct":
			op.Swap = rapid.Bool().Draw(rt, "swap")
			if rapid.Bool().Draw(rt, "liveTarget") {
				op.Stale = vals(rt, rapid.IntRange(1, 4).Draw(rt, "nstale"), "sv")
			}
		}
		return op
	})
	minOps := rapid.SampledFrom([]int{0, 6, 15, 25}).Draw(rt, "minops")
	c.Ops = rapid.SliceOfN(opGen, minOps, 40).Draw(rt, "ops")
	return c
}

type c14Wrap[T any] struct {
	Pre  int                `json:"pre"`
	B    queueing.Buffer[T] `json:"b"`
	Post string             `json:"post"`
}

// c14Restore calls Restore through reflection so that both the current
// behaviour (panic on overflow) and an error-returning variant are understood.
// refused=true when the call panicked or returned a non-nil error.
func c14Restore[T any](b *queueing.Buffer[T], vs []T) (refused bool, how string) {
	ok, _, msg := kit.Guard(func() {
		out := reflect.ValueOf(b).MethodByName("Restore").Call([]reflect.Value{reflect.ValueOf(vs)})
		for _, o := range out {
			if e, isErr := o.Interface().(error); isErr && e != nil {
				refused, how = true, "error: "+e.Error()
			}
		}
	})
	if !ok {
		return true, msg
	}
	return refused, how
}

// runC14 interprets one history. The model holds the drawn values (ints); mk
// builds a fresh element for a value, so the model never shares maps or slices
// with the buffer under test.
func runC14[T any](s *kit.Session, f kit.Failer, c c14Case, mk func(int) T, eq func(a, b T) bool, sentinel T) {
	var zero T
	buf := queueing.NewBuffer[T](c.Name, c.Cap)
	b := &buf
	model := []int{}

	var (
		pops, wrapped, refusedPush, jsonN, jsonStructN, restoreN, restoreOver int
		clearNonEmpty, updNonEmpty, popEmpty, reachedFull                     int
		liveTarget, liveTargetNonEmptyData, loads, loadsIntoNonEmpty          int
		snapHeldOverUpd, snaps                                                int
	)

	same := func(got []T, want []int) bool {
		if len(got) != len(want) {
			return false
		}
		for i := range got {
			if !eq(got[i], mk(want[i])) {
				return false
			}
		}
		return true
	}
	show := func(want []int) []T {
		out := make([]T, len(want))
		for i, v := range want {
			out[i] = mk(v)
		}
		return out
	}

	// agree compares every observer of a buffer with (name, capacity, contents).
	agree := func(i int, op c14Op, bb *queueing.Buffer[T], who string) bool {
		want0 := zero
		if len(model) > 0 {
			want0 = mk(model[0])
		}
		switch {
		case bb.Name() != c.Name:
			s.Fail(f, c, "name", "op %d %+v: %s Name()=%q want %q", i, op, who, bb.Name(), c.Name)
		case bb.Capacity() != c.Cap:
			s.Fail(f, c, "capacity", "op %d %+v: %s Capacity()=%d want %d", i, op, who, bb.Capacity(), c.Cap)
		case bb.Size() != len(model):
			s.Fail(f, c, "size", "op %d %+v: %s Size()=%d want %d (model %v)", i, op, who, bb.Size(), len(model), model)
		case bb.Size() > bb.Capacity():
			s.Fail(f, c, "over-capacity", "op %d %+v: %s Size()=%d > Capacity()=%d", i, op, who, bb.Size(), bb.Capacity())
		case bb.CanPush() != (len(model) < c.Cap):
			s.Fail(f, c, "canpush", "op %d %+v: %s CanPush()=%v with %d/%d elements", i, op, who, bb.CanPush(), len(model), c.Cap)
		case !eq(bb.Peek(), want0):
			s.Fail(f, c, "peek", "op %d %+v: %s Peek()=%+v want %+v (model %v)", i, op, who, bb.Peek(), want0, model)
		case !same(bb.Elements(), model):
			s.Fail(f, c, "contents", "op %d %+v: %s Elements()=%+v want %+v", i, op, who, bb.Elements(), show(model))
		default:
			return true
		}
		return false
	}

	if !agree(-1, c14Op{K: "new"}, b, "new buffer") {
		return
	}

	// a snapshot taken with Elements() and kept: "returns a copy" => later
	// operations on the buffer must not show through it
	var held []T
	var heldWant []int
	heldAt := -1
	// the saved JSON form (checkpoint) and the contents it describes
	var saved []byte
	var savedModel []int

	for i, op := range c.Ops {
		switch op.K {
		case "push":
			ok, sig, msg := kit.Guard(func() { b.PushTyped(mk(op.V)) })
			if len(model) < c.Cap {
				if !ok {
					s.Fail(f, c, sig, "op %d push into %d/%d buffer panicked: %s", i, len(model), c.Cap, msg)
					return
				}
				if pops > 0 && len(model) > 0 {
					wrapped++
				}
				model = append(model[:len(model):len(model)], op.V)
			} else {
				// documented: "It panics if the buffer is already at capacity."
				if ok {
					s.Fail(f, c, "push-beyond-capacity-accepted", "op %d push into full %d/%d buffer did not panic", i, len(model), c.Cap)
					return
				}
				refusedPush++
			}
		case "pop":
			var got T
			ok, sig, msg := kit.Guard(func() { got = b.Pop() })
			if !ok {
				s.Fail(f, c, sig, "op %d Pop panicked: %s", i, msg)
				return
			}
			want := zero
			if len(model) > 0 {
				want = mk(model[0])
				model = model[1:]
				pops++
			} else {
				popEmpty++
			}
			if !eq(got, want) {
				s.Fail(f, c, "pop-order", "op %d Pop()=%+v want %+v (rest of model %v)", i, got, want, model)
				return
			}
		case "peek":
			// Peek is compared in agree(); peeking twice must not consume.
			_ = b.Peek()
		case "upd":
			ok, sig, msg := kit.Guard(func() { b.UpdateFront(mk(op.V)) })
			if !ok {
				s.Fail(f, c, sig, "op %d UpdateFront panicked: %s", i, msg)
				return
			}
			if len(model) > 0 {
				// copy so that earlier snapshots of the model are not touched
				model = append([]int{op.V}, model[1:]...)
				updNonEmpty++
				if held != nil && len(heldWant) > 0 {
					snapHeldOverUpd++
				}
			}
		case "clear":
			if len(model) > 0 {
				clearNonEmpty++
			}
			b.Clear()
			model = []int{}
		case "elems":
			e := b.Elements()
			if !same(e, model) {
				s.Fail(f, c, "contents", "op %d Elements()=%+v want %+v", i, e, show(model))
				return
			}
			// documented: "mutating the returned slice has no effect on the buffer"
			for j := range e {
				e[j] = sentinel
			}
			e = append(e, sentinel, sentinel)
			_ = e
		case "snap":
			held = b.Elements()
			heldWant = append([]int{}, model...)
			heldAt = i
			snaps++
		case "restore":
			vs := show(op.Vs)
			refused, how := c14Restore(b, vs)
			if len(vs) > c.Cap {
				// documented: "panics if the elements exceed the buffer's capacity"
				if !refused {
					s.Fail(f, c, "restore-beyond-capacity-accepted", "op %d Restore of %d elements into capacity %d was accepted", i, len(vs), c.Cap)
					return
				}
				restoreOver++
			} else {
				if refused {
					s.Fail(f, c, "restore-refused", "op %d Restore of %d elements into capacity %d refused: %s", i, len(vs), c.Cap, how)
					return
				}
				model = append([]int{}, op.Vs...)
				restoreN++
			}
		case "json", "jsonstruct":
			// target of the restore: a zero Buffer, or a live one with another
			// name/capacity that already holds elements
			target := func() queueing.Buffer[T] {
				if len(op.Stale) == 0 {
					var z queueing.Buffer[T]
					return z
				}
				tb := queueing.NewBuffer[T]("stale."+c.Name, len(op.Stale))
				for _, v := range op.Stale {
					tb.PushTyped(mk(v))
				}
				liveTarget++
				if len(model) > 0 {
					liveTargetNonEmptyData++
				}
				return tb
			}
			var fresh *queueing.Buffer[T]
			var data []byte
			var err error
			if op.K == "json" {
				data, err = json.Marshal(b)
				if err == nil {
					nb := target()
					err = json.Unmarshal(data, &nb)
					fresh = &nb
				}
				jsonN++
			} else {
				// a Buffer held by value inside a component state struct
				w := c14Wrap[T]{Pre: 7, B: *b, Post: "x"}
				data, err = json.Marshal(w)
				if err == nil {
					nw := c14Wrap[T]{Pre: 1, B: target(), Post: "stale"}
					err = json.Unmarshal(data, &nw)
					fresh = &nw.B
					if err == nil && (nw.Pre != 7 || nw.Post != "x") {
						s.Fail(f, c, "json-struct-neighbours", "op %d neighbours of the embedded buffer changed: %+v from %s", i, nw, data)
						return
					}
				}
				jsonStructN++
			}
			if err != nil {
				s.Fail(f, c, "json-error", "op %d %s: %v (data %s)", i, op.K, err, data)
				return
			}
			who := "restored copy from " + string(data)
			if len(op.Stale) > 0 {
				who = fmt.Sprintf("copy restored into a live buffer holding %+v from %s", show(op.Stale), data)
			}
			if !agree(i, op, fresh, who) {
				return
			}
			if op.Swap {
				b = fresh
			}
		case "save":
			var err error
			if saved, err = json.Marshal(b); err != nil {
				s.Fail(f, c, "json-error", "op %d save: %v", i, err)
				return
			}
			savedModel = append([]int{}, model...)
		case "load":
			if saved == nil {
				break
			}
			before := show(model)
			if err := json.Unmarshal(saved, b); err != nil {
				s.Fail(f, c, "json-error", "op %d load of %s: %v", i, saved, err)
				return
			}
			loads++
			if len(model) > 0 {
				loadsIntoNonEmpty++
			}
			model = append([]int{}, savedModel...)
			if !agree(i, op, b, fmt.Sprintf("live buffer (held %+v) after loading %s", before, saved)) {
				return
			}
		case "query":
			// all observers are compared below
		}
		if c.Cap > 0 && len(model) == c.Cap {
			reachedFull++
		}
		if !agree(i, op, b, "buffer") {
			return
		}
		if held != nil && !same(held, heldWant) {
			s.Fail(f, c, "snapshot-aliased", "op %d %+v: the slice returned by Elements() at op %d now reads %+v, it was %+v", i, op, heldAt, held, show(heldWant))
			return
		}
	}

	classes := []string{"T=" + c.Typ, fmt.Sprintf("cap=%d", c.Cap)}
	add := func(n int, cl string) {
		if n > 0 {
			classes = append(classes, cl)
		}
	}
	add(wrapped, "wrap")
	add(refusedPush, "push-refused")
	add(reachedFull, "reached-full")
	add(jsonN, "json")
	add(jsonStructN, "json-in-struct")
	add(liveTarget, "json-into-live-buffer")
	add(liveTargetNonEmptyData, "json-nonempty-into-live-buffer")
	add(loads, "load-saved")
	add(loadsIntoNonEmpty, "load-saved-into-nonempty")
	add(restoreN, "restore")
	add(restoreOver, "restore-over-refused")
	add(clearNonEmpty, "clear-nonempty")
	add(updNonEmpty, "updatefront-nonempty")
	add(snaps, "snapshot-held")
	add(snapHeldOverUpd, "snapshot-held-over-updatefront")
	add(popEmpty, "pop-empty")
	nontrivial := refusedPush > 0 && (jsonN+jsonStructN+restoreN+loads) > 0 && (wrapped > 0 || c.Cap <= 1)
	s.Note(c, nontrivial, classes...)
}

func TestC14Buffer(t *testing.T) {
	s := kit.Begin(t, "C14", "buffer",
		"history of <=40 ops on queueing.Buffer[int], Buffer[string] or Buffer[rec] (rec = struct{id; opt omitempty; tags map omitempty; path []int}; elements drawn from 10 values incl. the zero value; strings with quotes/escapes/non-ASCII, valid UTF-8 only; maps nil or non-empty), "+
			"capacity in {0..6} weighted to 1-3, names incl. empty and non-ASCII; ops: PushTyped (on a full buffer the documented panic is required and nothing may change), Pop, Peek, UpdateFront, Clear, "+
			"Elements (+ mutate and append to the returned slice), Elements kept as a held snapshot (must keep reading the same after every later op), Restore (<=cap accepted; >cap must be refused = panic or error, nothing changes), "+
			"JSON marshal->unmarshal into a zero Buffer or into a live buffer of another name/capacity that holds 1-4 stale elements, the same with the Buffer held by value in a struct between two other fields, "+
			"save (keep the JSON form) / load (unmarshal the kept form into the live, possibly non-empty buffer); after a JSON op the history continues on the restored copy or on the original (drawn). "+
			"Oracle: model of drawn values; elements are compared field by field with freshly built expected values (no sharing of maps/slices with the buffer); after every op Name, Capacity, Size<=Capacity, CanPush, Peek, Elements of the live buffer (and of each restored copy) equal the model; Pop returns model front or zero value. "+
			"Non-trivial: a push was refused on a full buffer AND a JSON/Restore/load happened AND (a push landed after an earlier pop on a non-empty buffer [slice window moved] OR capacity<=1)")
	defer s.End()
	s.Assume("trusts encoding/json and reflect; Restore overflow is accepted as refused when it panics (current doc) or returns a non-nil error; element types are plain data whose own JSON encoding round-trips (no empty non-nil omitempty maps)")

	run := func(f kit.Failer, c c14Case) {
		switch c.Typ {
		case "string":
			runC14[string](s, f, c, c14Str, func(a, b string) bool { return a == b }, "\xffSENTINEL")
		case "rec":
			runC14[c14Rec](s, f, c, c14MkRec, c14EqRec, c14Rec{ID: -12345, Opt: -1})
		default:
			runC14[int](s, f, c, func(v int) int { return v }, func(a, b int) bool { return a == b }, -12345)
		}
	}

	var c c14Case
	if ok, err := kit.LoadReplay("C14", "buffer", &c); ok {
		if err != nil {
			t.Fatal(err)
		}
		run(t, c)
		return
	} else if kit.ReplayMode() {
		t.Skip()
	}

	kit.SetChecks(30_000, 150_000)
	rapid.Check(t, func(rt *rapid.T) { c := genC14(rt); run(rt, c) })
}
