package queuechk

import (
	"encoding/json"
	"fmt"
	"io"
	"log"
	"reflect"
	"testing"

	"github.com/sarchlab/akita/v5/queueing"
	"pgregory.net/rapid"

	"verif/harness/kit"
)

func init() {
	// queueing.Buffer reports overflow with log.Panic, which also prints; the
	// documented panic is expected thousands of times per run.
	log.SetOutput(io.Discard)
}

// c14Op is one step of a buffer history. K:
//
//	push v | pop | peek | upd v | clear | elems | restore vs | json | jsonstruct | query
type c14Op struct {
	K    string `json:"k"`
	V    int    `json:"v,omitempty"`
	Vs   []int  `json:"vs,omitempty"`
	Swap bool   `json:"swap,omitempty"` // json ops: continue the history on the restored copy
}

type c14Case struct {
	Typ  string  `json:"typ"` // element type: "int" or "string"
	Cap  int     `json:"cap"`
	Name string  `json:"name"`
	Ops  []c14Op `json:"ops"`
}

// c14Str maps a drawn value to a string element; 0 is the zero value.
func c14Str(v int) string {
	switch v {
	case 0:
		return ""
	case 1:
		return "\"q\\"
	case 2:
		return "é✓<&>"
	case 3:
		return "\x00\n "
	default:
		return fmt.Sprintf("s%d", v)
	}
}

func genC14(rt *rapid.T) c14Case {
	c := c14Case{
		Typ:  rapid.SampledFrom([]string{"int", "string"}).Draw(rt, "typ"),
		Cap:  rapid.SampledFrom([]int{0, 1, 1, 2, 2, 3, 3, 4, 5, 6}).Draw(rt, "cap"),
		Name: rapid.SampledFrom([]string{"", "B", "Comp.Port.Incoming", "名\"x"}).Draw(rt, "name"),
	}
	kinds := []string{
		"push", "push", "push", "push", "push", "push",
		"pop", "pop", "pop", "pop",
		"peek", "upd", "upd", "clear", "elems", "restore",
		"json", "jsonstruct", "query",
	}
	opGen := rapid.Custom(func(rt *rapid.T) c14Op {
		op := c14Op{K: rapid.SampledFrom(kinds).Draw(rt, "k")}
		switch op.K {
		case "push", "upd":
			op.V = rapid.IntRange(0, 9).Draw(rt, "v")
		case "restore":
			// mostly within capacity, sometimes one or two beyond (documented refusal)
			m := rapid.IntRange(0, c.Cap+2).Draw(rt, "len")
			if m > c.Cap && rapid.IntRange(0, 2).Draw(rt, "keepOver") != 0 {
				m = rapid.IntRange(0, c.Cap).Draw(rt, "len2")
			}
			op.Vs = make([]int, m)
			for j := range op.Vs {
				op.Vs[j] = rapid.IntRange(0, 9).Draw(rt, "rv")
			}
		case "json", "jsonstruct":
			op.Swap = rapid.Bool().Draw(rt, "swap")
		}
		return op
	})
	minOps := rapid.SampledFrom([]int{0, 6, 15, 25}).Draw(rt, "minops")
	c.Ops = rapid.SliceOfN(opGen, minOps, 40).Draw(rt, "ops")
	return c
}

type c14Wrap[T any] struct {
	Pre  int                `json:"pre"`
	B    queueing.Buffer[T] `json:"b"`
	Post string             `json:"post"`
}

// c14Restore calls Restore through reflection so that both the current
// behaviour (panic on overflow) and an error-returning variant are understood.
// refused=true when the call panicked or returned a non-nil error.
func c14Restore[T any](b *queueing.Buffer[T], vs []T) (refused bool, how string) {
	ok, _, msg := kit.Guard(func() {
		out := reflect.ValueOf(b).MethodByName("Restore").Call([]reflect.Value{reflect.ValueOf(vs)})
		for _, o := range out {
			if e, isErr := o.Interface().(error); isErr && e != nil {
				refused, how = true, "error: "+e.Error()
			}
		}
	})
	if !ok {
		return true, msg
	}
	return refused, how
}

func runC14[T comparable](s *kit.Session, f kit.Failer, c c14Case, conv func(int) T, sentinel T) {
	var zero T
	buf := queueing.NewBuffer[T](c.Name, c.Cap)
	b := &buf
	model := []T{}

	var (
		pops, wrapped, refusedPush, jsonN, jsonStructN, restoreN, restoreOver int
		clearNonEmpty, updNonEmpty, popEmpty, reachedFull, maxSize            int
	)

	eq := func(a, b []T) bool {
		if len(a) != len(b) {
			return false
		}
		for i := range a {
			if a[i] != b[i] {
				return false
			}
		}
		return true
	}

	// agree compares every observer of the buffer with the model.
	agree := func(i int, op c14Op, bb *queueing.Buffer[T], who string) bool {
		want0 := zero
		if len(model) > 0 {
			want0 = model[0]
		}
		switch {
		case bb.Name() != c.Name:
			s.Fail(f, c, "name", "op %d %+v: %s Name()=%q want %q", i, op, who, bb.Name(), c.Name)
		case bb.Capacity() != c.Cap:
			s.Fail(f, c, "capacity", "op %d %+v: %s Capacity()=%d want %d", i, op, who, bb.Capacity(), c.Cap)
		case bb.Size() != len(model):
			s.Fail(f, c, "size", "op %d %+v: %s Size()=%d want %d (model %v)", i, op, who, bb.Size(), len(model), model)
		case bb.Size() > bb.Capacity():
			s.Fail(f, c, "over-capacity", "op %d %+v: %s Size()=%d > Capacity()=%d", i, op, who, bb.Size(), bb.Capacity())
		case bb.CanPush() != (len(model) < c.Cap):
			s.Fail(f, c, "canpush", "op %d %+v: %s CanPush()=%v with %d/%d elements", i, op, who, bb.CanPush(), len(model), c.Cap)
		case bb.Peek() != want0:
			s.Fail(f, c, "peek", "op %d %+v: %s Peek()=%v want %v (model %v)", i, op, who, bb.Peek(), want0, model)
		case !eq(bb.Elements(), model):
			s.Fail(f, c, "contents", "op %d %+v: %s Elements()=%v want %v", i, op, who, bb.Elements(), model)
		default:
			return true
		}
		return false
	}

	if !agree(-1, c14Op{K: "new"}, b, "new buffer") {
		return
	}

	for i, op := range c.Ops {
		switch op.K {
		case "push":
			v := conv(op.V)
			ok, sig, msg := kit.Guard(func() { b.PushTyped(v) })
			if len(model) < c.Cap {
				if !ok {
					s.Fail(f, c, sig, "op %d push into %d/%d buffer panicked: %s", i, len(model), c.Cap, msg)
					return
				}
				if pops > 0 && len(model) > 0 {
					wrapped++
				}
				model = append(model, v)
			} else {
				// documented: "It panics if the buffer is already at capacity."
				if ok {
					s.Fail(f, c, "push-beyond-capacity-accepted", "op %d push into full %d/%d buffer did not panic", i, len(model), c.Cap)
					return
				}
				refusedPush++
			}
		case "pop":
			var got T
			ok, sig, msg := kit.Guard(func() { got = b.Pop() })
			if !ok {
				s.Fail(f, c, sig, "op %d Pop panicked: %s", i, msg)
				return
			}
			want := zero
			if len(model) > 0 {
				want = model[0]
				model = model[1:]
				pops++
			} else {
				popEmpty++
			}
			if got != want {
				s.Fail(f, c, "pop-order", "op %d Pop()=%v want %v (rest of model %v)", i, got, want, model)
				return
			}
		case "peek":
			// Peek is compared in agree(); peeking twice must not consume.
			_ = b.Peek()
		case "upd":
			v := conv(op.V)
			ok, sig, msg := kit.Guard(func() { b.UpdateFront(v) })
			if !ok {
				s.Fail(f, c, sig, "op %d UpdateFront panicked: %s", i, msg)
				return
			}
			if len(model) > 0 {
				// copy so that earlier snapshots of the model are not touched
				model = append([]T{v}, model[1:]...)
				updNonEmpty++
			}
		case "clear":
			if len(model) > 0 {
				clearNonEmpty++
			}
			b.Clear()
			model = []T{}
		case "elems":
			e := b.Elements()
			if !eq(e, model) {
				s.Fail(f, c, "contents", "op %d Elements()=%v want %v", i, e, model)
				return
			}
			// documented: "mutating the returned slice has no effect on the buffer"
			for j := range e {
				e[j] = sentinel
			}
			e = append(e, sentinel, sentinel)
			_ = e
		case "restore":
			vs := make([]T, len(op.Vs))
			for j, x := range op.Vs {
				vs[j] = conv(x)
			}
			refused, how := c14Restore(b, vs)
			if len(vs) > c.Cap {
				// documented: "panics if the elements exceed the buffer's capacity"
				if !refused {
					s.Fail(f, c, "restore-beyond-capacity-accepted", "op %d Restore of %d elements into capacity %d was accepted", i, len(vs), c.Cap)
					return
				}
				restoreOver++
			} else {
				if refused {
					s.Fail(f, c, "restore-refused", "op %d Restore of %d elements into capacity %d refused: %s", i, len(vs), c.Cap, how)
					return
				}
				model = append([]T{}, vs...)
				restoreN++
			}
		case "json", "jsonstruct":
			var fresh *queueing.Buffer[T]
			var data []byte
			var err error
			if op.K == "json" {
				data, err = json.Marshal(b)
				if err == nil {
					var nb queueing.Buffer[T]
					err = json.Unmarshal(data, &nb)
					fresh = &nb
				}
				jsonN++
			} else {
				// a Buffer held by value inside a component state struct
				w := c14Wrap[T]{Pre: 7, B: *b, Post: "x"}
				data, err = json.Marshal(w)
				if err == nil {
					var nw c14Wrap[T]
					err = json.Unmarshal(data, &nw)
					fresh = &nw.B
					if err == nil && (nw.Pre != 7 || nw.Post != "x") {
						s.Fail(f, c, "json-struct-neighbours", "op %d neighbours of the embedded buffer changed: %+v from %s", i, nw, data)
						return
					}
				}
				jsonStructN++
			}
			if err != nil {
				s.Fail(f, c, "json-error", "op %d %s: %v (data %s)", i, op.K, err, data)
				return
			}
			if !agree(i, op, fresh, "restored copy from "+string(data)) {
				return
			}
			if op.Swap {
				b = fresh
			}
		case "query":
			// all observers are compared below
		}
		if len(model) > maxSize {
			maxSize = len(model)
		}
		if c.Cap > 0 && len(model) == c.Cap {
			reachedFull++
		}
		if !agree(i, op, b, "buffer") {
			return
		}
	}

	classes := []string{"T=" + c.Typ, fmt.Sprintf("cap=%d", c.Cap)}
	add := func(n int, cl string) {
		if n > 0 {
			classes = append(classes, cl)
		}
	}
	add(wrapped, "wrap")
	add(refusedPush, "push-refused")
	add(reachedFull, "reached-full")
	add(jsonN, "json")
	add(jsonStructN, "json-in-struct")
	add(restoreN, "restore")
	add(restoreOver, "restore-over-refused")
	add(clearNonEmpty, "clear-nonempty")
	add(updNonEmpty, "updatefront-nonempty")
	add(popEmpty, "pop-empty")
	nontrivial := refusedPush > 0 && (jsonN+jsonStructN+restoreN) > 0 && (wrapped > 0 || c.Cap <= 1)
	s.Note(c, nontrivial, classes...)
}

func TestC14Buffer(t *testing.T) {
	s := kit.Begin(t, "C14", "buffer",
		"history of <=40 ops on queueing.Buffer[int] or Buffer[string] (elements drawn from 10 values incl. the zero value; strings with quotes/escapes/non-ASCII, valid UTF-8 only), "+
			"capacity in {0..6} weighted to 1-3, names incl. empty and non-ASCII; ops: PushTyped (on a full buffer the documented panic is required and nothing may change), Pop, Peek, UpdateFront, Clear, "+
			"Elements (+ mutate and append to the returned slice), Restore (<=cap accepted; >cap must be refused = panic or error, nothing changes), JSON marshal->unmarshal into a zero Buffer, "+
			"JSON of a struct holding the Buffer by value between two other fields; after a JSON op the history continues on the restored copy or on the original (drawn). "+
			"Oracle: slice model; after every op Name, Capacity, Size<=Capacity, CanPush, Peek, Elements of the live buffer (and of each restored copy) equal the model; Pop returns model front or zero value. "+
			"Non-trivial: a push was refused on a full buffer AND a JSON/Restore happened AND (a push landed after an earlier pop on a non-empty buffer [slice window moved] OR capacity<=1)")
	defer s.End()
	s.Assume("trusts encoding/json and reflect; Restore overflow is accepted as refused when it panics (current doc) or returns a non-nil error")

	run := func(f kit.Failer, c c14Case) {
		if c.Typ == "string" {
			runC14[string](s, f, c, c14Str, "\xffSENTINEL")
		} else {
			runC14[int](s, f, c, func(v int) int { return v }, -12345)
		}
	}

	var c c14Case
	if ok, err := kit.LoadReplay("C14", "buffer", &c); ok {
		if err != nil {
			t.Fatal(err)
		}
		run(t, c)
		return
	} else if kit.ReplayMode() {
		t.Skip()
	}

	kit.SetChecks(30_000, 150_000)
	rapid.Check(t, func(rt *rapid.T) { c := genC14(rt); run(rt, c) })
}
