package queuechk

import (
	"encoding/json"
	"fmt"
	"sort"
	"testing"

	"github.com/sarchlab/akita/v5/queueing"
	"pgregory.net/rapid"

	"verif/harness/kit"
)

// c15KnownSingleStage is the signature of the input class "a pipeline with one
// stage holds an item that was accepted with a dwell delay > 0".
const c15KnownSingleStage = "single-stage+delay>0"

// c15Op is one step of a pipeline history. K:
//
//	accept  – if CanAccept: Accept(item) when Plain, else AcceptWithDelay(item, Delay); skipped otherwise
//	tick    – Tick(sink) where the sink accepts Budget pushes during this tick (-1 = unlimited)
//	json    – marshal, unmarshal into a zero Pipeline (InStruct: held by value in a struct), continue on the copy
type c15Op struct {
	K        string `json:"k"`
	Delay    int    `json:"delay,omitempty"`
	Plain    bool   `json:"plain,omitempty"`
	Budget   int    `json:"budget,omitempty"`
	InStruct bool   `json:"in_struct,omitempty"`
}

type c15Case struct {
	Width  int     `json:"width"`
	Stages int     `json:"stages"`
	Ops    []c15Op `json:"ops"`
}

// c15Sink is a sink with room for `budget` more items (-1: unlimited).
type c15Sink struct {
	budget   int
	pushed   []int
	refused  int // CanPush calls answered false
	overPush int // PushTyped calls made while there was no room
}

func (k *c15Sink) CanPush() bool {
	if k.budget != 0 {
		return true
	}
	k.refused++
	return false
}

func (k *c15Sink) PushTyped(v int) {
	if k.budget == 0 {
		k.overPush++
	} else if k.budget > 0 {
		k.budget--
	}
	k.pushed = append(k.pushed, v)
}

// c15Item is the reference model's record of one resident item.
type c15Item struct {
	ID, Lane, Stage, Dwell int
	Delay                  int // delay it was accepted with
	At                     int // number of Tick calls executed before it was accepted
}

type c15Slot struct{ ID, Lane, Stage, Dwell int }

func c15Sort(x []c15Slot) {
	sort.Slice(x, func(i, j int) bool { return x[i].ID < x[j].ID })
}

func c15Snap(p *queueing.Pipeline[int]) []c15Slot {
	st := p.Stages()
	out := make([]c15Slot, len(st))
	for i, e := range st {
		out[i] = c15Slot{ID: e.Item, Lane: e.Lane, Stage: e.Stage, Dwell: e.CycleLeft}
	}
	c15Sort(out)
	return out
}

func c15Same(a, b []c15Slot) bool {
	if len(a) != len(b) {
		return false
	}
	for i := range a {
		if a[i] != b[i] {
			return false
		}
	}
	return true
}

type c15Result struct {
	Sig, Msg   string
	Classes    []string
	Nontrivial bool
}

type c15Wrap struct {
	A int                    `json:"a"`
	P queueing.Pipeline[int] `json:"p"`
	Z string                 `json:"z"`
}

// execC15 runs one history against the real pipeline and the reference model and
// returns the first disagreement (Sig == "" when the property held).
func execC15(c c15Case) (res c15Result) {
	pl := queueing.NewPipeline[int](c.Width, c.Stages)
	p := &pl
	last := c.Stages - 1
	var model []c15Item
	ticks := 0
	nextID := 1
	accepted := map[int]c15Item{}
	emittedAt := map[int]int{}
	lastOut := 0
	alwaysAvail := true // no CanPush call has been answered false so far

	var (
		stalls, blockedFullLast, multiEmit, partialBudget, jsonN, acceptRefused int
		mixedConcurrent, singleStageDelay, delayed, blockedTicks, plainAccepts  int
	)

	// cls names the failing input class: a progress/latency misbehaviour (an item
	// that does not count down, advance or leave when the model says it must) seen
	// while a one-stage pipeline holds an item accepted with delay > 0 is that
	// class. Structural failures (lane choice, collisions, sink misuse, JSON)
	// keep their own signature.
	cls := func(base string) string {
		switch base {
		case "stranded", "model-divergence", "ready-item-not-emitted", "latency", "never-left", "tick-return":
		default:
			return base
		}
		if c.Stages == 1 {
			for _, it := range model {
				if it.Delay > 0 {
					return c15KnownSingleStage
				}
			}
		}
		return base
	}
	fail := func(base, format string, args ...any) c15Result {
		res.Sig, res.Msg = cls(base), fmt.Sprintf(format, args...)
		return res
	}
	modelSnap := func() []c15Slot {
		out := make([]c15Slot, len(model))
		for i, it := range model {
			out[i] = c15Slot{ID: it.ID, Lane: it.Lane, Stage: it.Stage, Dwell: it.Dwell}
		}
		c15Sort(out)
		return out
	}
	occupied := func(lane, stage int) bool {
		for _, it := range model {
			if it.Lane == lane && it.Stage == stage {
				return true
			}
		}
		return false
	}
	// structure checks one Stages() snapshot against the lane/stage geometry.
	structure := func(when string, snap []c15Slot) (string, string) {
		seen := map[[2]int]int{}
		for _, e := range snap {
			if e.Lane < 0 || e.Lane >= c.Width || e.Stage < 0 || e.Stage >= c.Stages || e.Dwell < 0 {
				return "slot-out-of-range", fmt.Sprintf("%s: item %d at lane %d stage %d cycleLeft %d outside %d lanes x %d stages", when, e.ID, e.Lane, e.Stage, e.Dwell, c.Width, c.Stages)
			}
			k := [2]int{e.Lane, e.Stage}
			if other, dup := seen[k]; dup {
				return "lane-collision", fmt.Sprintf("%s: items %d and %d both occupy lane %d of stage %d: %+v", when, other, e.ID, e.Lane, e.Stage, snap)
			}
			seen[k] = e.ID
		}
		return "", ""
	}

	// tick executes one Tick with the given sink budget and judges it.
	tick := func(where string, budget int) bool {
		s0 := c15Snap(p)
		sink := &c15Sink{budget: budget}
		var moved bool
		if ok, sig, msg := kit.Guard(func() { moved = p.Tick(sink) }); !ok {
			res = fail(sig, "%s: Tick panicked: %s", where, msg)
			return false
		}
		ticks++
		s1 := c15Snap(p)
		if sink.refused > 0 {
			alwaysAvail = false
			blockedTicks++
		}
		if sink.overPush > 0 {
			res = fail("push-into-full-sink", "%s: tick %d pushed %d item(s) into a sink that had no room (budget %d)", where, ticks, sink.overPush, budget)
			return false
		}
		if sg, m := structure(fmt.Sprintf("%s after tick %d", where, ticks), s1); sg != "" {
			res = fail(sg, "%s", m)
			return false
		}
		// Bounded liveness. Tick is a deterministic function of the resident
		// records and the sink's answers; a Tick during which the sink never
		// refused, that pushed nothing and left every record unchanged will repeat
		// identically at every later Tick with an available sink.
		if sink.refused == 0 && len(sink.pushed) == 0 && len(s1) > 0 && c15Same(s0, s1) {
			res = fail("stranded", "%s: tick %d with an available sink changed nothing while %d item(s) remain: %+v (width %d, stages %d) - they can never leave", where, ticks, len(s1), s1, c.Width, c.Stages)
			return false
		}

		// phase 1 of the model: emission of ready items, following the observed choice
		ready := map[int]int{} // id -> index in model
		for i, it := range model {
			if it.Stage == last && it.Dwell == 0 {
				ready[it.ID] = i
			}
		}
		nReady := len(ready)
		for _, id := range sink.pushed {
			if _, dup := emittedAt[id]; dup {
				res = fail("emitted-twice", "%s: tick %d pushed item %d again (first pushed at tick %d)", where, ticks, id, emittedAt[id])
				return false
			}
			if _, acc := accepted[id]; !acc {
				res = fail("emitted-unknown-item", "%s: tick %d pushed %d which was never accepted", where, ticks, id)
				return false
			}
			if _, ok := ready[id]; !ok {
				it := accepted[id]
				res = fail("left-early", "%s: tick %d pushed item %d (accepted after tick %d with delay %d) before it reached the last stage with its dwell expired; model residents %+v", where, ticks, id, it.At, it.Delay, modelSnap())
				return false
			}
			delete(ready, id)
			emittedAt[id] = ticks
			it := accepted[id]
			lat := ticks - it.At
			if lat < c.Stages+it.Delay {
				res = fail("left-early", "%s: item %d left after %d ticks < stages %d + delay %d", where, id, lat, c.Stages, it.Delay)
				return false
			}
			if alwaysAvail && lat != c.Stages+it.Delay {
				res = fail("latency", "%s: sink always had room, item %d accepted after tick %d with delay %d left during tick %d: %d ticks, want stages %d + delay %d", where, id, it.At, it.Delay, ticks, lat, c.Stages, it.Delay)
				return false
			}
			if c.Width == 1 && id < lastOut {
				res = fail("fifo", "%s: one-lane pipeline pushed item %d after item %d", where, id, lastOut)
				return false
			}
			lastOut = id
		}
		want := nReady
		if budget >= 0 && budget < want {
			want = budget
			if budget > 0 {
				partialBudget++
			}
		}
		if len(sink.pushed) != want {
			res = fail("ready-item-not-emitted", "%s: tick %d pushed %d item(s) %v; %d were at the last stage with dwell 0 and the sink had room for %d; model residents %+v, real %+v", where, ticks, len(sink.pushed), sink.pushed, nReady, budget, modelSnap(), s0)
			return false
		}
		if len(sink.pushed) > 1 {
			multiEmit++
		}
		kept := model[:0:0]
		for _, it := range model {
			if _, gone := emittedAt[it.ID]; !gone {
				kept = append(kept, it)
			}
		}
		model = kept
		// phase 2 of the model: highest stage first; a dwelling item counts down,
		// an item whose dwell expired moves up when the same lane of the next
		// stage is free.
		stalledHere := 0
		for st := last; st >= 0; st-- {
			for i := range model {
				it := &model[i]
				if it.Stage != st {
					continue
				}
				switch {
				case it.Dwell > 0:
					it.Dwell--
				case st == last:
					// ready but the sink had no room: stays
				case occupied(it.Lane, st+1):
					stalledHere++
				default:
					it.Stage++
				}
			}
		}
		stalls += stalledHere
		if sink.refused > 0 {
			n := 0
			for _, it := range model {
				if it.Stage == last {
					n++
				}
			}
			if n == c.Width {
				blockedFullLast++
			}
		}
		if ms := modelSnap(); !c15Same(ms, s1) {
			res = fail("model-divergence", "%s: after tick %d (sink budget %d) pipeline holds %+v, reference model %+v (before the tick: %+v)", where, ticks, budget, s1, ms, s0)
			return false
		}
		posChanged := len(sink.pushed) > 0
		for i := range s1 {
			if !posChanged && (s0[i].Stage != s1[i].Stage) {
				posChanged = true
			}
		}
		if posChanged && !moved {
			res = fail("tick-return", "%s: tick %d moved items (%+v -> %+v, pushed %v) but returned false", where, ticks, s0, s1, sink.pushed)
			return false
		}
		if moved && c15Same(s0, s1) && len(sink.pushed) == 0 {
			res = fail("tick-return", "%s: tick %d returned true but nothing changed: %+v", where, ticks, s1)
			return false
		}
		return true
	}

	for i, op := range c.Ops {
		where := fmt.Sprintf("op %d %+v", i, op)
		switch op.K {
		case "accept":
			stage0 := 0
			for _, it := range model {
				if it.Stage == 0 {
					stage0++
				}
			}
			can := p.CanAccept()
			if can != (stage0 < c.Width) {
				return fail("canaccept", "%s: CanAccept()=%v with %d of %d lanes occupied at stage 0", where, can, stage0, c.Width)
			}
			if !can {
				acceptRefused++
				continue
			}
			id := nextID
			nextID++
			delay := op.Delay
			if op.Plain {
				delay = 0
			}
			if ok, sig, msg := kit.Guard(func() {
				if op.Plain {
					p.Accept(id)
					plainAccepts++
				} else {
					p.AcceptWithDelay(id, delay)
				}
			}); !ok {
				return fail(sig, "%s: accept panicked: %s", where, msg)
			}
			snap := c15Snap(p)
			var got *c15Slot
			for j := range snap {
				if snap[j].ID == id {
					got = &snap[j]
				}
			}
			if got == nil {
				return fail("accept-lost", "%s: accepted item %d is not in Stages() %+v", where, id, snap)
			}
			// The lane is the implementation's choice ("the next free lane"): it must be a
			// free lane of stage 0; the model adopts it.
			if got.Stage != 0 || got.Dwell != delay || got.Lane < 0 || got.Lane >= c.Width || occupied(got.Lane, 0) {
				return fail("accept-slot", "%s: item %d placed at %+v; want stage 0, cycleLeft %d, a free lane of stage 0; residents %+v", where, id, *got, delay, modelSnap())
			}
			it := c15Item{ID: id, Lane: got.Lane, Stage: 0, Dwell: delay, Delay: delay, At: ticks}
			if delay > 0 {
				delayed++
				if c.Stages == 1 {
					singleStageDelay++
				}
			}
			for _, o := range model {
				if c.Width > 1 && o.Delay != delay {
					mixedConcurrent++
				}
			}
			model = append(model, it)
			accepted[id] = it
			if sg, m := structure(where, snap); sg != "" {
				return fail(sg, "%s", m)
			}
			if !c15Same(snap, modelSnap()) {
				return fail("model-divergence", "%s: after accept pipeline holds %+v, reference model %+v", where, snap, modelSnap())
			}
		case "tick":
			if !tick(where, op.Budget) {
				return res
			}
		case "json":
			var fresh *queueing.Pipeline[int]
			var data []byte
			var err error
			if op.InStruct {
				data, err = json.Marshal(c15Wrap{A: 1, P: *p, Z: "z"})
				if err == nil {
					var w c15Wrap
					err = json.Unmarshal(data, &w)
					fresh = &w.P
				}
			} else {
				data, err = json.Marshal(p)
				if err == nil {
					var np queueing.Pipeline[int]
					err = json.Unmarshal(data, &np)
					fresh = &np
				}
			}
			if err != nil {
				return fail("json-error", "%s: %v (data %s)", where, err, data)
			}
			if a, b := c15Snap(p), c15Snap(fresh); !c15Same(a, b) {
				return fail("json-contents", "%s: restored pipeline holds %+v, original %+v (data %s)", where, b, a, data)
			}
			p = fresh // geometry is checked by everything that follows
			if len(model) > 0 {
				jsonN++
			}
		}
	}

	// Drain with a sink that always has room: every resident item must leave.
	for n := 0; len(model) > 0; n++ {
		if !tick(fmt.Sprintf("drain tick %d", n+1), -1) {
			return res
		}
	}
	if left := c15Snap(p); len(left) != 0 {
		return fail("model-divergence", "after the drain the model is empty but the pipeline holds %+v", left)
	}
	for id := 1; id < nextID; id++ {
		if _, ok := emittedAt[id]; !ok {
			return fail("never-left", "item %d was accepted but never pushed to the sink", id)
		}
	}

	res.Classes = []string{fmt.Sprintf("width=%d", c.Width), fmt.Sprintf("stages=%d", c.Stages)}
	add := func(n int, cl string) {
		if n > 0 {
			res.Classes = append(res.Classes, cl)
		}
	}
	add(stalls, "backpressure-stall")
	add(blockedFullLast, "sink-refused+last-stage-full")
	add(blockedTicks, "sink-refused")
	add(multiEmit, "multi-emission-tick")
	add(partialBudget, "partial-sink-room")
	add(jsonN, "json-midflight")
	add(acceptRefused, "accept-refused")
	add(mixedConcurrent, "mixed-delays-concurrent")
	add(delayed, "delay>0")
	add(plainAccepts, "plain-Accept")
	add(singleStageDelay, c15KnownSingleStage)
	if alwaysAvail && nextID > 1 {
		res.Classes = append(res.Classes, "sink-always-had-room")
	}
	if nextID > 8 {
		res.Classes = append(res.Classes, "items>=8")
	}
	res.Nontrivial = stalls > 0 || mixedConcurrent > 0 || singleStageDelay > 0
	return res
}

// genC15 draws a history. steer=true keeps one-stage pipelines free of delayed
// items (the listed finding's input class); steered reports that it did so.
func genC15(rt *rapid.T, steer bool) (c c15Case, steered bool) {
	c.Width = rapid.IntRange(1, 4).Draw(rt, "width")
	c.Stages = rapid.SampledFrom([]int{1, 1, 2, 2, 3, 3, 4, 5, 6}).Draw(rt, "stages")
	// sink availability pattern: 0 = mixed, 1 = mostly blocked, 2 = mostly room, 3 = always room
	mode := rapid.IntRange(0, 3).Draw(rt, "sinkmode")
	budgets := [][]int{
		{-1, 0, 0, 1, 2, c.Width},
		{0, 0, 0, 0, 0, 1, -1},
		{-1, -1, -1, -1, 0, 1, c.Width},
		{-1},
	}[mode]
	minOps := rapid.SampledFrom([]int{0, 8, 20, 35}).Draw(rt, "minops")
	opGen := rapid.Custom(func(t *rapid.T) c15Op {
		switch rapid.IntRange(0, 20).Draw(t, "kind") {
		case 0, 1, 2, 3, 4, 5, 6, 7, 8:
			op := c15Op{K: "accept"}
			if rapid.IntRange(0, 4).Draw(t, "plain") == 0 {
				op.Plain = true
			} else {
				op.Delay = rapid.SampledFrom([]int{0, 0, 1, 1, 2, 3, 4}).Draw(t, "delay")
				if steer && c.Stages == 1 && op.Delay > 0 {
					op.Delay = 0
					steered = true
				}
			}
			return op
		case 19:
			return c15Op{K: "json", InStruct: rapid.Bool().Draw(t, "instruct")}
		default:
			b := rapid.SampledFrom(budgets).Draw(t, "budget")
			if b > c.Width {
				b = c.Width
			}
			return c15Op{K: "tick", Budget: b}
		}
	})
	c.Ops = rapid.SliceOfN(opGen, minOps, 60).Draw(rt, "ops")
	return c, steered
}

const c15Rule = "queueing.Pipeline[int], width 1-4, stages 1-6 (weighted to 1-3), history of <=60 ops followed by a drain; ops: accept (only when CanAccept, which is itself compared with the model; Accept or AcceptWithDelay with delay 0-4), " +
	"Tick(sink) where the sink has room for a drawn number of pushes in that tick (unlimited / 0 / 1 / 2 / width; four availability patterns from 'always room' to 'mostly blocked'; a real caller's sink is a Buffer of capacity width), JSON round trip mid-flight (bare or held by value in a struct) after which the history continues on the copy; " +
	"then Tick with unlimited room until the model is empty. Tick-counting convention (from Tick/Accept docs and the TLB caller, which ticks first and accepts afterwards in a cycle): an item accepted after T Tick calls have been made is pushed to the sink during Tick call number T+stages+delay. " +
	"Oracle per Tick, against a reference model of (item, lane, stage, dwell): no push into a sink without room; every Stages() record inside width x stages and no two records in one (lane,stage); pushed items are accepted, not pushed before, at the last stage with dwell expired; " +
	"exactly min(room, ready) items are pushed; latency >= stages+delay always and == stages+delay as long as no CanPush call was ever answered false in the history; width 1 => pushes in acceptance order; the Stages() set equals the model (lane chosen by the pipeline at accept is adopted if it is a free lane of stage 0; " +
	"items keep their lane, count down dwell unconditionally, and advance when the same lane of the next stage is free, highest stage first - the documented Tick behaviour); Tick returns true when a push or stage change happened and never when nothing changed; " +
	"bounded liveness: a Tick during which the sink never refused, that pushed nothing and left Stages() identical while items remain is a proof of stranding (Tick is a deterministic function of those records and the sink's answers) - no timeout is used; at the end every accepted item was pushed exactly once. " +
	"Non-trivial: an item was held back by an occupied next slot (backpressure from a refusing sink) OR width>1 with different delays resident together OR a one-stage pipeline held a delayed item"

func TestC15Pipeline(t *testing.T) {
	s := kit.Begin(t, "C15", "pipeline", c15Rule)
	defer s.End()
	s.Assume("when known.d lists sig=" + c15KnownSingleStage + " the generator sets delay=0 on one-stage pipelines (counted as excluded) and any failure observed while a one-stage pipeline holds a delayed item is attributed to that finding")

	run := func(f kit.Failer, c c15Case) {
		r := execC15(c)
		if r.Sig != "" {
			s.Fail(f, c, r.Sig, "%s", r.Msg)
			return
		}
		s.Note(c, r.Nontrivial, r.Classes...)
	}

	var c c15Case
	if ok, err := kit.LoadReplay("C15", "pipeline", &c); ok {
		if err != nil {
			t.Fatal(err)
		}
		run(t, c)
		return
	} else if kit.ReplayMode() {
		t.Skip()
	}

	_, steer := s.IsKnown(c15KnownSingleStage)
	kit.SetChecks(40_000, 300_000)
	rapid.Check(t, func(rt *rapid.T) {
		c, steered := genC15(rt, steer)
		if steered {
			s.Excluded(1)
		}
		run(rt, c)
	})
}

// TestC15Known_SingleStageDelay is the deterministic reproduction of the listed
// finding: every (width 1-4, delay 1-4) on a one-stage pipeline, one accepted
// item, sink with unlimited room. mem/vm/tlb builds NewPipeline(width, Latency)
// and accepts with AcceptWithDelay(item, 1), i.e. exactly this for Latency = 1.
func TestC15Known_SingleStageDelay(t *testing.T) {
	s := kit.Begin(t, "C15", "known-single-stage-delay",
		"deterministic enumeration: NewPipeline(width 1-4, 1 stage), AcceptWithDelay(item, delay 1-4), then Ticks with a sink that always has room; same oracle as the pipeline sub-check")
	defer s.End()
	if kit.ReplayMode() {
		t.Skip()
	}
	s.Exhaustive()

	var first *c15Case
	var firstMsg string
	reproduced := 0
	for w := 1; w <= 4; w++ {
		for d := 1; d <= 4; d++ {
			c := c15Case{Width: w, Stages: 1, Ops: []c15Op{{K: "accept", Delay: d}, {K: "tick", Budget: -1}}}
			r := execC15(c)
			switch r.Sig {
			case "":
				s.Note(c, true, "holds")
			case c15KnownSingleStage:
				reproduced++
				if first == nil {
					cc := c
					first, firstMsg = &cc, r.Msg
				}
				s.Note(c, true, "reproduces")
			default:
				s.Fail(t, c, r.Sig, "%s", r.Msg)
				return
			}
		}
	}
	if first != nil {
		s.KnownStillFails(t, *first, c15KnownSingleStage,
			fmt.Sprintf("%d of 16 one-stage (width,delay>0) configurations strand their item; minimal: width 1, stages 1, AcceptWithDelay(item,1), Tick: %s", reproduced, firstMsg))
	}
}
