package queuechk

import (
	"bytes"
	"encoding/json"
	"fmt"
	"testing"

	"github.com/sarchlab/akita/v5/hooking"
	"github.com/sarchlab/akita/v5/messaging"
	"github.com/sarchlab/akita/v5/queueing"
	"pgregory.net/rapid"

	"verif/harness/kit"
)

// C33 at the level of the primitives: a Buffer / Port / Pipeline-with-Buffer-sink
// that is observed through passive hooks must behave exactly like one that is
// not (the NumHooks()==0 fast paths). Each generated history (the C14 / C11 /
// C15 generators) is executed twice and the two observation traces are compared
// line by line.

type c33Ev struct {
	pos  *hooking.HookPos
	item string
}

// c33Hook is a passive observer: it only records.
type c33Hook struct{ events []c33Ev }

func (h *c33Hook) Func(ctx hooking.HookCtx) {
	h.events = append(h.events, c33Ev{pos: ctx.Pos, item: fmt.Sprintf("%+v", ctx.Item)})
}

func c33Hooks(n int) []*c33Hook {
	out := make([]*c33Hook, n)
	for i := range out {
		out[i] = &c33Hook{}
	}
	return out
}

// c33Diff returns the index of the first differing line (-1 if equal).
func c33Diff(a, b []string) int {
	for i := 0; i < len(a) && i < len(b); i++ {
		if a[i] != b[i] {
			return i
		}
	}
	if len(a) != len(b) {
		if len(a) < len(b) {
			return len(a)
		}
		return len(b)
	}
	return -1
}

func c33Line(t []string, i int) string {
	if i < len(t) {
		return t[i]
	}
	return "<trace ended>"
}

// ---------------------------------------------------------------- buffer

type c33BufCase struct {
	Hooks int     `json:"hooks"` // 1 or 2 passive hooks in the observed run
	H     c14Case `json:"h"`
}

type c33BufStats struct {
	clear0, clear1, clear2plus, restores, jsonLive, loadNonEmpty, updNonEmpty, pushes, pops int
}

// c33TraceBuf interprets a C14 history without a model and returns one
// observation line per op. nHooks>0: the buffer (and every buffer the history
// continues on, and every live restore target) carries that many hooks.
// sanity != "" reports a hook-event count the documentation rules out.
func c33TraceBuf[T any](c c14Case, nHooks int, mk func(int) T, sentinel T) (trace []string, sanity string, st c33BufStats) {
	hooks := c33Hooks(nHooks)
	attach := func(bb *queueing.Buffer[T]) {
		if bb.NumHooks() == 0 {
			for _, h := range hooks {
				bb.AcceptHook(h)
			}
		}
	}
	events := func() int {
		if nHooks == 0 {
			return 0
		}
		return len(hooks[0].events)
	}
	lastEv := func() c33Ev { return hooks[0].events[len(hooks[0].events)-1] }

	buf := queueing.NewBuffer[T](c.Name, c.Cap)
	b := &buf
	attach(b)
	var held []T
	var saved []byte

	observe := func(bb *queueing.Buffer[T]) string {
		js, err := json.Marshal(bb)
		// an emptied buffer may hold a nil or an empty slice: same contents
		js = bytes.Replace(js, []byte(`"elements":null`), []byte(`"elements":[]`), 1)
		return fmt.Sprintf("name=%q cap=%d size=%d can=%v peek=%+v elems=%+v json=%s err=%v",
			bb.Name(), bb.Capacity(), bb.Size(), bb.CanPush(), bb.Peek(), bb.Elements(), js, err)
	}
	show := func(vs []int) []T {
		out := make([]T, len(vs))
		for i, v := range vs {
			out[i] = mk(v)
		}
		return out
	}

	for i, op := range c.Ops {
		res := ""
		ev0 := events()
		size0 := b.Size()
		switch op.K {
		case "push":
			v := mk(op.V)
			ok, _, _ := kit.Guard(func() { b.PushTyped(v) })
			res = fmt.Sprintf("ok=%v", ok)
			if ok {
				st.pushes++
			}
			if nHooks > 0 && sanity == "" {
				// HookPosBufPush "marks when an element is pushed into the buffer"
				if ok && (events() != ev0+1 || lastEv().pos != queueing.HookPosBufPush || lastEv().item != fmt.Sprintf("%+v", v)) {
					sanity = fmt.Sprintf("op %d push of %+v: %d hook event(s), want exactly one Buffer Push event carrying the element", i, v, events()-ev0)
				}
				if !ok && events() != ev0 {
					sanity = fmt.Sprintf("op %d refused push fired %d hook event(s)", i, events()-ev0)
				}
			}
		case "pop":
			var got T
			ok, _, _ := kit.Guard(func() { got = b.Pop() })
			res = fmt.Sprintf("ok=%v got=%+v", ok, got)
			if size0 > 0 {
				st.pops++
				// HookPosBufPop "marks when an element is popped from the buffer"
				if nHooks > 0 && sanity == "" && ok && (events() != ev0+1 || lastEv().pos != queueing.HookPosBufPop || lastEv().item != fmt.Sprintf("%+v", got)) {
					sanity = fmt.Sprintf("op %d pop of %+v: %d hook event(s), want exactly one Buffer Pop event carrying the element", i, got, events()-ev0)
				}
			}
		case "peek", "query":
			res = fmt.Sprintf("%+v", b.Peek())
		case "upd":
			ok, _, _ := kit.Guard(func() { b.UpdateFront(mk(op.V)) })
			res = fmt.Sprintf("ok=%v", ok)
			if size0 > 0 {
				st.updNonEmpty++
			}
		case "clear":
			ok, _, _ := kit.Guard(func() { b.Clear() })
			res = fmt.Sprintf("ok=%v", ok)
			switch {
			case size0 == 0:
				st.clear0++
			case size0 == 1:
				st.clear1++
			default:
				st.clear2plus++
			}
		case "elems":
			e := b.Elements()
			res = fmt.Sprintf("%+v", e)
			for j := range e {
				e[j] = sentinel
			}
		case "snap":
			held = b.Elements()
		case "restore":
			refused, _ := c14Restore(b, show(op.Vs))
			res = fmt.Sprintf("refused=%v", refused)
			if !refused {
				st.restores++
			}
			// Restore is documented to work "without firing hooks"
			if nHooks > 0 && sanity == "" && events() != ev0 {
				sanity = fmt.Sprintf("op %d Restore fired %d hook event(s); it is documented to fire none", i, events()-ev0)
			}
		case "json", "jsonstruct":
			target := func() queueing.Buffer[T] {
				if len(op.Stale) == 0 {
					var z queueing.Buffer[T]
					return z
				}
				tb := queueing.NewBuffer[T]("stale."+c.Name, len(op.Stale))
				attach(&tb) // the live restore target is observed too
				for _, v := range op.Stale {
					tb.PushTyped(mk(v))
				}
				st.jsonLive++
				return tb
			}
			var fresh *queueing.Buffer[T]
			var data []byte
			var err error
			if op.K == "json" {
				data, err = json.Marshal(b)
				nb := target()
				if err == nil {
					err = json.Unmarshal(data, &nb)
				}
				fresh = &nb
			} else {
				data, err = json.Marshal(c14Wrap[T]{Pre: 7, B: *b, Post: "x"})
				nw := c14Wrap[T]{Pre: 1, B: target(), Post: "stale"}
				if err == nil {
					err = json.Unmarshal(data, &nw)
				}
				fresh = &nw.B
				res = fmt.Sprintf("pre=%d post=%q ", nw.Pre, nw.Post)
			}
			res += fmt.Sprintf("err=%v data=%s copy{%s}", err, data, observe(fresh))
			if op.Swap {
				b = fresh
				if nHooks > 0 {
					attach(b) // the observed run stays observed
				}
			}
		case "save":
			saved, _ = json.Marshal(b)
		case "load":
			if saved != nil {
				err := json.Unmarshal(saved, b)
				res = fmt.Sprintf("err=%v", err)
				if size0 > 0 {
					st.loadNonEmpty++
				}
			}
		}
		trace = append(trace, fmt.Sprintf("op %d %s(v=%d vs=%v stale=%v swap=%v) -> %s | %s | held=%+v", i, op.K, op.V, op.Vs, op.Stale, op.Swap, res, observe(b), held))
	}
	// final state: drain by Pop
	var rest []T
	for b.Size() > 0 && len(rest) <= c.Cap+8 {
		rest = append(rest, b.Pop())
	}
	trace = append(trace, fmt.Sprintf("final drain %+v | %s", rest, observe(b)))
	if nHooks == 2 && sanity == "" && len(hooks[0].events) != len(hooks[1].events) {
		sanity = fmt.Sprintf("two hooks on the same buffer saw %d and %d events", len(hooks[0].events), len(hooks[1].events))
	}
	return trace, sanity, st
}

func c33RunBuf(c c14Case, hooks int) (plain, observed []string, sanity string, st c33BufStats) {
	switch c.Typ {
	case "string":
		plain, _, _ = c33TraceBuf[string](c, 0, c14Str, "\xffS")
		observed, sanity, st = c33TraceBuf[string](c, hooks, c14Str, "\xffS")
	case "rec":
		plain, _, _ = c33TraceBuf[c14Rec](c, 0, c14MkRec, c14Rec{ID: -1})
		observed, sanity, st = c33TraceBuf[c14Rec](c, hooks, c14MkRec, c14Rec{ID: -1})
	default:
		id := func(v int) int { return v }
		plain, _, _ = c33TraceBuf[int](c, 0, id, -1)
		observed, sanity, st = c33TraceBuf[int](c, hooks, id, -1)
	}
	return
}

// ------------------------------------------------------------------ port

type c33PortCase struct {
	Hooks int     `json:"hooks"`
	H     c11Case `json:"h"`
}

type c33PortStats struct{ sends, delivers, retrieves, panics int }

func c33TracePort(c c11Case, nHooks int) (trace []string, sanity string, st c33PortStats) {
	hooks := c33Hooks(nHooks)
	comp := &c11Comp{PortOwnerBase: messaging.NewPortOwnerBase()}
	conn := &c11Conn{}
	p := messaging.NewPort(comp, c.InCap, c.OutCap, c11PortName)
	p.SetConnection(conn)
	for _, h := range hooks {
		p.AcceptHook(h)
	}
	events := func() int {
		if nHooks == 0 {
			return 0
		}
		return len(hooks[0].events)
	}
	lastEv := func() c33Ev { return hooks[0].events[len(hooks[0].events)-1] }
	// one event at the given position carrying the message, as the position's doc says
	one := func(i int, what string, ev0 int, pos *hooking.HookPos, m messaging.Msg) {
		if nHooks == 0 || sanity != "" {
			return
		}
		if events() != ev0+1 || lastEv().pos != pos || lastEv().item != fmt.Sprintf("%+v", m) {
			sanity = fmt.Sprintf("op %d %s of %+v: %d hook event(s), want exactly one %q event carrying the message", i, what, m, events()-ev0, pos.Name)
		}
	}
	nextID := uint64(1)
	mk := func(big bool, src, dst string) messaging.Msg {
		meta := messaging.MsgMeta{ID: nextID, Src: messaging.RemotePort(src), Dst: messaging.RemotePort(dst), TrafficBytes: int(nextID % 7)}
		nextID++
		if big {
			return c11BigMsg{MsgMeta: meta, Payload: int(meta.ID) * 3}
		}
		return meta
	}
	for i, op := range c.Ops {
		res := ""
		ev0 := events()
		switch op.K {
		case "send":
			full := !p.CanSend()
			if full && !op.Force {
				res = "skipped"
				break
			}
			m := mk(op.Big, c11PortName, c11Remote)
			ok, _, _ := kit.Guard(func() { p.Send(m) })
			res = fmt.Sprintf("ok=%v", ok)
			if ok {
				st.sends++
				one(i, "Send", ev0, messaging.HookPosPortMsgSend, m)
			} else {
				st.panics++
			}
		case "deliver":
			full := !p.CanDeliver()
			if full && !op.Force {
				res = "skipped"
				break
			}
			m := mk(op.Big, c11Remote, c11PortName)
			ok, _, _ := kit.Guard(func() { p.Deliver(m) })
			res = fmt.Sprintf("ok=%v", ok)
			if ok {
				st.delivers++
				one(i, "Deliver", ev0, messaging.HookPosPortMsgRecvd, m)
			} else {
				st.panics++
			}
		case "retin":
			var got messaging.Msg
			ok, _, _ := kit.Guard(func() { got = p.RetrieveIncoming() })
			res = fmt.Sprintf("ok=%v got=%+v", ok, got)
			if ok && got != nil {
				st.retrieves++
				one(i, "RetrieveIncoming", ev0, messaging.HookPosPortMsgRetrieveIncoming, got)
			}
		case "retout":
			var got messaging.Msg
			ok, _, _ := kit.Guard(func() { got = p.RetrieveOutgoing() })
			res = fmt.Sprintf("ok=%v got=%+v", ok, got)
			if ok && got != nil {
				st.retrieves++
				one(i, "RetrieveOutgoing", ev0, messaging.HookPosPortMsgRetrieveOutgoing, got)
			}
		}
		trace = append(trace, fmt.Sprintf("op %d %s force=%v -> %s | in=%d out=%d cansend=%v candeliver=%v peekin=%+v peekout=%+v | owner recv=%d free=%d conn avail=%d send=%d",
			i, op.K, op.Force, res, p.NumIncoming(), p.NumOutgoing(), p.CanSend(), p.CanDeliver(), p.PeekIncoming(), p.PeekOutgoing(), comp.recv, comp.free, conn.avail, conn.send))
	}
	var restIn, restOut []messaging.Msg
	for n := 0; n <= c.InCap+2; n++ {
		if m := p.RetrieveIncoming(); m != nil {
			restIn = append(restIn, m)
		}
	}
	for n := 0; n <= c.OutCap+2; n++ {
		if m := p.RetrieveOutgoing(); m != nil {
			restOut = append(restOut, m)
		}
	}
	trace = append(trace, fmt.Sprintf("final drain in=%+v out=%+v | owner recv=%d free=%d conn avail=%d send=%d", restIn, restOut, comp.recv, comp.free, conn.avail, conn.send))
	if nHooks == 2 && sanity == "" && len(hooks[0].events) != len(hooks[1].events) {
		sanity = fmt.Sprintf("two hooks on the same port saw %d and %d events", len(hooks[0].events), len(hooks[1].events))
	}
	return trace, sanity, st
}

// -------------------------------------------------- pipeline + Buffer sink

type c33PipeCase struct {
	Hooks int     `json:"hooks"`
	H     c15Case `json:"h"`
}

type c33PipeStats struct{ flush0, flush1, flush2plus, sinkFullTicks, pushed int }

// c33TracePipe runs a C15 history with a real queueing.Buffer (capacity =
// width, as the TLB builds it) as the pipeline's sink. A tick op first lets the
// consumer take Budget elements from the sink by Pop (-1: all); a json op is
// read as "flush": Clear on the sink and on the pipeline.
func c33TracePipe(c c15Case, nHooks int) (trace []string, st c33PipeStats) {
	hooks := c33Hooks(nHooks)
	pl := queueing.NewPipeline[int](c.Width, c.Stages)
	sink := queueing.NewBuffer[int]("sink", c.Width)
	for _, h := range hooks {
		sink.AcceptHook(h)
	}
	nextID := 1
	for i, op := range c.Ops {
		res := ""
		switch op.K {
		case "accept":
			if !pl.CanAccept() {
				res = "refused"
				break
			}
			if op.Plain {
				pl.Accept(nextID)
			} else {
				pl.AcceptWithDelay(nextID, op.Delay)
			}
			nextID++
		case "tick":
			var taken []int
			for n := 0; (op.Budget < 0 || n < op.Budget) && sink.Size() > 0; n++ {
				taken = append(taken, sink.Pop())
			}
			if !sink.CanPush() {
				st.sinkFullTicks++
			}
			size0 := sink.Size()
			var moved bool
			ok, _, _ := kit.Guard(func() { moved = pl.Tick(&sink) })
			st.pushed += sink.Size() - size0
			res = fmt.Sprintf("taken=%v ok=%v moved=%v", taken, ok, moved)
		case "json":
			switch n := sink.Size(); {
			case n == 0:
				st.flush0++
			case n == 1:
				st.flush1++
			default:
				st.flush2plus++
			}
			sink.Clear()
			if op.InStruct {
				pl.Clear()
			}
			res = "flushed"
		}
		trace = append(trace, fmt.Sprintf("op %d %s delay=%d budget=%d -> %s | stages=%+v canaccept=%v | sink size=%d can=%v peek=%d elems=%v",
			i, op.K, op.Delay, op.Budget, res, c15Snap(&pl), pl.CanAccept(), sink.Size(), sink.CanPush(), sink.Peek(), sink.Elements()))
	}
	return trace, st
}

// ------------------------------------------------------------------ test

func TestC33Primitives(t *testing.T) {
	t.Run("buffer-hooked", func(t *testing.T) {
		s := kit.Begin(t, "C33", "buffer-hooked",
			"the C14 history generator (Buffer[int|string|rec], capacity 0-6, <=40 ops: PushTyped incl. refused, Pop, Peek, UpdateFront, Clear, Elements (+mutation, held snapshot), Restore incl. refused, JSON into a zero or a live non-empty buffer (bare / in a struct), save/load into the live buffer; "+
				"peek/query ops of the C14 history are re-read as additional Clear ops so that Clear meets 0,1,2..cap elements) executed twice: on a buffer with no hook (NumHooks()==0 paths) and on one carrying 1-2 passive recording hooks (re-attached to every buffer the history continues on and to live restore targets). "+
				"Oracle: the two runs give identical observation lines after every op (call result or panic, Name, Capacity, Size, CanPush, Peek, Elements, MarshalJSON bytes (with \"elements\":null read as []), the held Elements snapshot, restored copies) and the same final drain; "+
				"hook-event sanity only where documented: an accepted PushTyped fires exactly one Buffer Push event with the element, a Pop of a non-empty buffer exactly one Buffer Pop event with the element, a refused push none, Restore none ('without firing hooks'), two hooks see equally many events; nothing is asserted about events of Clear. "+
				"Non-trivial: the observed run cleared a buffer holding >=2 elements")
		defer s.End()
		run := func(f kit.Failer, c c33BufCase) {
			plain, obs, sanity, st := c33RunBuf(c.H, c.Hooks)
			if d := c33Diff(plain, obs); d >= 0 {
				k := "final"
				if d < len(c.H.Ops) {
					k = c.H.Ops[d].K
				}
				s.Fail(f, c, "hooked-buffer-differs:"+k, "with %d hook(s) attached the buffer diverges at line %d:\n  unobserved: %s\n  observed:   %s", c.Hooks, d, c33Line(plain, d), c33Line(obs, d))
				return
			}
			if sanity != "" {
				s.Fail(f, c, "buffer-hook-events", "%s", sanity)
				return
			}
			cl := []string{fmt.Sprintf("hooks=%d", c.Hooks), "T=" + c.H.Typ}
			add := func(n int, name string) {
				if n > 0 {
					cl = append(cl, name)
				}
			}
			add(st.clear0, "clear-with-0-elements-hooked")
			add(st.clear1, "clear-with-1-element-hooked")
			add(st.clear2plus, "clear-with>=2-elements-hooked")
			add(st.restores, "restore-hooked")
			add(st.jsonLive, "json-into-hooked-live-buffer")
			add(st.loadNonEmpty, "load-into-hooked-nonempty")
			add(st.updNonEmpty, "updatefront-hooked-nonempty")
			s.Note(c, st.clear2plus > 0, cl...)
		}
		var c c33BufCase
		if ok, err := kit.LoadReplay("C33", "buffer-hooked", &c); ok {
			if err != nil {
				t.Fatal(err)
			}
			run(t, c)
			return
		} else if kit.ReplayMode() {
			t.Skip()
		}
		kit.SetChecks(2_500, 40_000)
		rapid.Check(t, func(rt *rapid.T) {
			c := c33BufCase{Hooks: rapid.IntRange(1, 2).Draw(rt, "hooks"), H: genC14(rt)}
			for i := range c.H.Ops {
				if k := c.H.Ops[i].K; k == "peek" || k == "query" {
					c.H.Ops[i].K = "clear"
				}
			}
			run(rt, c)
		})
	})

	t.Run("port-hooked", func(t *testing.T) {
		s := kit.Begin(t, "C33", "port-hooked",
			"the C11 history generator (messaging.NewPort, capacities 0-5, <=60 ops: Send, Deliver incl. forced ones on a full buffer, RetrieveIncoming/Outgoing, Peeks, queries) executed twice: port without hooks and port with 1-2 passive recording hooks (AcceptHook on the port; the hooks only record - they are called under the port lock). "+
				"Oracle: identical observation lines after every op (call result / panic / retrieved message, Num*, Can*, Peek*, and the four notification counters of the stub owner and connection) and identical final drain; hook-event sanity where the position docs say so: an accepted Send / Deliver / non-nil Retrieve fires exactly one event of its position carrying the message. "+
				"Non-trivial: the observed run had an accepted Send, Deliver and Retrieve and a refused (panicking) push")
		defer s.End()
		run := func(f kit.Failer, c c33PortCase) {
			plain, _, _ := c33TracePort(c.H, 0)
			obs, sanity, st := c33TracePort(c.H, c.Hooks)
			if d := c33Diff(plain, obs); d >= 0 {
				k := "final"
				if d < len(c.H.Ops) {
					k = c.H.Ops[d].K
				}
				s.Fail(f, c, "hooked-port-differs:"+k, "with %d hook(s) attached the port diverges at line %d:\n  unobserved: %s\n  observed:   %s", c.Hooks, d, c33Line(plain, d), c33Line(obs, d))
				return
			}
			if sanity != "" {
				s.Fail(f, c, "port-hook-events", "%s", sanity)
				return
			}
			cl := []string{fmt.Sprintf("hooks=%d", c.Hooks)}
			if st.panics > 0 {
				cl = append(cl, "refused-push-hooked")
			}
			if st.retrieves > 0 {
				cl = append(cl, "retrieve-hooked")
			}
			s.Note(c, st.sends > 0 && st.delivers > 0 && st.retrieves > 0 && st.panics > 0, cl...)
		}
		var c c33PortCase
		if ok, err := kit.LoadReplay("C33", "port-hooked", &c); ok {
			if err != nil {
				t.Fatal(err)
			}
			run(t, c)
			return
		} else if kit.ReplayMode() {
			t.Skip()
		}
		kit.SetChecks(2_000, 30_000)
		rapid.Check(t, func(rt *rapid.T) {
			run(rt, c33PortCase{Hooks: rapid.IntRange(1, 2).Draw(rt, "hooks"), H: genC11(rt)})
		})
	})

	// queueing.Pipeline is not Hookable; what can be observed is the Buffer it
	// pushes into (the TLB's BufferItems).
	t.Run("pipeline-hooked-sink", func(t *testing.T) {
		s := kit.Begin(t, "C33", "pipeline-hooked-sink",
			"the C15 history generator (Pipeline[int] width 1-4, stages 1-6, delays 0-4, <=60 ops) with a real queueing.Buffer of capacity width as the sink (as mem/vm/tlb builds it): a tick op first pops Budget elements from the sink (-1 all) and then calls Tick(&sink); a json op is read as a flush (sink.Clear, and Pipeline.Clear when in_struct); "+
				"executed twice, sink without hooks and sink with 1-2 passive hooks. Pipeline itself offers no hook positions. Oracle: identical observation lines after every op (taken elements, Tick result, Stages(), CanAccept, sink Size/CanPush/Peek/Elements). "+
				"Non-trivial: the observed sink was flushed while holding >=2 elements, or Tick met a full observed sink")
		defer s.End()
		run := func(f kit.Failer, c c33PipeCase) {
			plain, _ := c33TracePipe(c.H, 0)
			obs, st := c33TracePipe(c.H, c.Hooks)
			if d := c33Diff(plain, obs); d >= 0 {
				k := "final"
				if d < len(c.H.Ops) {
					k = c.H.Ops[d].K
				}
				if k == "json" {
					k = "flush"
				}
				s.Fail(f, c, "hooked-sink-differs:"+k, "with %d hook(s) on the sink the pipeline+sink diverge at line %d:\n  unobserved: %s\n  observed:   %s", c.Hooks, d, c33Line(plain, d), c33Line(obs, d))
				return
			}
			cl := []string{fmt.Sprintf("hooks=%d", c.Hooks)}
			add := func(n int, name string) {
				if n > 0 {
					cl = append(cl, name)
				}
			}
			add(st.flush0, "flush-with-0-elements-hooked")
			add(st.flush1, "flush-with-1-element-hooked")
			add(st.flush2plus, "flush-with>=2-elements-hooked")
			add(st.sinkFullTicks, "tick-with-full-hooked-sink")
			add(st.pushed, "pipeline-pushed-into-hooked-sink")
			s.Note(c, st.flush2plus > 0 || st.sinkFullTicks > 0, cl...)
		}
		var c c33PipeCase
		if ok, err := kit.LoadReplay("C33", "pipeline-hooked-sink", &c); ok {
			if err != nil {
				t.Fatal(err)
			}
			run(t, c)
			return
		} else if kit.ReplayMode() {
			t.Skip()
		}
		kit.SetChecks(2_000, 30_000)
		rapid.Check(t, func(rt *rapid.T) {
			h, _ := genC15(rt, false)
			// flushes are rare in the C15 op mix: also read every fifth tick as a flush
			n := 0
			for i := range h.Ops {
				if h.Ops[i].K == "tick" {
					if n++; n%5 == 0 {
						h.Ops[i].K = "json"
					}
				}
			}
			run(rt, c33PipeCase{Hooks: rapid.IntRange(1, 2).Draw(rt, "hooks"), H: h})
		})
	})
}
