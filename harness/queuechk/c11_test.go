package queuechk

import (
	"fmt"
	"runtime"
	"sync"
	"sync/atomic"
	"testing"

	"github.com/sarchlab/akita/v5/hooking"
	"github.com/sarchlab/akita/v5/messaging"
	"pgregory.net/rapid"

	"verif/harness/kit"
)

// c11Op is one step of a port history. K:
//
//	send | deliver | retin | retout | peekin | peekout | query
//
// Force: a send/deliver drawn while the buffer is full is only executed (and the
// documented panic required) when Force is set; otherwise it is skipped, as a
// well-behaved caller that checked CanSend/CanDeliver would.
type c11Op struct {
	K     string `json:"k"`
	Force bool   `json:"force,omitempty"`
	Big   bool   `json:"big,omitempty"` // use the second concrete message type
}

type c11Case struct {
	InCap  int     `json:"in_cap"`
	OutCap int     `json:"out_cap"`
	Ops    []c11Op `json:"ops"`
}

const (
	c11PortName = "Owner.Port"
	c11Remote   = "Peer.Port"
)

// c11BigMsg is a second concrete message type (value type, comparable).
type c11BigMsg struct {
	messaging.MsgMeta
	Payload int
}

// c11Comp is the stub owner: it only counts (the port calls it while holding
// its lock, so it must not call back into the port).
type c11Comp struct {
	hooking.HookableBase
	*messaging.PortOwnerBase
	recv, free     int
	lastRecvPort   messaging.Port
	lastFreePort   messaging.Port
	wrongPortCalls int
}

func (c *c11Comp) Name() string { return "Owner" }
func (c *c11Comp) NotifyRecv(p messaging.Port) {
	c.recv++
	c.lastRecvPort = p
}
func (c *c11Comp) NotifyPortFree(p messaging.Port) {
	c.free++
	c.lastFreePort = p
}

// c11Conn is the stub connection: counts only.
type c11Conn struct {
	hooking.HookableBase
	avail, send   int
	lastAvailPort messaging.Port
}

func (c *c11Conn) Name() string          { return "Conn" }
func (c *c11Conn) PlugIn(messaging.Port) {}
func (c *c11Conn) Unplug(messaging.Port) {}
func (c *c11Conn) NotifySend()           { c.send++ }
func (c *c11Conn) NotifyAvailable(p messaging.Port) {
	c.avail++
	c.lastAvailPort = p
}

func genC11(rt *rapid.T) c11Case {
	caps := []int{0, 1, 1, 2, 2, 3, 3, 4, 5}
	c := c11Case{
		InCap:  rapid.SampledFrom(caps).Draw(rt, "incap"),
		OutCap: rapid.SampledFrom(caps).Draw(rt, "outcap"),
	}
	kinds := []string{
		"send", "send", "send", "send", "deliver", "deliver", "deliver", "deliver",
		"retin", "retin", "retin", "retout", "retout", "retout", "peekin", "peekout", "query",
	}
	opGen := rapid.Custom(func(rt *rapid.T) c11Op {
		op := c11Op{K: rapid.SampledFrom(kinds).Draw(rt, "k")}
		if op.K == "send" || op.K == "deliver" {
			op.Force = rapid.IntRange(0, 3).Draw(rt, "force") == 0
			op.Big = rapid.Bool().Draw(rt, "big")
		}
		return op
	})
	minOps := rapid.SampledFrom([]int{0, 8, 20, 35}).Draw(rt, "minops")
	c.Ops = rapid.SliceOfN(opGen, minOps, 60).Draw(rt, "ops")
	return c
}

func TestC11Port(t *testing.T) {
	s := kit.Begin(t, "C11", "port",
		"history of <=60 ops on messaging.NewPort(stub owner, inCap, outCap, name) with a stub connection set (stubs only count), capacities in {0..5} weighted to 1-3; "+
			"ops Send (msg.Src = the port's own name, Dst = a different non-empty remote, as Send's validation demands), Deliver (msg.Dst = the port), RetrieveIncoming, RetrieveOutgoing, PeekIncoming, PeekOutgoing, and the "+
			"queries CanSend/CanDeliver/NumIncoming/NumOutgoing after every op; two concrete comparable message types with unique IDs. A Send/Deliver drawn while the buffer is full is skipped (the caller contract: check Can* first) except for a "+
			"drawn quarter of them, where the documented panic is required and nothing may change. Oracle: two bounded FIFO slices; after every op Num*, Can*, Peek* agree, size<=capacity; retrieves return the model front (nil when empty) by value equality; "+
			"the four positive edges: Deliver into empty incoming => owner NotifyRecv(port) count rises; RetrieveOutgoing from full outgoing => owner NotifyPortFree(port) rises; RetrieveIncoming from full incoming => connection NotifyAvailable(port) rises; "+
			"Send into empty outgoing => connection NotifySend rises. Absence of notifications is never asserted. Non-trivial: the history crossed all four edges")
	defer s.End()
	s.Assume("only the default port (messaging.NewPort) is exercised; owner and connection are non-nil (RetrieveOutgoing/Send dereference them)")

	run := func(f kit.Failer, c c11Case) {
		comp := &c11Comp{PortOwnerBase: messaging.NewPortOwnerBase()}
		conn := &c11Conn{}
		var p messaging.Port
		if ok, sig, msg := kit.Guard(func() {
			p = messaging.NewPort(comp, c.InCap, c.OutCap, c11PortName)
			p.SetConnection(conn)
		}); !ok {
			s.Fail(f, c, sig, "NewPort(%d,%d) panicked: %s", c.InCap, c.OutCap, msg)
			return
		}
		if p.Name() != c11PortName || p.AsRemote() != messaging.RemotePort(c11PortName) || p.Component() != messaging.Component(comp) {
			s.Fail(f, c, "identity", "Name=%q AsRemote=%q Component=%v", p.Name(), p.AsRemote(), p.Component())
			return
		}

		var in, out []messaging.Msg
		nextID := uint64(1)
		mk := func(big bool, src, dst string) messaging.Msg {
			meta := messaging.MsgMeta{ID: nextID, Src: messaging.RemotePort(src), Dst: messaging.RemotePort(dst), TrafficBytes: int(nextID % 7)}
			nextID++
			if big {
				return c11BigMsg{MsgMeta: meta, Payload: int(meta.ID) * 3}
			}
			return meta
		}
		front := func(q []messaging.Msg) messaging.Msg {
			if len(q) == 0 {
				return nil
			}
			return q[0]
		}

		agree := func(i int, op c11Op) bool {
			var ni, no int
			var cs, cd bool
			var pi, po messaging.Msg
			if ok, sig, msg := kit.Guard(func() {
				ni, no, cs, cd = p.NumIncoming(), p.NumOutgoing(), p.CanSend(), p.CanDeliver()
				pi, po = p.PeekIncoming(), p.PeekOutgoing()
			}); !ok {
				s.Fail(f, c, sig, "op %d %+v: query panicked: %s", i, op, msg)
				return false
			}
			switch {
			case ni != len(in):
				s.Fail(f, c, "num-incoming", "op %d %+v: NumIncoming()=%d want %d", i, op, ni, len(in))
			case no != len(out):
				s.Fail(f, c, "num-outgoing", "op %d %+v: NumOutgoing()=%d want %d", i, op, no, len(out))
			case ni > c.InCap || no > c.OutCap:
				s.Fail(f, c, "over-capacity", "op %d %+v: sizes %d/%d exceed capacities %d/%d", i, op, ni, no, c.InCap, c.OutCap)
			case cs != (len(out) < c.OutCap):
				s.Fail(f, c, "cansend", "op %d %+v: CanSend()=%v with %d/%d outgoing", i, op, cs, len(out), c.OutCap)
			case cd != (len(in) < c.InCap):
				s.Fail(f, c, "candeliver", "op %d %+v: CanDeliver()=%v with %d/%d incoming", i, op, cd, len(in), c.InCap)
			case pi != front(in):
				s.Fail(f, c, "peek-incoming", "op %d %+v: PeekIncoming()=%+v want %+v", i, op, pi, front(in))
			case po != front(out):
				s.Fail(f, c, "peek-outgoing", "op %d %+v: PeekOutgoing()=%+v want %+v", i, op, po, front(out))
			default:
				return true
			}
			return false
		}
		if !agree(-1, c11Op{K: "new"}) {
			return
		}

		var edgeRecv, edgeFree, edgeAvail, edgeSend, panicsSeen, skipped, retEmpty int
		for i, op := range c.Ops {
			recv0, free0, avail0, send0 := comp.recv, comp.free, conn.avail, conn.send
			switch op.K {
			case "send":
				full := len(out) >= c.OutCap
				if full && !op.Force {
					skipped++
					continue
				}
				m := mk(op.Big, c11PortName, c11Remote)
				ok, sig, msg := kit.Guard(func() { p.Send(m) })
				if full {
					// documented: "sending into a full outgoing buffer is a programming error and will panic"
					if ok {
						s.Fail(f, c, "send-beyond-capacity-accepted", "op %d Send with %d/%d outgoing did not panic", i, len(out), c.OutCap)
						return
					}
					panicsSeen++
					break
				}
				if !ok {
					s.Fail(f, c, sig, "op %d Send with %d/%d outgoing panicked: %s", i, len(out), c.OutCap, msg)
					return
				}
				wasEmpty := len(out) == 0
				out = append(out, m)
				if wasEmpty {
					edgeSend++
					if conn.send <= send0 {
						s.Fail(f, c, "missing-NotifySend", "op %d Send into an empty outgoing buffer (cap %d): connection NotifySend not called", i, c.OutCap)
						return
					}
				}
			case "deliver":
				full := len(in) >= c.InCap
				if full && !op.Force {
					skipped++
					continue
				}
				m := mk(op.Big, c11Remote, c11PortName)
				ok, sig, msg := kit.Guard(func() { p.Deliver(m) })
				if full {
					// documented: "delivering into a full incoming buffer is a programming error and will panic"
					if ok {
						s.Fail(f, c, "deliver-beyond-capacity-accepted", "op %d Deliver with %d/%d incoming did not panic", i, len(in), c.InCap)
						return
					}
					panicsSeen++
					break
				}
				if !ok {
					s.Fail(f, c, sig, "op %d Deliver with %d/%d incoming panicked: %s", i, len(in), c.InCap, msg)
					return
				}
				wasEmpty := len(in) == 0
				in = append(in, m)
				if wasEmpty {
					edgeRecv++
					if comp.recv <= recv0 || comp.lastRecvPort != p {
						s.Fail(f, c, "missing-NotifyRecv", "op %d Deliver into an empty incoming buffer (cap %d): owner NotifyRecv(port) not called (count %d->%d)", i, c.InCap, recv0, comp.recv)
						return
					}
				}
			case "retin":
				var got messaging.Msg
				if ok, sig, msg := kit.Guard(func() { got = p.RetrieveIncoming() }); !ok {
					s.Fail(f, c, sig, "op %d RetrieveIncoming with %d/%d panicked: %s", i, len(in), c.InCap, msg)
					return
				}
				want := front(in)
				if got != want {
					s.Fail(f, c, "incoming-order", "op %d RetrieveIncoming()=%+v want %+v", i, got, want)
					return
				}
				if want == nil {
					retEmpty++
					break
				}
				wasFull := len(in) == c.InCap
				in = in[1:]
				if wasFull {
					edgeAvail++
					if conn.avail <= avail0 || conn.lastAvailPort != p {
						s.Fail(f, c, "missing-NotifyAvailable", "op %d RetrieveIncoming from a full incoming buffer (cap %d): connection NotifyAvailable(port) not called (count %d->%d)", i, c.InCap, avail0, conn.avail)
						return
					}
				}
			case "retout":
				var got messaging.Msg
				if ok, sig, msg := kit.Guard(func() { got = p.RetrieveOutgoing() }); !ok {
					s.Fail(f, c, sig, "op %d RetrieveOutgoing with %d/%d panicked: %s", i, len(out), c.OutCap, msg)
					return
				}
				want := front(out)
				if got != want {
					s.Fail(f, c, "outgoing-order", "op %d RetrieveOutgoing()=%+v want %+v", i, got, want)
					return
				}
				if want == nil {
					retEmpty++
					break
				}
				wasFull := len(out) == c.OutCap
				out = out[1:]
				if wasFull {
					edgeFree++
					if comp.free <= free0 || comp.lastFreePort != p {
						s.Fail(f, c, "missing-NotifyPortFree", "op %d RetrieveOutgoing from a full outgoing buffer (cap %d): owner NotifyPortFree(port) not called (count %d->%d)", i, c.OutCap, free0, comp.free)
						return
					}
				}
			case "peekin", "peekout", "query":
				// compared below (peeking must not consume)
			}
			if !agree(i, op) {
				return
			}
		}

		classes := []string{fmt.Sprintf("incap=%d", c.InCap), fmt.Sprintf("outcap=%d", c.OutCap)}
		add := func(n int, cl string) {
			if n > 0 {
				classes = append(classes, cl)
			}
		}
		add(edgeRecv, "edge:empty-in+Deliver")
		add(edgeFree, "edge:full-out+RetrieveOutgoing")
		add(edgeAvail, "edge:full-in+RetrieveIncoming")
		add(edgeSend, "edge:empty-out+Send")
		add(panicsSeen, "full-push-panicked")
		add(skipped, "full-push-skipped")
		add(retEmpty, "retrieve-empty")
		if nextID > 20 {
			classes = append(classes, "msgs>=20")
		}
		s.Note(c, edgeRecv > 0 && edgeFree > 0 && edgeAvail > 0 && edgeSend > 0, classes...)
	}

	var c c11Case
	if ok, err := kit.LoadReplay("C11", "port", &c); ok {
		if err != nil {
			t.Fatal(err)
		}
		run(t, c)
		return
	} else if kit.ReplayMode() {
		t.Skip()
	}

	kit.SetChecks(30_000, 150_000)
	rapid.Check(t, func(rt *rapid.T) { c := genC11(rt); run(rt, c) })
}

// ---------------------------------------------------------------------------
// Concurrent use (parallel engine: the owner and the connection work on the
// same port from different goroutines).

type c11cCase struct {
	InCap  int `json:"in_cap"`
	OutCap int `json:"out_cap"`
	Msgs   int `json:"msgs"`
	Yield  int `json:"yield"` // the retrievers yield the processor after this many empty polls (0 = never)
}

// c11cStub counts notifications; each counter is written by exactly one
// goroutine during a run (the one that makes the port call which notifies).
type c11cStub struct {
	hooking.HookableBase
	*messaging.PortOwnerBase
	recv, free, avail, send int
}

func (c *c11cStub) Name() string                   { return "Stub" }
func (c *c11cStub) NotifyRecv(messaging.Port)      { c.recv++ }
func (c *c11cStub) NotifyPortFree(messaging.Port)  { c.free++ }
func (c *c11cStub) PlugIn(messaging.Port)          {}
func (c *c11cStub) Unplug(messaging.Port)          {}
func (c *c11cStub) NotifyAvailable(messaging.Port) { c.avail++ }
func (c *c11cStub) NotifySend()                    { c.send++ }

// c11cDir is one direction of the port driven by a pusher and a popper
// goroutine. All slices are indexed by message number 1..n.
type c11cDir struct {
	name      string
	capacity  int
	canPush   func() bool
	push      func(id uint64)
	pop       func() messaging.Msg
	pushNote  *int // notification a push into an empty buffer must raise (counted on the pusher's goroutine)
	popNote   *int // notification a pop from a full buffer must raise (counted on the popper's goroutine)
	pushNoted []bool
	fullAfter []bool // pusher saw "cannot push" after pushing k and before pushing k+1
	nilBefore []bool // popper saw an empty buffer after popping k-1 and before popping k
	popNoted  []bool
	orderErr  string
	pushDone  atomic.Bool // set when the pusher returned (normally or by panic)
}

func (d *c11cDir) pusher(n int) {
	defer d.pushDone.Store(true)
	for k := 1; k <= n; k++ {
		for !d.canPush() {
			// size == capacity at that instant and this goroutine is the only pusher
			d.fullAfter[k-1] = true
			runtime.Gosched()
		}
		before := *d.pushNote
		d.push(uint64(k))
		d.pushNoted[k] = *d.pushNote > before
	}
}

func (d *c11cDir) popper(n, yield int) {
	sawNil, polls := false, 0
	for k := 1; k <= n; {
		before := *d.popNote
		finished := d.pushDone.Load() // read before the pop: every push happened before it
		m := d.pop()
		if m == nil && finished {
			d.orderErr = fmt.Sprintf("%s: the pusher has returned and the buffer is empty, but only %d of %d messages were popped", d.name, k-1, n)
			return
		}
		if m == nil {
			sawNil = true
			polls++
			if yield > 0 && polls%yield == 0 {
				runtime.Gosched()
			}
			continue
		}
		if m.Meta().ID != uint64(k) {
			d.orderErr = fmt.Sprintf("%s: popped message %d, want %d", d.name, m.Meta().ID, k)
			return
		}
		d.nilBefore[k] = sawNil
		d.popNoted[k] = *d.popNote > before
		sawNil = false
		k++
	}
}

// TestC11PortConcurrent drives both directions of one port from four
// goroutines and judges the recorded per-goroutine observations with two
// implications that hold in every interleaving of a linearizable bounded FIFO:
//
//	(E) the popper got an empty answer after message k-1 and before message k
//	    => the buffer was empty when k was pushed => that push must have notified;
//	(F) the only pusher saw "cannot push" after pushing k => the buffer held
//	    k-cap+1..k and nothing is pushed until it frees => the pop of k-cap+1 took
//	    it from a full buffer => that pop must have notified.
//
// Nothing is concluded from timing; the poppers poll, so the run always ends.
func TestC11PortConcurrent(t *testing.T) {
	s := kit.Begin(t, "C11", "port-concurrent",
		"one messaging.NewPort port (capacities 1-5) used by four goroutines at once: owner sends n messages (spinning on CanSend), connection polls RetrieveOutgoing; connection delivers n messages (spinning on CanDeliver), owner polls RetrieveIncoming; n in 5k-40k, poppers yield every 0/1/8/64 empty polls. "+
			"Schedule-dependent search (Go scheduler interleavings only); oracle sound for every interleaving: per-direction FIFO with no loss/duplication; (E) an empty answer seen by the popper between messages k-1 and k implies the push of k hit an empty buffer, so its NotifySend / NotifyRecv must have been raised during that push; "+
			"(F) 'cannot push' seen by the single pusher after pushing k implies the pop of message k-cap+1 freed a full buffer, so its NotifyPortFree / NotifyAvailable must have been raised during that pop. Non-trivial: both implications had a true premise in both directions")
	defer s.End()
	s.Assume("explores only the interleavings the Go runtime produces; a clean run is no proof for other schedules")

	run := func(f kit.Failer, c c11cCase) {
		stub := &c11cStub{PortOwnerBase: messaging.NewPortOwnerBase()}
		p := messaging.NewPort(stub, c.InCap, c.OutCap, c11PortName)
		p.SetConnection(stub)
		n := c.Msgs
		mk := func() []bool { return make([]bool, n+2) }
		out := &c11cDir{name: "outgoing", capacity: c.OutCap, canPush: p.CanSend, pop: p.RetrieveOutgoing,
			push: func(id uint64) {
				p.Send(messaging.MsgMeta{ID: id, Src: c11PortName, Dst: c11Remote})
			},
			pushNote: &stub.send, popNote: &stub.free, pushNoted: mk(), fullAfter: mk(), nilBefore: mk(), popNoted: mk()}
		in := &c11cDir{name: "incoming", capacity: c.InCap, canPush: p.CanDeliver, pop: p.RetrieveIncoming,
			push: func(id uint64) {
				p.Deliver(messaging.MsgMeta{ID: id, Src: c11Remote, Dst: c11PortName})
			},
			pushNote: &stub.recv, popNote: &stub.avail, pushNoted: mk(), fullAfter: mk(), nilBefore: mk(), popNoted: mk()}

		var wg sync.WaitGroup
		var panics [4]string
		for i, fn := range []func(){
			func() { out.pusher(n) }, func() { out.popper(n, c.Yield) },
			func() { in.pusher(n) }, func() { in.popper(n, c.Yield) },
		} {
			wg.Add(1)
			go func(i int, fn func()) {
				defer wg.Done()
				if ok, sig, msg := kit.Guard(fn); !ok {
					panics[i] = sig + ": " + msg
				}
			}(i, fn)
		}
		wg.Wait()
		for _, pm := range panics {
			if pm != "" {
				// a panicking role can leave its partner spinning only if it is the
				// popper; poppers never panic on their own, pushers panic only when
				// the port refuses a push right after Can* said yes
				s.Fail(f, c, "concurrent-panic", "%s", pm)
				return
			}
		}

		var eEdges, fEdges [2]int
		for di, d := range []*c11cDir{out, in} {
			if d.orderErr != "" {
				s.Fail(f, c, "concurrent-order:"+d.name, "%s", d.orderErr)
				return
			}
			for k := 1; k <= n; k++ {
				if d.nilBefore[k] {
					eEdges[di]++
					if !d.pushNoted[k] {
						s.Fail(f, c, "concurrent-missing-notify-on-empty:"+d.name,
							"%s: the popper saw the buffer empty after message %d and before message %d, so message %d was pushed into an empty buffer, but that push raised no notification (cap %d, %d messages)", d.name, k-1, k, k, d.capacity, n)
						return
					}
				}
				if d.fullAfter[k] {
					j := k - d.capacity + 1
					fEdges[di]++
					if j >= 1 && !d.popNoted[j] {
						s.Fail(f, c, "concurrent-missing-notify-on-free:"+d.name,
							"%s: the pusher saw the buffer full after pushing message %d (cap %d), so the pop of message %d freed a full buffer, but that pop raised no notification", d.name, k, d.capacity, j)
						return
					}
				}
			}
		}
		classes := []string{fmt.Sprintf("incap=%d", c.InCap), fmt.Sprintf("outcap=%d", c.OutCap)}
		for di, nm := range []string{"out", "in"} {
			if eEdges[di] > 0 {
				classes = append(classes, nm+":empty-seen-then-push")
			}
			if fEdges[di] > 0 {
				classes = append(classes, nm+":full-seen-then-pop")
			}
		}
		s.AddExtra("empty_edges_judged", eEdges[0]+eEdges[1])
		s.AddExtra("full_edges_judged", fEdges[0]+fEdges[1])
		s.Note(c, eEdges[0] > 0 && eEdges[1] > 0 && fEdges[0] > 0 && fEdges[1] > 0, classes...)
	}

	var c c11cCase
	if ok, err := kit.LoadReplay("C11", "port-concurrent", &c); ok {
		if err != nil {
			t.Fatal(err)
		}
		run(t, c)
		return
	} else if kit.ReplayMode() {
		t.Skip()
	}

	kit.SetChecks(40, 400)
	rapid.Check(t, func(rt *rapid.T) {
		c := c11cCase{
			InCap:  rapid.IntRange(1, 5).Draw(rt, "incap"),
			OutCap: rapid.IntRange(1, 5).Draw(rt, "outcap"),
			Msgs:   rapid.SampledFrom([]int{5_000, 20_000, 40_000}).Draw(rt, "msgs"),
			Yield:  rapid.SampledFrom([]int{0, 1, 8, 64}).Draw(rt, "yield"),
		}
		run(rt, c)
	})
}
