package queuechk

import (
	"fmt"
	"testing"

	"github.com/sarchlab/akita/v5/hooking"
	"github.com/sarchlab/akita/v5/messaging"
	"pgregory.net/rapid"

	"verif/harness/kit"
)

// c11Op is one step of a port history. K:
//
//	send | deliver | retin | retout | peekin | peekout | query
//
// Force: a send/deliver drawn while the buffer is full is only executed (and the
// documented panic required) when Force is set; otherwise it is skipped, as a
// well-behaved caller that checked CanSend/CanDeliver would.
type c11Op struct {
	K     string `json:"k"`
	Force bool   `json:"force,omitempty"`
	Big   bool   `json:"big,omitempty"` // use the second concrete message type
}

type c11Case struct {
	InCap  int     `json:"in_cap"`
	OutCap int     `json:"out_cap"`
	Ops    []c11Op `json:"ops"`
}

const (
	c11PortName = "Owner.Port"
	c11Remote   = "Peer.Port"
)

// c11BigMsg is a second concrete message type (value type, comparable).
type c11BigMsg struct {
	messaging.MsgMeta
	Payload int
}

// c11Comp is the stub owner: it only counts (the port calls it while holding
// its lock, so it must not call back into the port).
type c11Comp struct {
	hooking.HookableBase
	*messaging.PortOwnerBase
	recv, free     int
	lastRecvPort   messaging.Port
	lastFreePort   messaging.Port
	wrongPortCalls int
}

func (c *c11Comp) Name() string { return "Owner" }
func (c *c11Comp) NotifyRecv(p messaging.Port) {
	c.recv++
	c.lastRecvPort = p
}
func (c *c11Comp) NotifyPortFree(p messaging.Port) {
	c.free++
	c.lastFreePort = p
}

// c11Conn is the stub connection: counts only.
type c11Conn struct {
	hooking.HookableBase
	avail, send   int
	lastAvailPort messaging.Port
}

func (c *c11Conn) Name() string          { return "Conn" }
func (c *c11Conn) PlugIn(messaging.Port) {}
func (c *c11Conn) Unplug(messaging.Port) {}
func (c *c11Conn) NotifySend()           { c.send++ }
func (c *c11Conn) NotifyAvailable(p messaging.Port) {
	c.avail++
	c.lastAvailPort = p
}

func genC11(rt *rapid.T) c11Case {
	caps := []int{0, 1, 1, 2, 2, 3, 3, 4, 5}
	c := c11Case{
		InCap:  rapid.SampledFrom(caps).Draw(rt, "incap"),
		OutCap: rapid.SampledFrom(caps).Draw(rt, "outcap"),
	}
	kinds := []string{
		"send", "send", "send", "send", "deliver", "deliver", "deliver", "deliver",
		"retin", "retin", "retin", "retout", "retout", "retout", "peekin", "peekout", "query",
	}
	opGen := rapid.Custom(func(rt *rapid.T) c11Op {
		op := c11Op{K: rapid.SampledFrom(kinds).Draw(rt, "k")}
		if op.K == "send" || op.K == "deliver" {
			op.Force = rapid.IntRange(0, 3).Draw(rt, "force") == 0
			op.Big = rapid.Bool().Draw(rt, "big")
		}
		return op
	})
	minOps := rapid.SampledFrom([]int{0, 8, 20, 35}).Draw(rt, "minops")
	c.Ops = rapid.SliceOfN(opGen, minOps, 60).Draw(rt, "ops")
	return c
}

func TestC11Port(t *testing.T) {
	s := kit.Begin(t, "C11", "port",
		"history of <=60 ops on messaging.NewPort(stub owner, inCap, outCap, name) with a stub connection set (stubs only count), capacities in {0..5} weighted to 1-3; "+
			"ops Send (msg.Src = the port's own name, Dst = a different non-empty remote, as Send's validation demands), Deliver (msg.Dst = the port), RetrieveIncoming, RetrieveOutgoing, PeekIncoming, PeekOutgoing, and the "+
			"queries CanSend/CanDeliver/NumIncoming/NumOutgoing after every op; two concrete comparable message types with unique IDs. A Send/Deliver drawn while the buffer is full is skipped (the caller contract: check Can* first) except for a "+
			"drawn quarter of them, where the documented panic is required and nothing may change. Oracle: two bounded FIFO slices; after every op Num*, Can*, Peek* agree, size<=capacity; retrieves return the model front (nil when empty) by value equality; "+
			"the four positive edges: Deliver into empty incoming => owner NotifyRecv(port) count rises; RetrieveOutgoing from full outgoing => owner NotifyPortFree(port) rises; RetrieveIncoming from full incoming => connection NotifyAvailable(port) rises; "+
			"Send into empty outgoing => connection NotifySend rises. Absence of notifications is never asserted. Non-trivial: the history crossed all four edges")
	defer s.End()
	s.Assume("only the default port (messaging.NewPort) is exercised; owner and connection are non-nil (RetrieveOutgoing/Send dereference them)")

	run := func(f kit.Failer, c c11Case) {
		comp := &c11Comp{PortOwnerBase: messaging.NewPortOwnerBase()}
		conn := &c11Conn{}
		var p messaging.Port
		if ok, sig, msg := kit.Guard(func() {
			p = messaging.NewPort(comp, c.InCap, c.OutCap, c11PortName)
			p.SetConnection(conn)
		}); !ok {
			s.Fail(f, c, sig, "NewPort(%d,%d) panicked: %s", c.InCap, c.OutCap, msg)
			return
		}
		if p.Name() != c11PortName || p.AsRemote() != messaging.RemotePort(c11PortName) || p.Component() != messaging.Component(comp) {
			s.Fail(f, c, "identity", "Name=%q AsRemote=%q Component=%v", p.Name(), p.AsRemote(), p.Component())
			return
		}

		var in, out []messaging.Msg
		nextID := uint64(1)
		mk := func(big bool, src, dst string) messaging.Msg {
			meta := messaging.MsgMeta{ID: nextID, Src: messaging.RemotePort(src), Dst: messaging.RemotePort(dst), TrafficBytes: int(nextID % 7)}
			nextID++
			if big {
				return c11BigMsg{MsgMeta: meta, Payload: int(meta.ID) * 3}
			}
			return meta
		}
		front := func(q []messaging.Msg) messaging.Msg {
			if len(q) == 0 {
				return nil
			}
			return q[0]
		}

		agree := func(i int, op c11Op) bool {
			var ni, no int
			var cs, cd bool
			var pi, po messaging.Msg
			if ok, sig, msg := kit.Guard(func() {
				ni, no, cs, cd = p.NumIncoming(), p.NumOutgoing(), p.CanSend(), p.CanDeliver()
				pi, po = p.PeekIncoming(), p.PeekOutgoing()
			}); !ok {
				s.Fail(f, c, sig, "op %d %+v: query panicked: %s", i, op, msg)
				return false
			}
			switch {
			case ni != len(in):
				s.Fail(f, c, "num-incoming", "op %d %+v: NumIncoming()=%d want %d", i, op, ni, len(in))
			case no != len(out):
				s.Fail(f, c, "num-outgoing", "op %d %+v: NumOutgoing()=%d want %d", i, op, no, len(out))
			case ni > c.InCap || no > c.OutCap:
				s.Fail(f, c, "over-capacity", "op %d %+v: sizes %d/%d exceed capacities %d/%d", i, op, ni, no, c.InCap, c.OutCap)
			case cs != (len(out) < c.OutCap):
				s.Fail(f, c, "cansend", "op %d %+v: CanSend()=%v with %d/%d outgoing", i, op, cs, len(out), c.OutCap)
			case cd != (len(in) < c.InCap):
				s.Fail(f, c, "candeliver", "op %d %+v: CanDeliver()=%v with %d/%d incoming", i, op, cd, len(in), c.InCap)
			case pi != front(in):
				s.Fail(f, c, "peek-incoming", "op %d %+v: PeekIncoming()=%+v want %+v", i, op, pi, front(in))
			case po != front(out):
				s.Fail(f, c, "peek-outgoing", "op %d %+v: PeekOutgoing()=%+v want %+v", i, op, po, front(out))
			default:
				return true
			}
			return false
		}
		if !agree(-1, c11Op{K: "new"}) {
			return
		}

		var edgeRecv, edgeFree, edgeAvail, edgeSend, panicsSeen, skipped, retEmpty int
		for i, op := range c.Ops {
			recv0, free0, avail0, send0 := comp.recv, comp.free, conn.avail, conn.send
			switch op.K {
			case "send":
				full := len(out) >= c.OutCap
				if full && !op.Force {
					skipped++
					continue
				}
				m := mk(op.Big, c11PortName, c11Remote)
				ok, sig, msg := kit.Guard(func() { p.Send(m) })
				if full {
					// documented: "sending into a full outgoing buffer is a programming error and will panic"
					if ok {
						s.Fail(f, c, "send-beyond-capacity-accepted", "op %d Send with %d/%d outgoing did not panic", i, len(out), c.OutCap)
						return
					}
					panicsSeen++
					break
				}
				if !ok {
					s.Fail(f, c, sig, "op %d Send with %d/%d outgoing panicked: %s", i, len(out), c.OutCap, msg)
					return
				}
				wasEmpty := len(out) == 0
				out = append(out, m)
				if wasEmpty {
					edgeSend++
					if conn.send <= send0 {
						s.Fail(f, c, "missing-NotifySend", "op %d Send into an empty outgoing buffer (cap %d): connection NotifySend not called", i, c.OutCap)
						return
					}
				}
			case "deliver":
				full := len(in) >= c.InCap
				if full && !op.Force {
					skipped++
					continue
				}
				m := mk(op.Big, c11Remote, c11PortName)
				ok, sig, msg := kit.Guard(func() { p.Deliver(m) })
				if full {
					// documented: "delivering into a full incoming buffer is a programming error and will panic"
					if ok {
						s.Fail(f, c, "deliver-beyond-capacity-accepted", "op %d Deliver with %d/%d incoming did not panic", i, len(in), c.InCap)
						return
					}
					panicsSeen++
					break
				}
				if !ok {
					s.Fail(f, c, sig, "op %d Deliver with %d/%d incoming panicked: %s", i, len(in), c.InCap, msg)
					return
				}
				wasEmpty := len(in) == 0
				in = append(in, m)
				if wasEmpty {
					edgeRecv++
					if comp.recv <= recv0 || comp.lastRecvPort != p {
						s.Fail(f, c, "missing-NotifyRecv", "op %d Deliver into an empty incoming buffer (cap %d): owner NotifyRecv(port) not called (count %d->%d)", i, c.InCap, recv0, comp.recv)
						return
					}
				}
			case "retin":
				var got messaging.Msg
				if ok, sig, msg := kit.Guard(func() { got = p.RetrieveIncoming() }); !ok {
					s.Fail(f, c, sig, "op %d RetrieveIncoming with %d/%d panicked: %s", i, len(in), c.InCap, msg)
					return
				}
				want := front(in)
				if got != want {
					s.Fail(f, c, "incoming-order", "op %d RetrieveIncoming()=%+v want %+v", i, got, want)
					return
				}
				if want == nil {
					retEmpty++
					break
				}
				wasFull := len(in) == c.InCap
				in = in[1:]
				if wasFull {
					edgeAvail++
					if conn.avail <= avail0 || conn.lastAvailPort != p {
						s.Fail(f, c, "missing-NotifyAvailable", "op %d RetrieveIncoming from a full incoming buffer (cap %d): connection NotifyAvailable(port) not called (count %d->%d)", i, c.InCap, avail0, conn.avail)
						return
					}
				}
			case "retout":
				var got messaging.Msg
				if ok, sig, msg := kit.Guard(func() { got = p.RetrieveOutgoing() }); !ok {
					s.Fail(f, c, sig, "op %d RetrieveOutgoing with %d/%d panicked: %s", i, len(out), c.OutCap, msg)
					return
				}
				want := front(out)
				if got != want {
					s.Fail(f, c, "outgoing-order", "op %d RetrieveOutgoing()=%+v want %+v", i, got, want)
					return
				}
				if want == nil {
					retEmpty++
					break
				}
				wasFull := len(out) == c.OutCap
				out = out[1:]
				if wasFull {
					edgeFree++
					if comp.free <= free0 || comp.lastFreePort != p {
						s.Fail(f, c, "missing-NotifyPortFree", "op %d RetrieveOutgoing from a full outgoing buffer (cap %d): owner NotifyPortFree(port) not called (count %d->%d)", i, c.OutCap, free0, comp.free)
						return
					}
				}
			case "peekin", "peekout", "query":
				// compared below (peeking must not consume)
			}
			if !agree(i, op) {
				return
			}
		}

		classes := []string{fmt.Sprintf("incap=%d", c.InCap), fmt.Sprintf("outcap=%d", c.OutCap)}
		add := func(n int, cl string) {
			if n > 0 {
				classes = append(classes, cl)
			}
		}
		add(edgeRecv, "edge:empty-in+Deliver")
		add(edgeFree, "edge:full-out+RetrieveOutgoing")
		add(edgeAvail, "edge:full-in+RetrieveIncoming")
		add(edgeSend, "edge:empty-out+Send")
		add(panicsSeen, "full-push-panicked")
		add(skipped, "full-push-skipped")
		add(retEmpty, "retrieve-empty")
		if nextID > 20 {
			classes = append(classes, "msgs>=20")
		}
		s.Note(c, edgeRecv > 0 && edgeFree > 0 && edgeAvail > 0 && edgeSend > 0, classes...)
	}

	var c c11Case
	if ok, err := kit.LoadReplay("C11", "port", &c); ok {
		if err != nil {
			t.Fatal(err)
		}
		run(t, c)
		return
	} else if kit.ReplayMode() {
		t.Skip()
	}

	kit.SetChecks(30_000, 150_000)
	rapid.Check(t, func(rt *rapid.T) { c := genC11(rt); run(rt, c) })
}
