package queuechk

import (
	"fmt"
	"testing"

	"github.com/sarchlab/akita/v5/hooking"
	"github.com/sarchlab/akita/v5/mem"
	"github.com/sarchlab/akita/v5/mem/vm"
	"github.com/sarchlab/akita/v5/mem/vm/tlb"
	"github.com/sarchlab/akita/v5/mem/vm/vmprotocol"
	"github.com/sarchlab/akita/v5/messaging"
	"github.com/sarchlab/akita/v5/modeling"
	"github.com/sarchlab/akita/v5/timing"
	"pgregory.net/rapid"

	"verif/harness/kit"
)

// c15tTick is what the environment does in one cycle, before the TLB ticks:
// Arrive = page indices requested at the Top port this cycle (kept in order in a
// backlog while the port is full); Drain = how many responses the requester
// takes from Top afterwards (-1 = all).
type c15tTick struct {
	Arrive []int `json:"arrive,omitempty"`
	Drain  int   `json:"drain"`
}

type c15tCase struct {
	Width    int        `json:"width"`   // NumReqPerCycle = pipeline width
	Latency  int        `json:"latency"` // pipeline stages
	Sets     int        `json:"sets"`
	Ways     int        `json:"ways"`
	MSHR     int        `json:"mshr"`
	TopBuf   int        `json:"top_buf"`
	BotBuf   int        `json:"bot_buf"`
	RspDelay int        `json:"rsp_delay"` // cycles the translation provider below takes
	Ticks    []c15tTick `json:"ticks"`
}

type c15tConn struct{ hooking.HookableBase }

func (c *c15tConn) Name() string                   { return "c15tConn" }
func (c *c15tConn) PlugIn(p messaging.Port)        { p.SetConnection(c) }
func (c *c15tConn) Unplug(messaging.Port)          {}
func (c *c15tConn) NotifyAvailable(messaging.Port) {}
func (c *c15tConn) NotifySend()                    {}

const c15tPages = 6

func genC15T(rt *rapid.T) c15tCase {
	c := c15tCase{
		Width:    rapid.IntRange(1, 4).Draw(rt, "width"),
		Latency:  rapid.IntRange(1, 6).Draw(rt, "latency"),
		Sets:     rapid.SampledFrom([]int{1, 2}).Draw(rt, "sets"),
		Ways:     rapid.SampledFrom([]int{8, 1, 2, 4}).Draw(rt, "ways"),
		MSHR:     rapid.IntRange(1, 4).Draw(rt, "mshr"),
		TopBuf:   rapid.SampledFrom([]int{8, 1, 2, 4, 16}).Draw(rt, "topbuf"),
		BotBuf:   rapid.SampledFrom([]int{4, 1, 2}).Draw(rt, "botbuf"),
		RspDelay: rapid.IntRange(0, 3).Draw(rt, "rspdelay"),
	}
	drains := []int{-1, -1, -1, 0, 1, c.Width}
	tickGen := rapid.Custom(func(t *rapid.T) c15tTick {
		tk := c15tTick{Drain: rapid.SampledFrom(drains).Draw(t, "drain")}
		// batch size: idle, a single request, or up to a bit more than the width
		n := rapid.SampledFrom([]int{0, 1, 1, c.Width, c.Width + 1, 2}).Draw(t, "batch")
		for i := 0; i < n; i++ {
			tk.Arrive = append(tk.Arrive, rapid.IntRange(0, c15tPages-1).Draw(t, "page"))
		}
		return tk
	})
	minTicks := rapid.SampledFrom([]int{0, 4, 10}).Draw(rt, "minticks")
	c.Ticks = rapid.SliceOfN(tickGen, minTicks, 24).Draw(rt, "ticks")
	return c
}

type c15tResult struct {
	Sig, Msg   string
	Classes    []string
	Nontrivial bool
}

// execC15T drives a real TLB cycle by cycle (no engine: the environment calls
// comp.Tick() itself, as mem/vm/tlb's own tests do).
func execC15T(c c15tCase) (res c15tResult) {
	timing.ResetIDGenerator()
	engine := timing.NewSerialEngine()
	reg := modeling.NewStandaloneRegistrar(engine)

	spec := tlb.DefaultSpec()
	spec.NumReqPerCycle = c.Width
	spec.Latency = c.Latency
	spec.NumSets = c.Sets
	spec.NumWays = c.Ways
	spec.MSHRSize = c.MSHR

	fail := func(sig, format string, args ...any) c15tResult {
		res.Sig, res.Msg = sig, fmt.Sprintf(format, args...)
		return res
	}

	var comp *tlb.Comp
	var top, bottom messaging.Port
	if ok, sig, msg := kit.Guard(func() {
		comp = tlb.MakeBuilder().WithRegistrar(reg).WithSpec(spec).
			WithResources(tlb.Resources{TranslationProviderMapper: &mem.SinglePortMapper{Port: "MMU.Top"}}).
			Build("TLB")
		for _, pd := range []struct {
			name string
			size int
		}{{"Top", c.TopBuf}, {"Bottom", c.BotBuf}, {"Control", 1}} {
			name := pd.name
			p := modeling.MakePortBuilder().WithRegistrar(reg).WithComponent(comp).
				WithSpec(modeling.PortSpec{BufSize: pd.size}).Build(name)
			comp.AssignPort(name, p)
			(&c15tConn{}).PlugIn(p)
		}
		top, bottom = comp.GetPortByName("Top"), comp.GetPortByName("Bottom")
	}); !ok {
		return fail(sig, "building the TLB panicked: %s", msg)
	}

	type reqInfo struct {
		page     int
		answered int
		at       int
	}
	reqs := map[uint64]*reqInfo{}
	var order []uint64
	var backlog []vmprotocol.TranslationReq
	type due struct {
		at  int
		rsp vmprotocol.TranslationRsp
	}
	var below []due // responses of the provider below, FIFO
	answeredN := 0
	seenInPipe := map[uint64]bool{}

	var laneLimited, mixedStage0, missesN, stage0Full, topBlocked, maxResident int

	deliverArrivals := func(tick int) {
		for len(backlog) > 0 && top.CanDeliver() {
			r := backlog[0]
			backlog = backlog[1:]
			reqs[r.ID] = &reqInfo{page: int(r.VAddr / 4096), at: tick}
			order = append(order, r.ID)
			top.Deliver(r)
		}
	}

	// step runs one cycle and checks it. drain = responses taken from Top (-1 all).
	step := func(tick int, arrive []int, drain int) bool {
		for _, pg := range arrive {
			r := vmprotocol.TranslationReq{VAddr: uint64(pg) * 4096, PID: 1, DeviceID: 1}
			r.ID = timing.GetIDGenerator().Generate()
			r.Src, r.Dst = "Agent.Out", top.AsRemote()
			r.TrafficClass = "vmprotocol.TranslationReq"
			backlog = append(backlog, r)
		}
		deliverArrivals(tick)
		for len(below) > 0 && below[0].at <= tick && bottom.CanDeliver() {
			bottom.Deliver(below[0].rsp)
			below = below[1:]
		}
		waiting := top.NumIncoming()

		var progress bool
		if ok, sig, msg := kit.Guard(func() { progress = comp.Tick() }); !ok {
			res = fail(sig, "cycle %d: TLB tick panicked: %s", tick, msg)
			return false
		}
		_ = progress

		// the lookup pipeline after the cycle
		stages := comp.State.Pipeline.Stages()
		seen := map[[2]int]uint64{}
		perStage := map[int]int{}
		admitted, oldAtStage0 := 0, 0
		for _, st := range stages {
			id := st.Item.Msg.ID
			if st.Lane < 0 || st.Lane >= c.Width {
				res = fail("tlb:lane-out-of-range", "cycle %d: request %d sits in lane %d of a %d-lane pipeline (stage %d); pipeline %+v", tick, id, st.Lane, c.Width, st.Stage, c15tShow(comp))
				return false
			}
			if st.Stage < 0 || st.Stage >= c.Latency {
				res = fail("tlb:stage-out-of-range", "cycle %d: request %d sits in stage %d of a %d-stage pipeline", tick, id, st.Stage, c.Latency)
				return false
			}
			k := [2]int{st.Lane, st.Stage}
			if other, dup := seen[k]; dup {
				res = fail("tlb:lane-collision", "cycle %d: requests %d and %d both occupy lane %d of stage %d; pipeline %+v", tick, other, id, st.Lane, st.Stage, c15tShow(comp))
				return false
			}
			seen[k] = id
			perStage[st.Stage]++
			if perStage[st.Stage] > c.Width {
				res = fail("tlb:stage-overfull", "cycle %d: %d requests at stage %d of a %d-lane pipeline", tick, perStage[st.Stage], st.Stage, c.Width)
				return false
			}
			if _, known := reqs[id]; !known {
				res = fail("tlb:unknown-item", "cycle %d: pipeline holds request %d that was never delivered", tick, id)
				return false
			}
			if !seenInPipe[id] {
				seenInPipe[id] = true
				admitted++
			} else if st.Stage == 0 {
				oldAtStage0++
			}
		}
		if len(stages) > maxResident {
			maxResident = len(stages)
		}
		if admitted > 0 && oldAtStage0 > 0 {
			mixedStage0++
		}
		lim := waiting
		if lim > c.Width {
			lim = c.Width
		}
		if admitted < lim && perStage[0] == c.Width {
			laneLimited++
		}
		if perStage[0] == c.Width {
			stage0Full++
		}
		if !top.CanSend() {
			topBlocked++
		}

		// the provider below: answer every fetch after RspDelay cycles
		for {
			m := bottom.RetrieveOutgoing()
			if m == nil {
				break
			}
			fr, isReq := m.(vmprotocol.TranslationReq)
			if !isReq {
				res = fail("tlb:bottom-msg", "cycle %d: TLB sent %T on Bottom", tick, m)
				return false
			}
			missesN++
			rsp := vmprotocol.TranslationRsp{Page: vm.Page{PID: fr.PID, VAddr: fr.VAddr, PAddr: fr.VAddr + 0x100000, PageSize: 4096, Valid: true, DeviceID: 1}}
			rsp.ID = timing.GetIDGenerator().Generate()
			rsp.Src, rsp.Dst = "MMU.Top", bottom.AsRemote()
			rsp.RspTo = fr.ID
			rsp.TrafficClass = "vmprotocol.TranslationRsp"
			below = append(below, due{at: tick + 1 + c.RspDelay, rsp: rsp})
		}
		// the requester: take responses from Top
		for n := 0; drain < 0 || n < drain; n++ {
			m := top.RetrieveOutgoing()
			if m == nil {
				break
			}
			rsp, isRsp := m.(vmprotocol.TranslationRsp)
			if !isRsp {
				res = fail("tlb:top-msg", "cycle %d: TLB sent %T on Top", tick, m)
				return false
			}
			ri, known := reqs[rsp.RspTo]
			if !known {
				res = fail("tlb:answer-unknown", "cycle %d: response %d answers %d, which is not a delivered request", tick, rsp.ID, rsp.RspTo)
				return false
			}
			ri.answered++
			if ri.answered > 1 {
				res = fail("tlb:answered-twice", "cycle %d: request %d (page %d) answered %d times", tick, rsp.RspTo, ri.page, ri.answered)
				return false
			}
			if !rsp.Page.Valid || rsp.Page.PID != 1 || rsp.Page.VAddr != uint64(ri.page)*4096 || rsp.Page.PAddr != uint64(ri.page)*4096+0x100000 {
				res = fail("tlb:wrong-page", "cycle %d: request %d for page %d answered with %+v", tick, rsp.RspTo, ri.page, rsp.Page)
				return false
			}
			answeredN++
		}
		return true
	}

	tick := 0
	for _, tk := range c.Ticks {
		if !step(tick, tk.Arrive, tk.Drain) {
			return res
		}
		tick++
	}
	// Run to completion with a requester that takes everything. Every request
	// needs at most latency+1 pipeline cycles, one fetch round trip and a few
	// cycles of queueing even when fully serialised; the bound is in cycles of
	// the deterministic model, not wall time.
	total := 0
	for _, tk := range c.Ticks {
		total += len(tk.Arrive)
	}
	bound := tick + (total+1)*(c.Latency+c.RspDelay+12) + 50
	for ; answeredN < total; tick++ {
		if tick > bound {
			var open []uint64
			for _, id := range order {
				if reqs[id].answered == 0 {
					open = append(open, id)
				}
			}
			return fail("tlb:never-answered", "after %d cycles (bound %d) %d of %d requests are unanswered (ids %v, backlog %d); pipeline %s, lookup buffer %d, MSHR %d",
				tick, bound, total-answeredN, total, open, len(backlog), c15tShow(comp), comp.State.BufferItems.Size(), len(comp.State.MSHREntries))
		}
		if !step(tick, nil, -1) {
			return res
		}
	}
	for _, id := range order {
		if reqs[id].answered != 1 {
			return fail("tlb:answer-count", "request %d answered %d times", id, reqs[id].answered)
		}
	}
	if n := len(comp.State.Pipeline.Stages()); n != 0 {
		return fail("tlb:residue", "all %d requests answered but the pipeline still holds %d item(s): %s", total, n, c15tShow(comp))
	}

	res.Classes = []string{fmt.Sprintf("width=%d", c.Width), fmt.Sprintf("latency=%d", c.Latency)}
	add := func(n int, cl string) {
		if n > 0 {
			res.Classes = append(res.Classes, cl)
		}
	}
	add(laneLimited, "admission-limited-by-free-lanes")
	add(mixedStage0, "new+dwelling-items-share-stage0")
	add(stage0Full, "stage0-full")
	add(missesN, "miss-fetched-below")
	add(topBlocked, "top-port-full(backpressure)")
	if maxResident > c.Width {
		res.Classes = append(res.Classes, "resident>width")
	}
	if total >= 10 {
		res.Classes = append(res.Classes, "requests>=10")
	}
	res.Nontrivial = c.Width >= 2 && (laneLimited > 0 || mixedStage0 > 0)
	return res
}

func c15tShow(comp *tlb.Comp) string {
	out := "["
	for _, st := range comp.State.Pipeline.Stages() {
		out += fmt.Sprintf("{req %d lane %d stage %d left %d}", st.Item.Msg.ID, st.Lane, st.Stage, st.CycleLeft)
	}
	return out + "]"
}

// TestC15TLBPipeline checks the lane discipline of the pipeline as the TLB
// drives it (the caller named in the property's anchors).
func TestC15TLBPipeline(t *testing.T) {
	s := kit.Begin(t, "C15", "tlb-pipeline",
		"a real mem/vm/tlb component (MakeBuilder/WithSpec, ports from modeling.MakePortBuilder, no engine: the environment calls comp.Tick() once per cycle as the package's own tests do), NumReqPerCycle = pipeline width 1-4, Latency = stages 1-6, 1-2 sets x 1-8 ways, MSHR 1-4, Top buffer 1-16, Bottom buffer 1-4; "+
			"<=24 scripted cycles, each delivering a batch of 0..width+1 TranslationReq (PID 1, page-aligned addresses of 6 pages; kept in order in a backlog while Top is full) and taking 0/1/width/all responses from Top, then cycles that take everything until all requests are answered; "+
			"a trivial provider below answers every fetch with a valid page after 1+0..3 cycles. Oracle after every cycle on comp.State.Pipeline.Stages(): lane in [0,width), stage in [0,latency), no two requests in one (lane,stage), at most width per stage, only delivered requests inside; on Top: every response answers a delivered request with its page, "+
			"none answered twice, and all answered exactly once within (requests+1)*(latency+delay+12)+50 model cycles (a deterministic cycle bound, not wall time) with an empty pipeline at the end. "+
			"Non-trivial: width>=2 and some cycle admitted new requests into a stage 0 that still held a dwelling request, or admission was cut short by the free lanes")
	defer s.End()
	s.Assume("TLB in its enabled state only (no control traffic); requests hit or miss into a provider that always answers; reads the exported State.Pipeline of the TLB")

	run := func(f kit.Failer, c c15tCase) {
		r := execC15T(c)
		if r.Sig != "" {
			s.Fail(f, c, r.Sig, "%s", r.Msg)
			return
		}
		s.Note(c, r.Nontrivial, r.Classes...)
	}

	var c c15tCase
	if ok, err := kit.LoadReplay("C15", "tlb-pipeline", &c); ok {
		if err != nil {
			t.Fatal(err)
		}
		run(t, c)
		return
	} else if kit.ReplayMode() {
		t.Skip()
	}

	kit.SetChecks(5_000, 30_000)
	rapid.Check(t, func(rt *rapid.T) { c := genC15T(rt); run(rt, c) })
}
