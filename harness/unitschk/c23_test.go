package unitschk

import (
	"bytes"
	"crypto/sha256"
	"fmt"
	"io"
	"log"
	"strings"
	"testing"

	"github.com/sarchlab/akita/v5/hooking"
	"github.com/sarchlab/akita/v5/mem"
	"github.com/sarchlab/akita/v5/mem/datamover"
	"github.com/sarchlab/akita/v5/mem/datamoverprotocol"
	"github.com/sarchlab/akita/v5/mem/idealmemcontroller"
	"github.com/sarchlab/akita/v5/mem/memprotocol"
	"github.com/sarchlab/akita/v5/messaging"
	"github.com/sarchlab/akita/v5/modeling"
	"github.com/sarchlab/akita/v5/timing"
	"pgregory.net/rapid"

	"verif/harness/kit"
)

// ---------------------------------------------------------------- case data

const (
	sideIn  = 0
	sideOut = 1
)

var sideName = []datamoverprotocol.DataMovePort{"inside", "outside"}

// c23Mem describes the memory behind one side of the mover. With Ctls == 1 it
// is one ideal controller behind a mem.SinglePortMapper. With Ctls >= 2 it is
// Ctls memory modules behind a mem.InterleavedAddressPortMapper: every module
// is an ideal controller with its own storage that spans the side's whole
// (flat) address range, as the banks of the pagemigration acceptance test do;
// module k owns the addresses a with a/Interleave%Ctls == k. The flat content
// of the side is, for every address, the byte its owning module holds there;
// the bytes a module holds at addresses it does not own are never to be touched.
type c23Mem struct {
	CapKiB     int   `json:"cap_kib"`    // size of the side's address range, 8..32 KiB
	Ctls       int   `json:"ctls"`       // memory modules: 1 (single-port mapper) or 2..4 (interleaved mapper)
	Interleave int   `json:"interleave"` // interleaving size in bytes when Ctls >= 2: a multiple of the granularity of every side the memory serves
	Latency    []int `json:"latency"`
	Width      []int `json:"width"`
	Freq       []int `json:"freq"`
	TopBuf     []int `json:"top_buf"`
}

type c23Move struct {
	SrcSide int    `json:"src_side"`
	DstSide int    `json:"dst_side"`
	Src     uint64 `json:"src"`
	Dst     uint64 `json:"dst"`
	Size    uint64 `json:"size"`
	Gap     int    `json:"gap"`     // driver cycles to wait before issuing
	Barrier bool   `json:"barrier"` // issue only after every earlier move was acknowledged
}

type c23Case struct {
	InGran  uint64 `json:"in_gran"`
	OutGran uint64 `json:"out_gran"`
	BufSize uint64 `json:"buf_size"`
	OneMem  bool   `json:"one_mem"` // inside and outside map to the same memory
	Seed    uint64 `json:"seed"`    // storage fill

	Mems []c23Mem `json:"mems"` // [inside, outside]; only Mems[0] is used when OneMem

	DMFreq     int `json:"dm_freq"`
	DMTopBuf   int `json:"dm_top_buf"`
	DMInBuf    int `json:"dm_in_buf"`
	DMOutBuf   int `json:"dm_out_buf"`
	DriverFreq int `json:"driver_freq"`
	DriverBuf  int `json:"driver_buf"`
	ConnFreq   int `json:"conn_freq"`
	Conns      int `json:"conns"`

	Moves    []c23Move `json:"moves"`
	AckStall stallList `json:"ack_stall"`

	Steered int `json:"steered,omitempty"` // moves whose size was rounded up to the destination granularity (known finding)
}

func (c *c23Case) gran(side int) uint64 {
	if side == sideIn {
		return c.InGran
	}
	return c.OutGran
}

func (c *c23Case) memOf(side int) int {
	if c.OneMem {
		return 0
	}
	return side
}

func (c *c23Case) capOf(side int) uint64 { return uint64(c.Mems[c.memOf(side)].CapKiB) * 1024 }

// owner returns the module of memory mi that owns address a.
func (c *c23Case) owner(mi int, a uint64) int {
	md := c.Mems[mi]
	if md.Ctls < 2 {
		return 0
	}
	return int(a / uint64(md.Interleave) % uint64(md.Ctls))
}

// crossings returns how many interleaving boundaries of memory mi lie strictly
// inside [a, a+n), and whether the memory is interleaved at all.
func (c *c23Case) crossings(mi int, a, n uint64) (int, bool) {
	md := c.Mems[mi]
	if md.Ctls < 2 {
		return 0, false
	}
	if n == 0 {
		return 0, true
	}
	il := uint64(md.Interleave)
	return int((a+n-1)/il - a/il), true
}

func roundUp(x, g uint64) uint64 { return (x + g - 1) / g * g }

func gcd(a, b uint64) uint64 {
	for b != 0 {
		a, b = b, a%b
	}
	return a
}

// minBuffer is the smallest BufferSize with which a move reading in s-byte
// chunks and writing in d-byte chunks can make progress: the read window
// [Offset, Offset+BufferSize) in units of s must reach the last chunk a d-byte
// write at every write offset needs (derived from readFromSrc/writeToDst).
func minBuffer(s, d uint64) uint64 {
	need := uint64(1)
	l := s / gcd(s, d) * d
	for w := uint64(0); w < l; w += d {
		span := (w+d-1)/s*s - w/s*s + 1
		if span > need {
			need = span
		}
	}
	return need
}

func overlap(a, an, b, bn uint64) bool { return a < b+bn && b < a+an && an > 0 && bn > 0 }

// ---------------------------------------------------------------- generator

var (
	pow2Grans  = []uint64{4, 8, 16, 32, 64, 128, 256}
	otherGrans = []uint64{12, 20, 24, 48, 96, 192}
)

func genGran(rt *rapid.T, label string) uint64 {
	if rapid.IntRange(0, 5).Draw(rt, label+"-odd") == 0 {
		return rapid.SampledFrom(otherGrans).Draw(rt, label)
	}
	return rapid.SampledFrom(pow2Grans).Draw(rt, label)
}

// genC23Mem draws one memory; unit is the least common multiple of the
// granularities of the sides it serves. The interleaving size is unit x
// {1,2,3,4,5,8,16} (<= 4096), so that no chunk straddles two modules and moves
// of up to 2304 bytes cross from none to hundreds of module boundaries.
func genC23Mem(rt *rapid.T, unit uint64) c23Mem {
	m := c23Mem{
		CapKiB: rapid.IntRange(8, 32).Draw(rt, "capkib"),
		Ctls:   rapid.SampledFrom([]int{1, 1, 1, 2, 2, 3, 4}).Draw(rt, "ctls"),
	}
	k := rapid.SampledFrom([]uint64{1, 1, 2, 2, 3, 4, 5, 8, 16}).Draw(rt, "interleave")
	for k > 1 && unit*k > 4096 {
		k /= 2
	}
	m.Interleave = int(unit * k)
	for i := 0; i < m.Ctls; i++ {
		m.Latency = append(m.Latency, rapid.SampledFrom([]int{0, 1, 3, 10, 25}).Draw(rt, "latency"))
		m.Width = append(m.Width, rapid.IntRange(1, 4).Draw(rt, "width"))
		m.Freq = append(m.Freq, rapid.IntRange(0, len(freqTable)-1).Draw(rt, "memfreq"))
		m.TopBuf = append(m.TopBuf, smallBuf(rt, "memtopbuf"))
	}
	return m
}

func genC23(rt *rapid.T) c23Case {
	c := c23Case{
		InGran:     genGran(rt, "ingran"),
		OutGran:    genGran(rt, "outgran"),
		OneMem:     rapid.IntRange(0, 3).Draw(rt, "onemem") == 0,
		Seed:       rapid.Uint64().Draw(rt, "seed"),
		DMFreq:     rapid.IntRange(0, len(freqTable)-1).Draw(rt, "dmfreq"),
		DMTopBuf:   smallBuf(rt, "dmtopbuf"),
		DMInBuf:    smallBuf(rt, "dminbuf"),
		DMOutBuf:   smallBuf(rt, "dmoutbuf"),
		DriverFreq: rapid.IntRange(0, len(freqTable)-1).Draw(rt, "drvfreq"),
		DriverBuf:  smallBuf(rt, "drvbuf"),
		ConnFreq:   rapid.IntRange(0, len(freqTable)-1).Draw(rt, "connfreq"),
		Conns:      rapid.IntRange(1, 2).Draw(rt, "conns"),
		AckStall:   genStalls(rt, "ackstall"),
	}
	if rapid.IntRange(0, 3).Draw(rt, "samegran") == 0 {
		c.OutGran = c.InGran
	}
	if c.OneMem {
		l := c.InGran / gcd(c.InGran, c.OutGran) * c.OutGran
		c.Mems = []c23Mem{genC23Mem(rt, l), genC23Mem(rt, l)}
	} else {
		c.Mems = []c23Mem{genC23Mem(rt, c.InGran), genC23Mem(rt, c.OutGran)}
	}

	// buffer size: {4..256} (powers of two or any integer), a few larger ones,
	// exactly the smallest size with which a write window fills, or below it
	// (the builder accepts any size; the mover must still finish every move).
	switch rapid.IntRange(0, 4).Draw(rt, "bufclass") {
	case 0:
		c.BufSize = rapid.SampledFrom(pow2Grans).Draw(rt, "buf")
	case 1:
		c.BufSize = uint64(rapid.IntRange(4, 256).Draw(rt, "buf"))
	case 2:
		c.BufSize = rapid.SampledFrom([]uint64{512, 1024, 4096}).Draw(rt, "buf")
	case 3: // exactly the minimum
		c.BufSize = 0
		for _, p := range [][2]uint64{{c.InGran, c.OutGran}, {c.OutGran, c.InGran}} {
			if mb := minBuffer(p[0], p[1]); c.BufSize < mb {
				c.BufSize = mb
			}
		}
	default: // anything from 0 up, usually below the minimum
		c.BufSize = uint64(rapid.IntRange(0, 16).Draw(rt, "smallbuf"))
	}

	n := rapid.IntRange(1, 5).Draw(rt, "moves")
	for k := 0; k < n; k++ {
		c.Moves = append(c.Moves, genC23Move(rt, &c))
	}
	return c
}

func genC23Move(rt *rapid.T, c *c23Case) c23Move {
	m := c23Move{
		SrcSide: rapid.IntRange(0, 1).Draw(rt, "srcside"),
		DstSide: rapid.IntRange(0, 1).Draw(rt, "dstside"),
		Barrier: rapid.IntRange(0, 4).Draw(rt, "barrier") == 0,
	}
	if rapid.IntRange(0, 3).Draw(rt, "gapon") == 0 {
		m.Gap = rapid.IntRange(1, 40).Draw(rt, "gap")
	}
	s, d := c.gran(m.SrcSide), c.gran(m.DstSide)

	// size: any byte count (2 in 10), otherwise a multiple of both
	// granularities.
	l := s / gcd(s, d) * d
	switch rapid.IntRange(0, 9).Draw(rt, "sizeclass") {
	case 0:
		m.Size = 0
	case 1, 2: // arbitrary byte count
		m.Size = uint64(rapid.IntRange(1, 2048).Draw(rt, "size"))
	case 4: // around the buffer size
		m.Size = roundUp(c.BufSize, l) + uint64(rapid.IntRange(0, 2).Draw(rt, "sizeb"))*l
	default:
		m.Size = l * uint64(rapid.IntRange(1, int(2048/l)+1).Draw(rt, "sizek"))
	}
	if m.Size > 2304 {
		m.Size = l
		if 2304/l > 0 {
			m.Size = 2304 / l * l
		}
	}

	srcCap, dstCap := c.capOf(m.SrcSide), c.capOf(m.DstSide)
	srcLen := m.Size
	place := func(cap, length, g uint64, label string) uint64 {
		maxStart := (cap - length) / g * g
		switch rapid.IntRange(0, 5).Draw(rt, label+"-class") {
		case 0:
			return 0
		case 1:
			return maxStart // ends at (or within one granule of) the capacity
		default:
			return uint64(rapid.IntRange(0, int(maxStart/g)).Draw(rt, label)) * g
		}
	}
	valid := func() bool {
		if c.memOf(m.SrcSide) == c.memOf(m.DstSide) && overlap(m.Src, srcLen, m.Dst, m.Size) {
			return false
		}
		if m.Barrier {
			return true
		}
		// The source must not be the destination of an earlier move that may
		// still be running when this one is issued (the snapshot is taken at
		// issue time).
		for j := len(c.Moves) - 1; j >= 0; j-- {
			e := c.Moves[j]
			if c.memOf(e.DstSide) == c.memOf(m.SrcSide) && overlap(m.Src, srcLen, e.Dst, e.Size) {
				return false
			}
			if e.Barrier {
				break
			}
		}
		return true
	}
	for try := 0; try < 8; try++ {
		m.Src = place(srcCap, srcLen, s, "src")
		m.Dst = place(dstCap, m.Size, d, "dst")
		if valid() {
			return m
		}
	}
	// fall back to a placement that is valid by construction
	m.Barrier = true
	m.Src = 0
	m.Dst = roundUp(dstCap/2, d)
	if rapid.Bool().Draw(rt, "swap") && c.memOf(m.SrcSide) == c.memOf(m.DstSide) {
		m.Src, m.Dst = roundUp(srcCap/2, s), 0
	}
	return m
}

// ---------------------------------------------------------------- execution + oracle

type c23Stats struct {
	acks           int
	windows        int // max over moves of ceil(size / BufferSize)
	granDiffer     bool
	multiWindow    bool
	sameMemMove    bool
	sameSideMove   bool
	queued         bool // a request was issued while another was outstanding
	inToOut        bool
	outToIn        bool
	changedAtPanic bool
	zeroSize       bool
	atEnd          bool
	oddGran        bool
	interleaved    bool
	dstInterleaved bool    // a non-empty move writes to a side with >= 2 modules
	srcInterleaved bool    // a non-empty move reads from a side with >= 2 modules
	dstCross       [5]bool // some move's destination range crosses 0 / 1 / 2 / 3-7 / >= 8 interleaving boundaries
	srcCross       [5]bool // same for the source range
	dstWrap        bool    // a destination range crosses at least as many boundaries as there are modules (reaches every module, the first one twice)
	srcWrap        bool
	bothCross      bool // one move crosses boundaries on both of its sides
	memReqs        int
	maxInflight    int // memory requests of the mover in flight at once
}

type c23Fail struct {
	sig, msg string
}

// c23Exec runs one case against the real components and returns the first
// violation found ("" when there is none).
func c23Exec(c c23Case, rec *fpRec) (sig, msg string, st c23Stats) {
	timing.ResetIDGenerator()
	log.SetOutput(io.Discard) // the alignment panic goes through log.Panicf
	engine := timing.NewSerialEngine()
	engine.AcceptHook(&eventBudget{max: 5_000_000})
	reg := modeling.NewStandaloneRegistrar(engine)

	var fail *c23Fail
	setFail := func(sig, format string, args ...any) {
		if fail == nil {
			fail = &c23Fail{sig: sig, msg: fmt.Sprintf(format, args...)}
		}
	}

	// memories
	nMem := 2
	if c.OneMem {
		nMem = 1
	}
	storages := make([][]*mem.Storage, nMem) // [memory][module]
	model := make([][][]byte, nMem)          // expected complete content of every module
	mappers := make([]mem.AddressToPortMapper, nMem)
	var memPorts []messaging.Port
	var memCtls []*idealmemcontroller.Comp
	for i := 0; i < nMem; i++ {
		md := c.Mems[i]
		capacity := uint64(md.CapKiB) * 1024
		var tops []messaging.RemotePort
		for k := 0; k < md.Ctls; k++ {
			// every module has its own storage over the side's flat address
			// range, filled differently from its siblings: a request routed
			// to the wrong module reads or changes bytes that are not the
			// side's content at that address.
			storage := mem.NewStorage(capacity)
			content := fillBytes(int(capacity), c.Seed+uint64(i)*0x51ed27+uint64(k)*0x9e3779b97f4a7c15)
			if err := storage.Write(0, content); err != nil {
				return "harness", err.Error(), st
			}
			storages[i] = append(storages[i], storage)
			model[i] = append(model[i], content)

			spec := idealmemcontroller.DefaultSpec()
			spec.Freq = freqOf(md.Freq[k])
			spec.Latency = md.Latency[k]
			spec.Width = md.Width[k]
			spec.Capacity = capacity
			ctl := idealmemcontroller.MakeBuilder().
				WithRegistrar(reg).
				WithSpec(spec).
				WithResources(idealmemcontroller.Resources{Storage: storage}).
				Build(fmt.Sprintf("Mem%dCtl%d", i, k))
			memCtls = append(memCtls, ctl)
			top := assignPort(reg, ctl, "Top", md.TopBuf[k])
			memPorts = append(memPorts, top, assignPort(reg, ctl, "Control", 1))
			tops = append(tops, top.AsRemote())
		}
		if md.Ctls == 1 {
			mappers[i] = &mem.SinglePortMapper{Port: tops[0]}
		} else {
			im := mem.NewInterleavedAddressPortMapper(uint64(md.Interleave))
			im.LowModules = tops
			mappers[i] = im
			st.interleaved = true
		}
	}
	// flatRead returns the side's content of [addr, addr+size): every byte
	// from the module that owns its address.
	flatRead := func(mi int, addr, size uint64) ([]byte, error) {
		out := make([]byte, 0, size)
		for a := addr; a < addr+size; {
			n := addr + size - a
			if md := c.Mems[mi]; md.Ctls >= 2 {
				if left := uint64(md.Interleave) - a%uint64(md.Interleave); left < n {
					n = left
				}
			}
			b, err := storages[mi][c.owner(mi, a)].Read(a, n)
			if err != nil {
				return nil, err
			}
			out = append(out, b...)
			a += n
		}
		return out, nil
	}

	// data mover
	spec := datamover.DefaultSpec()
	spec.Freq = freqOf(c.DMFreq)
	spec.BufferSize = c.BufSize
	spec.InsideByteGranularity = c.InGran
	spec.OutsideByteGranularity = c.OutGran
	dm := datamover.MakeBuilder().
		WithRegistrar(reg).
		WithSpec(spec).
		WithResources(datamover.Resources{
			InsideMapper:  mappers[c.memOf(sideIn)],
			OutsideMapper: mappers[c.memOf(sideOut)],
		}).
		Build("DM")
	dmTop := assignPort(reg, dm, "Top", c.DMTopBuf)
	dmIn := assignPort(reg, dm, "Inside", c.DMInBuf)
	dmOut := assignPort(reg, dm, "Outside", c.DMOutBuf)
	dmCtrl := assignPort(reg, dm, "Control", 1)

	// driver
	drv, drvPort := newHComp(reg, "Driver", freqOf(c.DriverFreq), c.DriverBuf)
	var (
		issuedIDs []uint64
		snapshots [][]byte
		got       []messaging.Msg
		next      int
		gapLeft   int
		recvStall = c.AckStall.at(0)
	)
	if len(c.Moves) > 0 {
		gapLeft = c.Moves[0].Gap
	}
	setTick(drv, func() bool {
		progress := false
		if m := drvPort.PeekIncoming(); m != nil {
			if recvStall > 0 {
				recvStall--
			} else {
				drvPort.RetrieveIncoming()
				got = append(got, m)
				recvStall = c.AckStall.at(len(got))
			}
			progress = true
		}
		if next < len(c.Moves) {
			mv := c.Moves[next]
			switch {
			case mv.Barrier && len(got) < next:
				// woken by the next acknowledgement
			case gapLeft > 0:
				gapLeft--
				progress = true
			case drvPort.CanSend():
				req := datamoverprotocol.DataMoveRequest{
					SrcAddress: mv.Src, DstAddress: mv.Dst, ByteSize: mv.Size,
					SrcSide: sideName[mv.SrcSide], DstSide: sideName[mv.DstSide],
				}
				req.ID = timing.GetIDGenerator().Generate()
				req.Src = drvPort.AsRemote()
				req.Dst = dmTop.AsRemote()
				req.TrafficClass = "datamoverprotocol.DataMoveRequest"
				snap, err := flatRead(c.memOf(mv.SrcSide), mv.Src, mv.Size)
				if err != nil {
					setFail("harness", "snapshot: %v", err)
				}
				if len(got) < next {
					st.queued = true
				}
				snapshots = append(snapshots, snap)
				issuedIDs = append(issuedIDs, req.ID)
				drvPort.Send(req)
				next++
				if next < len(c.Moves) {
					gapLeft = c.Moves[next].Gap
				}
				progress = true
			}
		}
		return progress
	})

	// connections
	connA := newConn(reg, "ConnA", freqOf(c.ConnFreq))
	connB := connA
	if c.Conns == 2 {
		connB = newConn(reg, "ConnB", freqOf(c.ConnFreq+2))
	}
	connA.PlugIn(drvPort)
	connA.PlugIn(dmTop)
	connA.PlugIn(dmCtrl)
	connB.PlugIn(dmIn)
	connB.PlugIn(dmOut)
	for _, p := range memPorts {
		connB.PlugIn(p)
	}

	// observation: the mover's Top port (request taken / acknowledgement sent)
	// and its memory-side ports (reads and writes leaving).
	taken, acks, active := 0, 0, false
	checkStorages := func(when string, cur int) {
		for i := range storages {
			for k := range storages[i] {
				actual, err := storages[i][k].Read(0, uint64(len(model[i][k])))
				if err != nil {
					setFail("harness", "storage read: %v", err)
					return
				}
				if bytes.Equal(actual, model[i][k]) {
					continue
				}
				at := 0
				for actual[at] == model[i][k][at] {
					at++
				}
				kind := "outside-dst-changed"
				what := fmt.Sprintf("%s: memory %d byte %#x is %#02x, expected %#02x", when, i, at, actual[at], model[i][k][at])
				if len(storages[i]) > 1 {
					what = fmt.Sprintf("%s: memory %d module %d of %d (interleaving %d, address owned by module %d) byte %#x is %#02x, expected %#02x",
						when, i, k, len(storages[i]), c.Mems[i].Interleave, c.owner(i, uint64(at)), at, actual[at], model[i][k][at])
				}
				if cur >= 0 && cur < len(c.Moves) {
					mv := c.Moves[cur]
					if i == c.memOf(mv.DstSide) && k == c.owner(i, uint64(at)) && uint64(at) >= mv.Dst && uint64(at) < mv.Dst+mv.Size {
						kind = "dst-mismatch"
					}
					what += fmt.Sprintf(" (move %d: %+v, source snapshot byte %d)", cur, mv, int64(at)-int64(mv.Dst))
				}
				setFail(kind, "%s", what)
				copy(model[i][k], actual) // judge later acknowledgements relative to what is there now
				return
			}
		}
	}
	onHook(dmTop, func(ctx hooking.HookCtx) {
		switch ctx.Pos {
		case messaging.HookPosPortMsgRetrieveIncoming:
			if active {
				setFail("started-before-previous-ack", "request #%d taken from Top while move #%d is not yet acknowledged", taken, taken-1)
			}
			active = true
			taken++
		case messaging.HookPosPortMsgSend:
			rsp, isRsp := ctx.Item.(datamoverprotocol.DataMoveResponse)
			if !isRsp {
				setFail("ack-type", "mover sent %T on Top", ctx.Item)
				return
			}
			k := acks
			acks++
			if !active || k >= taken {
				setFail("ack-without-move", "acknowledgement #%d sent while no move is in progress (%d taken)", k, taken)
				return
			}
			active = false
			if k >= len(issuedIDs) || rsp.RspTo != issuedIDs[k] {
				setFail("ack-rspto", "acknowledgement #%d has RspTo %d; requests were issued with ids %v", k, rsp.RspTo, issuedIDs)
				return
			}
			if rsp.Dst != drvPort.AsRemote() {
				setFail("ack-dst", "acknowledgement #%d sent to %q", k, rsp.Dst)
				return
			}
			mv := c.Moves[k]
			for di, o := c.memOf(mv.DstSide), uint64(0); o < mv.Size; o++ {
				model[di][c.owner(di, mv.Dst+o)][mv.Dst+o] = snapshots[k][o]
			}
			checkStorages(fmt.Sprintf("at acknowledgement #%d", k), k)
		}
	})
	inflight := 0
	memSide := func(ctx hooking.HookCtx) {
		if ctx.Pos == messaging.HookPosPortMsgRecvd {
			inflight--
		}
		if ctx.Pos != messaging.HookPosPortMsgSend {
			return
		}
		st.memReqs++
		inflight++
		if inflight > st.maxInflight {
			st.maxInflight = inflight
		}
		if !active {
			var a uint64
			if ar, ok := ctx.Item.(memprotocol.AccessReq); ok {
				a = ar.GetAddress()
			}
			setFail("memory-access-outside-a-move", "%T for address %#x sent after acknowledgement #%d and before the next request was taken", ctx.Item, a, acks-1)
		}
	}
	onHook(dmIn, memSide)
	onHook(dmOut, memSide)

	if rec != nil {
		rec.attach(engine, append([]messaging.Port{dmTop, dmIn, dmOut, dmCtrl, drvPort}, memPorts...))
	}
	defer func() {
		if rec == nil {
			return
		}
		rec.addFinal("component", dm.Name(), dm.State)
		rec.addFinal("component", drv.Name(), drv.State)
		for _, ctl := range memCtls {
			rec.addFinal("component", ctl.Name(), ctl.State)
		}
		rec.addFinal("connection", connA.Name(), connA.State)
		if connB != connA {
			rec.addFinal("connection", connB.Name(), connB.State)
		}
		for i := range storages {
			for k := range storages[i] {
				b, _ := storages[i][k].Read(0, uint64(len(model[i][k])))
				rec.addFinal("storage", fmt.Sprintf("Storage%d.%d", i, k), fmt.Sprintf("%x", sha256.Sum256(b)))
			}
		}
		rec.finish()
	}()

	drv.TickLater()
	if ok, psig, pmsg := kit.Guard(func() { _ = engine.Run() }); !ok {
		if fail != nil {
			return fail.sig, fail.msg + "; then " + firstLineOf(pmsg), st
		}
		for i := range storages {
			for k := range storages[i] {
				actual, _ := storages[i][k].Read(0, uint64(len(model[i][k])))
				st.changedAtPanic = st.changedAtPanic || !bytes.Equal(actual, model[i][k])
			}
		}
		return normSig(psig), pmsg, st
	}

	// ---------------- judge
	st.acks = acks
	if fail == nil {
		switch {
		case next != len(c.Moves):
			setFail("no-ack", "driver issued %d of %d requests; %d acknowledged when the simulation went idle", next, len(c.Moves), acks)
		case acks != len(c.Moves):
			tr := dm.State.CurrentTransaction
			setFail("no-ack", "%d requests issued, %d acknowledged when the simulation went idle (mover active=%v next read %#x next write %#x, %d reads / %d writes pending)",
				len(c.Moves), acks, tr.Active, tr.NextReadAddr, tr.NextWriteAddr, len(tr.PendingRead), len(tr.PendingWrite))
		case len(got) != acks:
			setFail("ack-delivery", "%d acknowledgements sent, %d received by the requester", acks, len(got))
		}
	}
	if fail == nil {
		for k, m := range got {
			if m.Meta().RspTo != issuedIDs[k] {
				setFail("ack-order", "requester received RspTo %d at position %d, issued ids %v", m.Meta().RspTo, k, issuedIDs)
				break
			}
		}
	}
	if fail == nil {
		checkStorages("after Run returned", -1)
	}
	if fail == nil {
		if dm.State.CurrentTransaction.Active {
			setFail("leftover", "mover still has an active transaction after Run returned")
		}
		for _, p := range append([]messaging.Port{dmTop, dmIn, dmOut, drvPort}, memPorts...) {
			if p.NumIncoming() != 0 || p.NumOutgoing() != 0 {
				setFail("leftover", "port %s holds %d incoming / %d outgoing messages after Run returned", p.Name(), p.NumIncoming(), p.NumOutgoing())
			}
		}
	}

	for _, mv := range c.Moves {
		s, d := c.gran(mv.SrcSide), c.gran(mv.DstSide)
		w := int(mv.Size)
		if c.BufSize > 0 {
			w = int((mv.Size + c.BufSize - 1) / c.BufSize)
		}
		if w > st.windows {
			st.windows = w
		}
		if s != d && mv.Size > 0 {
			st.granDiffer = true
			if w > 1 {
				st.multiWindow = true
			}
		}
		st.sameMemMove = st.sameMemMove || c.memOf(mv.SrcSide) == c.memOf(mv.DstSide)
		st.sameSideMove = st.sameSideMove || mv.SrcSide == mv.DstSide
		st.zeroSize = st.zeroSize || mv.Size == 0
		st.inToOut = st.inToOut || (mv.SrcSide == sideIn && mv.DstSide == sideOut)
		st.outToIn = st.outToIn || (mv.SrcSide == sideOut && mv.DstSide == sideIn)
		st.atEnd = st.atEnd || (mv.Size > 0 && (mv.Dst+mv.Size == c.capOf(mv.DstSide) || mv.Src+mv.Size == c.capOf(mv.SrcSide)))
		st.oddGran = st.oddGran || s&(s-1) != 0 || d&(d-1) != 0
		if mv.Size > 0 {
			dk, dil := c.crossings(c.memOf(mv.DstSide), mv.Dst, mv.Size)
			sk, sil := c.crossings(c.memOf(mv.SrcSide), mv.Src, mv.Size)
			if dil {
				st.dstInterleaved = true
				st.dstCross[crossBucket(dk)] = true
				st.dstWrap = st.dstWrap || dk >= c.Mems[c.memOf(mv.DstSide)].Ctls
			}
			if sil {
				st.srcInterleaved = true
				st.srcCross[crossBucket(sk)] = true
				st.srcWrap = st.srcWrap || sk >= c.Mems[c.memOf(mv.SrcSide)].Ctls
			}
			st.bothCross = st.bothCross || (dk > 0 && sk > 0)
		}
	}
	if fail != nil {
		return fail.sig, fail.msg, st
	}
	return "", "", st
}

var crossBucketName = [5]string{"0", "1", "2", "3-7", ">=8"}

func crossBucket(k int) int {
	switch {
	case k <= 2:
		return k
	case k < 8:
		return 3
	default:
		return 4
	}
}

// c23InputClass names the input class of a failing case for the signature:
// the two classes with listed findings come first.
func c23InputClass(c c23Case) string {
	for _, p := range [][2]uint64{{c.InGran, c.OutGran}, {c.OutGran, c.InGran}} {
		if c.BufSize < minBuffer(p[0], p[1]) {
			return "buffer<write-window:"
		}
	}
	for _, mv := range c.Moves {
		if mv.Size%c.gran(mv.DstSide) != 0 {
			return "size%dstGran!=0:"
		}
	}
	for _, mv := range c.Moves {
		if mv.Size%c.gran(mv.SrcSide) != 0 {
			return "size%srcGran!=0:"
		}
	}
	return ""
}

func TestC23(t *testing.T) {
	s := kit.Begin(t, "C23", "datamover",
		"real datamover.Comp between ideal memory controllers: inside/outside address ranges of 8-32 KiB (or one memory serving both sides); each side is either one controller behind "+
			"a mem.SinglePortMapper or 2-4 memory modules behind a mem.InterleavedAddressPortMapper (interleaving size = the side's granularity (lcm of both when one memory serves both) x {1,2,3,4,5,8,16}, <= 4096), "+
			"every module an ideal controller with its own storage over the flat address range, pre-filled with its own generated bytes (latency 0-25, width 1-4, own clocks); "+
			"the side's reference content is, per address, the byte held by the module that owns the address; inside/outside granularity from {4..256 powers of two} "+
			"(1 in 6: 12,20,24,48,96,100,192); BufferSize from {4..256 powers of two | any 4..256 | 512,1024,4096 | the smallest size that lets a write window fill | 0..16 (usually below it)}; port buffers 1-8; 1-5 moves from one scripted requester (gaps, optional wait-for-all-acks barrier, ack receive stalls): every side pair, addresses aligned "+
			"to the side's granularity (start 0 / end of storage / anywhere), size 0, any byte count (not a multiple of either granularity), multiples of both granularities, around the buffer size "+
			"(<= 2304 B); source never overlaps the destination of the same move or of an earlier move that can still be running. Oracle at every acknowledgement (Top send hook): the storages of all modules of both sides, read in full (including the addresses a module does not own), equal the model in "+
			"which exactly the destination range, in the owning modules, was replaced by the flat source snapshot taken at issue; RspTo/Dst/ack order; no request taken and no memory access sent between an "+
			"acknowledgement and the next take; everything acknowledged and idle when Run returns. Non-trivial: some move has different source/destination granularities and is larger than BufferSize")
	defer s.End()
	s.Assume("ideal memory controllers and mem.Storage (inside capacity) are trusted; acknowledgement time = Send on the mover's Top port; interleaved sides are wired as in mem/acceptancetests/pagemigration and the datamover's own tests: every module stores at the flat address (no address converter), the interleaving size is a multiple of the side's granularity")

	run := func(f kit.Failer, c c23Case) {
		s.Excluded(c.Steered)
		sig, msg, st := c23Exec(c, nil)
		if sig != "" {
			s.Fail(f, c, c23InputClass(c)+sig, "%s", msg)
			return
		}
		cls := []string{}
		add := func(b bool, name string) {
			if b {
				cls = append(cls, name)
			}
		}
		add(st.granDiffer, "granularities-differ")
		add(st.windows > 1, "multi-window")
		add(st.windows > 8, "windows>8")
		add(st.sameMemMove, "same-memory-move")
		add(st.sameSideMove, "same-side-move")
		add(st.inToOut, "inside->outside")
		add(st.outToIn, "outside->inside")
		add(c.OneMem, "one-memory-both-sides")
		add(st.queued, "queued-requests")
		add(st.zeroSize, "zero-size")
		add(st.atEnd, "range-ends-at-capacity")
		add(st.oddGran, "non-power-of-two-granularity")
		add(st.interleaved, "interleaved-modules")
		add(st.dstInterleaved, "dst-interleaved")
		add(st.srcInterleaved, "src-interleaved")
		for b, name := range crossBucketName {
			add(st.dstCross[b], "move-crosses-"+name+"-dst-boundaries")
			add(st.srcCross[b], "move-crosses-"+name+"-src-boundaries")
		}
		add(st.dstWrap, "dst-range-reaches-every-module")
		add(st.srcWrap, "src-range-reaches-every-module")
		add(st.bothCross, "move-crosses-boundaries-on-both-sides")
		add(len(c.Moves) >= 3, "moves>=3")
		add(c.BufSize < c.InGran || c.BufSize < c.OutGran, "buffer<granularity")
		belowWindow, offDst, offSrc := false, false, false
		for _, p := range [][2]uint64{{c.InGran, c.OutGran}, {c.OutGran, c.InGran}} {
			belowWindow = belowWindow || c.BufSize < minBuffer(p[0], p[1])
		}
		for _, mv := range c.Moves {
			offDst = offDst || mv.Size%c.gran(mv.DstSide) != 0
			offSrc = offSrc || mv.Size%c.gran(mv.SrcSide) != 0
		}
		add(belowWindow, "buffer-below-write-window")
		add(offDst, "size-not-multiple-of-dst-granularity")
		add(offSrc, "size-not-multiple-of-src-granularity")
		s.Note(c, st.multiWindow, cls...)
	}

	var c c23Case
	if ok, err := kit.LoadReplay("C23", "datamover", &c); ok {
		if err != nil {
			t.Fatal(err)
		}
		run(t, c)
		return
	} else if kit.ReplayMode() {
		t.Skip()
	}

	kit.SetChecks(3_000, 25_000)
	rapid.Check(t, func(rt *rapid.T) { c := genC23(rt); run(rt, c) })
}

// TestC23Misaligned asserts the documented rejection: a source or destination
// address that is not a multiple of its side's granularity panics with
// "address A must be aligned to G" (addressMustBeAligned in parseFromCP) and
// nothing is written.
func TestC23Misaligned(t *testing.T) {
	s := kit.Begin(t, "C23", "misaligned",
		"as the main generator with one move whose source or destination address is moved off its granularity by 1..g-1 bytes; "+
			"the documented panic 'address A must be aligned to G' must occur and no byte may change. Non-trivial: the misaligned address is the destination (checked second)")
	defer s.End()

	run := func(f kit.Failer, c c23Case) {
		sig, msg, st := c23Exec(c, nil)
		mv := c.Moves[0]
		if strings.HasPrefix(sig, "panic:") && strings.Contains(msg, "must be aligned to") && st.changedAtPanic {
			s.Fail(f, c, "misaligned-modified-memory", "move %+v was rejected but memory changed", mv)
			return
		}
		if !strings.HasPrefix(sig, "panic:") || !strings.Contains(msg, "must be aligned to") {
			s.Fail(f, c, "misaligned-accepted", "move %+v with granularities in=%d out=%d was not rejected by the documented panic: sig=%q %s", mv, c.InGran, c.OutGran, sig, firstLineOf(msg))
			return
		}
		dstBad := mv.Dst%c.gran(mv.DstSide) != 0
		s.Note(c, dstBad && mv.Src%c.gran(mv.SrcSide) == 0, map[bool]string{true: "dst-misaligned", false: "src-misaligned"}[dstBad])
	}

	var c c23Case
	if ok, err := kit.LoadReplay("C23", "misaligned", &c); ok {
		if err != nil {
			t.Fatal(err)
		}
		run(t, c)
		return
	} else if kit.ReplayMode() {
		t.Skip()
	}

	kit.SetChecks(300, 3_000)
	rapid.Check(t, func(rt *rapid.T) {
		c := genC23(rt)
		c.Steered = 0
		c.Moves = c.Moves[:1]
		mv := &c.Moves[0]
		if rapid.Bool().Draw(rt, "which") {
			g := c.gran(mv.SrcSide)
			mv.Src += uint64(rapid.IntRange(1, int(g)-1).Draw(rt, "by"))
			if mv.Src+mv.Size > c.capOf(mv.SrcSide) {
				mv.Src -= g
			}
		} else {
			g := c.gran(mv.DstSide)
			mv.Dst += uint64(rapid.IntRange(1, int(g)-1).Draw(rt, "by"))
			if mv.Dst+mv.Size > c.capOf(mv.DstSide) {
				mv.Dst -= g
			}
		}
		run(rt, c)
	})
}

func firstLineOf(s string) string {
	if i := strings.IndexByte(s, '\n'); i >= 0 {
		return s[:i]
	}
	return s
}

// ------------------- dedicated reproductions of listed findings -------------------

const (
	c23SigOverrun    = "size%dstGran!=0:outside-dst-changed"
	c23SigSizeNoAck  = "size%dstGran!=0:no-ack"
	c23SigSrcOverrun = "size%srcGran!=0:outside-dst-changed"
	c23SigBufNoAck   = "buffer<write-window:no-ack"
)

func c23Known(t *testing.T, name, sig string, c c23Case) {
	s := kit.Begin(t, "C23", "known-"+name, "dedicated deterministic reproduction of the finding with signature "+sig)
	defer s.End()
	if kit.ReplayMode() {
		t.Skip()
	}
	got, msg, _ := c23Exec(c, nil)
	if got != "" {
		got = c23InputClass(c) + got
	}
	switch got {
	case sig:
		s.KnownStillFails(t, c, sig, msg)
	case "":
		// repaired (see KNOWN_FINDINGS.txt): kept as a regression input
		s.Note(c, true, "regression:"+sig)
	default:
		s.Fail(t, c, got, "%s", msg)
	}
}

func c23Simple(in, out, buf uint64, mv c23Move) c23Case {
	one := c23Mem{CapKiB: 8, Ctls: 1, Interleave: 64, Latency: []int{1}, Width: []int{1}, Freq: []int{0}, TopBuf: []int{4}}
	return c23Case{
		InGran: in, OutGran: out, BufSize: buf, Seed: 1,
		Mems:     []c23Mem{one, one},
		DMTopBuf: 4, DMInBuf: 4, DMOutBuf: 4, DriverBuf: 4, Conns: 1,
		Moves: []c23Move{mv},
	}
}

// A 2-byte move with 4-byte granularities writes 4 bytes: the two bytes after
// the destination range are overwritten with what follows the source range.
func TestC23Known_SizeNotMultipleOverrun(t *testing.T) {
	c23Known(t, "size-overrun", c23SigOverrun,
		c23Simple(4, 4, 64, c23Move{SrcSide: sideIn, DstSide: sideOut, Src: 0, Dst: 0, Size: 2}))
}

// A 4-byte move from a 4-byte side to an 8-byte side never fills one 8-byte
// write: no acknowledgement, the mover stays active forever.
func TestC23Known_SizeNotMultipleNoAck(t *testing.T) {
	c23Known(t, "size-no-ack", c23SigSizeNoAck,
		c23Simple(4, 8, 64, c23Move{SrcSide: sideIn, DstSide: sideOut, Src: 0, Dst: 0, Size: 4}))
}

// A 4-byte move from an 8-byte side to a 4-byte side reads 8 bytes and keeps
// writing 4-byte chunks while the buffer holds data: the 4 bytes after the
// destination range are overwritten too.
func TestC23Known_SizeNotMultipleOfSrcOverrun(t *testing.T) {
	c23Known(t, "size-src-overrun", c23SigSrcOverrun,
		c23Simple(8, 4, 64, c23Move{SrcSide: sideIn, DstSide: sideOut, Src: 0, Dst: 0, Size: 4}))
}

// BufferSize 4 with a 4-byte source and an 8-byte destination: the read
// window never holds one full write; an 8-byte aligned move is never
// acknowledged.
func TestC23Known_BufferBelowWriteWindow(t *testing.T) {
	c23Known(t, "buffer-no-ack", c23SigBufNoAck,
		c23Simple(4, 8, 4, c23Move{SrcSide: sideIn, DstSide: sideOut, Src: 0, Dst: 0, Size: 8}))
}
