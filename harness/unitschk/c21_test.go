package unitschk

import (
	"bytes"
	"fmt"
	"testing"

	"github.com/sarchlab/akita/v5/hooking"
	"github.com/sarchlab/akita/v5/mem/memcontrolprotocol"
	"github.com/sarchlab/akita/v5/mem/memprotocol"
	"github.com/sarchlab/akita/v5/mem/rob"
	"github.com/sarchlab/akita/v5/mem/vm"
	"github.com/sarchlab/akita/v5/messaging"
	"github.com/sarchlab/akita/v5/modeling"
	"github.com/sarchlab/akita/v5/timing"
	"pgregory.net/rapid"

	"verif/harness/kit"
)

// ---------------------------------------------------------------- case data

type c21Req struct {
	Src   int  `json:"src"`   // issuing requester
	Write bool `json:"write"` // write or read
	Off   int  `json:"off"`   // offset inside the request's private 64-byte slot
	Size  int  `json:"size"`  // bytes read / written (1..64-Off)
	Mask  bool `json:"mask"`  // write carries a dirty mask
	PID   int  `json:"pid"`
	Gap   int  `json:"gap"`   // requester cycles to wait before issuing
	Delay int  `json:"delay"` // lower-unit service time (lower cycles)
	Prio  int  `json:"prio"`  // lower unit sends ready answers lowest Prio first
}

// Control steps. Each op is a short command sequence a control agent sends to
// the ROB's Control port (mem/CONTROL_PROTOCOL.md); the agent waits for every
// acknowledgement before it goes on, except where the kind says otherwise.
const (
	ctlPauseEnable = iota // Pause, ack, Hold cycles, Enable, ack
	ctlDrainEnable        // Drain, (async) ack, Hold cycles, Enable, ack
	ctlReset              // Reset, ack (Reset always lands the ROB in Enabled)
	ctlPauseReset         // Pause, ack, Hold cycles, Reset, ack ("Pause -> Reset" of the protocol reference)
	ctlDrainReset         // Drain, Hold cycles, Reset without waiting for the Drain's ack (queued behind it), both acks
	ctlKinds
)

var ctlKindName = [ctlKinds]string{"pause-enable", "drain-enable", "reset", "pause-reset", "drain-reset"}

type c21CtlOp struct {
	Kind  int `json:"kind"`
	After int `json:"after"` // start once the ROB has taken this many requests from Top (0: at once) ...
	Wait  int `json:"wait"`  // ... and this many more agent cycles have passed
	Hold  int `json:"hold"`  // agent cycles before the second command of the op
}

type c21Case struct {
	BufferSize     int `json:"buffer_size"`
	NumReqPerCycle int `json:"num_req_per_cycle"`
	RobFreq        int `json:"rob_freq"`
	LowFreq        int `json:"low_freq"`
	ConnFreq       int `json:"conn_freq"`
	Conns          int `json:"conns"` // 1: one connection for everything; 2: top side / bottom side

	NumRequesters int   `json:"num_requesters"`
	ReqFreq       []int `json:"req_freq"`
	ReqBuf        []int `json:"req_buf"`

	TopBuf    int `json:"top_buf"`
	BottomBuf int `json:"bottom_buf"`
	LowBuf    int `json:"low_buf"`
	LowWidth  int `json:"low_width"`

	Stride   int    `json:"stride"` // slot(i) = (i*Stride+Base) mod 127: a distinct slot per request
	Base     int    `json:"base"`
	AddrBase uint64 `json:"addr_base"`

	Reqs []c21Req `json:"reqs"`

	// control agent (absent when Ctl is empty)
	Ctl     []c21CtlOp `json:"ctl,omitempty"`
	CtlFreq int        `json:"ctl_freq,omitempty"`
	CtlBuf  int        `json:"ctl_buf,omitempty"`

	LowAcceptStall stallList   `json:"low_accept_stall"`
	LowSendStall   stallList   `json:"low_send_stall"`
	ReqRecvStall   []stallList `json:"req_recv_stall"`
}

func (c *c21Case) addr(i int) uint64 {
	slot := (i*c.Stride + c.Base) % 127
	return c.AddrBase + uint64(slot)*64 + uint64(c.Reqs[i].Off)
}

func genStalls(rt *rapid.T, label string) stallList {
	if rapid.IntRange(0, 2).Draw(rt, label+"-on") == 0 {
		return nil
	}
	n := rapid.IntRange(1, 6).Draw(rt, label+"-n")
	s := make(stallList, n)
	for i := range s {
		if rapid.IntRange(0, 1).Draw(rt, label+"-z") == 1 {
			s[i] = rapid.IntRange(1, 9).Draw(rt, label)
		}
	}
	return s
}

func smallBuf(rt *rapid.T, label string) int {
	if rapid.IntRange(0, 2).Draw(rt, label+"-small") > 0 {
		return rapid.IntRange(1, 2).Draw(rt, label)
	}
	return rapid.IntRange(1, 8).Draw(rt, label)
}

func genC21(rt *rapid.T) c21Case {
	c := c21Case{
		BufferSize:     rapid.IntRange(1, 16).Draw(rt, "buffer"),
		NumReqPerCycle: rapid.IntRange(1, 4).Draw(rt, "width"),
		RobFreq:        rapid.IntRange(0, len(freqTable)-1).Draw(rt, "robfreq"),
		LowFreq:        rapid.IntRange(0, len(freqTable)-1).Draw(rt, "lowfreq"),
		ConnFreq:       rapid.IntRange(0, len(freqTable)-1).Draw(rt, "connfreq"),
		Conns:          rapid.IntRange(1, 2).Draw(rt, "conns"),
		NumRequesters:  rapid.IntRange(1, 3).Draw(rt, "requesters"),
		TopBuf:         smallBuf(rt, "topbuf"),
		BottomBuf:      smallBuf(rt, "botbuf"),
		LowBuf:         smallBuf(rt, "lowbuf"),
		LowWidth:       rapid.IntRange(1, 3).Draw(rt, "lowwidth"),
		Stride:         rapid.IntRange(1, 126).Draw(rt, "stride"),
		Base:           rapid.IntRange(0, 126).Draw(rt, "base"),
		AddrBase:       rapid.SampledFrom([]uint64{0, 1 << 20, 1 << 40, 0xffff_ffff_0000_0000}).Draw(rt, "addrbase"),
	}
	for i := 0; i < c.NumRequesters; i++ {
		c.ReqFreq = append(c.ReqFreq, rapid.IntRange(0, len(freqTable)-1).Draw(rt, "reqfreq"))
		c.ReqBuf = append(c.ReqBuf, smallBuf(rt, "reqbuf"))
		c.ReqRecvStall = append(c.ReqRecvStall, genStalls(rt, "recvstall"))
	}
	c.LowAcceptStall = genStalls(rt, "acceptstall")
	c.LowSendStall = genStalls(rt, "sendstall")

	n := rapid.IntRange(1, 40).Draw(rt, "n")

	// Control steps: 40% of the cases have none (the plain reorder property).
	// A step starts after a drawn number of requests has been taken by the
	// ROB, so it lands inside the busy phase by construction.
	hasReset := false
	if rapid.IntRange(0, 9).Draw(rt, "ctl-on") >= 4 {
		c.CtlFreq = rapid.IntRange(0, len(freqTable)-1).Draw(rt, "ctlfreq")
		c.CtlBuf = rapid.IntRange(1, 2).Draw(rt, "ctlbuf")
		nOps := rapid.IntRange(1, 3).Draw(rt, "ctl-n")
		for k := 0; k < nOps; k++ {
			op := c21CtlOp{
				Kind:  rapid.SampledFrom([]int{ctlReset, ctlReset, ctlReset, ctlPauseEnable, ctlPauseEnable, ctlDrainEnable, ctlDrainEnable, ctlPauseReset, ctlDrainReset}).Draw(rt, "ctl-kind"),
				After: rapid.IntRange(0, n).Draw(rt, "ctl-after"),
			}
			if rapid.IntRange(0, 2).Draw(rt, "ctl-waiton") == 0 {
				op.Wait = rapid.IntRange(1, 20).Draw(rt, "ctl-wait")
			}
			if op.Kind != ctlReset {
				op.Hold = rapid.SampledFrom([]int{0, 1, 3, 8, 20, 50}).Draw(rt, "ctl-hold")
			}
			hasReset = hasReset || op.Kind == ctlReset || op.Kind == ctlPauseReset || op.Kind == ctlDrainReset
			c.Ctl = append(c.Ctl, op)
		}
	}

	delays := []int{0, 2, 8, 30, 60}
	if hasReset {
		// a Reset is interesting when the lower unit still works on requests
		// the ROB abandons: give it service times that outlast the Reset
		delays = []int{2, 8, 30, 30, 60, 60}
	}
	maxDelay := rapid.SampledFrom(delays).Draw(rt, "maxdelay")
	writePct := rapid.SampledFrom([]int{0, 30, 50, 100}).Draw(rt, "writepct")
	for i := 0; i < n; i++ {
		r := c21Req{
			Src:   rapid.IntRange(0, c.NumRequesters-1).Draw(rt, "src"),
			Write: rapid.IntRange(0, 99).Draw(rt, "w") < writePct,
			Off:   rapid.IntRange(0, 63).Draw(rt, "off"),
			PID:   rapid.IntRange(0, 2).Draw(rt, "pid"),
			Delay: rapid.IntRange(0, maxDelay).Draw(rt, "delay"),
			Prio:  rapid.IntRange(0, 3).Draw(rt, "prio"),
		}
		r.Size = rapid.IntRange(1, 64-r.Off).Draw(rt, "size")
		if r.Write {
			r.Mask = rapid.Bool().Draw(rt, "mask")
		}
		if rapid.IntRange(0, 4).Draw(rt, "gapon") == 0 {
			r.Gap = rapid.IntRange(1, 6).Draw(rt, "gap")
		}
		c.Reqs = append(c.Reqs, r)
	}
	return c
}

// ---------------------------------------------------------------- scripted lower unit

type lowItem struct {
	seq     int
	req     messaging.Msg
	readyAt uint64
	prio    int
}

// lowSeen is what the lower unit saw and answered for one shadow request.
type lowSeen struct {
	msg    messaging.Msg
	result []byte // data returned for a read; nil for a write
}

type lowerUnit struct {
	comp *hComp
	port messaging.Port
	c    *c21Case

	byAddr      map[uint64]int
	inflight    []*lowItem
	acceptK     int
	sendK       int
	acceptStall int
	sendStall   int

	seen []lowSeen
}

func (l *lowerUnit) tick() bool {
	progress := false
	now := cycleOf(l.comp)

	for w := 0; w < l.c.LowWidth; w++ {
		best := -1
		for i, it := range l.inflight {
			if it.readyAt > now {
				continue
			}
			if best < 0 || it.prio < l.inflight[best].prio ||
				(it.prio == l.inflight[best].prio && it.seq < l.inflight[best].seq) {
				best = i
			}
		}
		if best < 0 {
			break
		}
		if l.sendStall > 0 {
			l.sendStall--
			progress = true
			break
		}
		if !l.port.CanSend() {
			break
		}
		it := l.inflight[best]
		l.inflight = append(l.inflight[:best], l.inflight[best+1:]...)
		l.port.Send(l.answer(it))
		l.sendK++
		l.sendStall = l.c.LowSendStall.at(l.sendK)
		progress = true
	}

	if msg := l.port.PeekIncoming(); msg != nil {
		if l.acceptStall > 0 {
			l.acceptStall--
		} else {
			l.port.RetrieveIncoming()
			l.accept(msg, now)
			l.acceptK++
			l.acceptStall = l.c.LowAcceptStall.at(l.acceptK)
		}
		progress = true
	}

	for _, it := range l.inflight {
		if it.readyAt > now {
			progress = true // time has to pass
			break
		}
	}
	return progress
}

func (l *lowerUnit) accept(msg messaging.Msg, now uint64) {
	it := &lowItem{seq: len(l.seen), req: msg}
	var addr uint64
	if ar, ok := msg.(memprotocol.AccessReq); ok {
		addr = ar.GetAddress()
	}
	if i, ok := l.byAddr[addr]; ok {
		it.readyAt = now + uint64(l.c.Reqs[i].Delay)
		it.prio = l.c.Reqs[i].Prio
	} else {
		it.readyAt = now
	}
	l.seen = append(l.seen, lowSeen{msg: msg})
	l.inflight = append(l.inflight, it)
}

func (l *lowerUnit) answer(it *lowItem) messaging.Msg {
	meta := it.req.Meta()
	switch r := it.req.(type) {
	case memprotocol.ReadReq:
		n := r.AccessByteSize
		if n > 4096 {
			n = 4096
		}
		// The data is a function of the address, the id of the request the
		// lower unit received and its arrival number: only the lower unit
		// knows it, and it is different for every request.
		data := fillBytes(int(n), mix64(r.Address)^mix64(meta.ID*0x9e37+uint64(it.seq)))
		l.seen[it.seq].result = data
		rsp := memprotocol.DataReadyRsp{Data: data}
		rsp.ID = timing.GetIDGenerator().Generate()
		rsp.Src = l.port.AsRemote()
		rsp.Dst = meta.Src
		rsp.RspTo = meta.ID
		rsp.TrafficBytes = len(data) + 4
		rsp.TrafficClass = "memprotocol.DataReadyRsp"
		return rsp
	default:
		rsp := memprotocol.WriteDoneRsp{}
		rsp.ID = timing.GetIDGenerator().Generate()
		rsp.Src = l.port.AsRemote()
		rsp.Dst = meta.Src
		rsp.RspTo = meta.ID
		rsp.TrafficBytes = 4
		rsp.TrafficClass = "memprotocol.WriteDoneRsp"
		return rsp
	}
}

// ---------------------------------------------------------------- scripted requester

type requester struct {
	comp *hComp
	port messaging.Port
	c    *c21Case
	idx  int
	dst  messaging.RemotePort

	script    []int // indices into c.Reqs, in issue order
	next      int
	gapLeft   int
	recvK     int
	recvStall int

	sent map[int]messaging.Msg // request index -> message as sent
	got  []messaging.Msg
}

func (r *requester) tick() bool {
	progress := false
	if msg := r.port.PeekIncoming(); msg != nil {
		if r.recvStall > 0 {
			r.recvStall--
		} else {
			r.port.RetrieveIncoming()
			r.got = append(r.got, msg)
			r.recvK++
			r.recvStall = r.c.ReqRecvStall[r.idx].at(r.recvK)
		}
		progress = true
	}
	if r.next < len(r.script) {
		if r.gapLeft > 0 {
			r.gapLeft--
			progress = true
		} else if r.port.CanSend() {
			i := r.script[r.next]
			msg := r.build(i)
			r.sent[i] = msg
			r.port.Send(msg)
			r.next++
			if r.next < len(r.script) {
				r.gapLeft = r.c.Reqs[r.script[r.next]].Gap
			}
			progress = true
		}
	}
	return progress
}

func c21WriteData(c *c21Case, i int) ([]byte, []bool) {
	q := c.Reqs[i]
	data := fillBytes(q.Size, 0xd00d+uint64(i)*7919)
	var mask []bool
	if q.Mask {
		mask = make([]bool, q.Size)
		bits := fillBytes(q.Size, 0xa5a5+uint64(i)*104729)
		for k := range mask {
			mask[k] = bits[k]&1 == 1
		}
	}
	return data, mask
}

func (r *requester) build(i int) messaging.Msg {
	q := r.c.Reqs[i]
	if q.Write {
		data, mask := c21WriteData(r.c, i)
		m := memprotocol.WriteReq{Address: r.c.addr(i), Data: data, DirtyMask: mask, PID: vm.PID(q.PID)}
		m.ID = timing.GetIDGenerator().Generate()
		m.Src = r.port.AsRemote()
		m.Dst = r.dst
		m.TrafficBytes = len(data) + 12
		m.TrafficClass = "memprotocol.WriteReq"
		return m
	}
	m := memprotocol.ReadReq{Address: r.c.addr(i), AccessByteSize: uint64(q.Size), PID: vm.PID(q.PID)}
	m.ID = timing.GetIDGenerator().Generate()
	m.Src = r.port.AsRemote()
	m.Dst = r.dst
	m.TrafficBytes = 12
	m.TrafficClass = "memprotocol.ReadReq"
	return m
}

// ---------------------------------------------------------------- scripted control agent

type ctlStep struct {
	cmd     memcontrolprotocol.Command
	waitAck bool // send only after everything sent before has been acknowledged
	hold    int  // agent cycles to wait before sending (counted after the acks arrived)
}

func (o c21CtlOp) steps() []ctlStep {
	switch o.Kind {
	case ctlPauseEnable:
		return []ctlStep{{cmd: memcontrolprotocol.CmdPause, waitAck: true}, {cmd: memcontrolprotocol.CmdEnable, waitAck: true, hold: o.Hold}}
	case ctlDrainEnable:
		return []ctlStep{{cmd: memcontrolprotocol.CmdDrain, waitAck: true}, {cmd: memcontrolprotocol.CmdEnable, waitAck: true, hold: o.Hold}}
	case ctlPauseReset:
		return []ctlStep{{cmd: memcontrolprotocol.CmdPause, waitAck: true}, {cmd: memcontrolprotocol.CmdReset, waitAck: true, hold: o.Hold}}
	case ctlDrainReset:
		return []ctlStep{{cmd: memcontrolprotocol.CmdDrain, waitAck: true}, {cmd: memcontrolprotocol.CmdReset, waitAck: false, hold: o.Hold}}
	default:
		return []ctlStep{{cmd: memcontrolprotocol.CmdReset, waitAck: true}}
	}
}

const (
	ctlPhTrigger = iota
	ctlPhWait
	ctlPhSteps
)

// ctlTriggerCap bounds the wait for an op's request-count trigger (agent
// cycles); after a Reset fewer requests may be left than the trigger asks for.
const ctlTriggerCap = 1000

type ctlAgent struct {
	comp *hComp
	port messaging.Port
	dst  messaging.RemotePort
	ops  []c21CtlOp

	taken *int // requests the ROB has taken from its Top port so far (hook counter)

	op, phase, step int
	steps           []ctlStep
	waited, left    int

	pending map[uint64]memcontrolprotocol.Command // sent, not yet acknowledged
	nSent   int
	bad     string // first malformed acknowledgement
}

func (a *ctlAgent) done() bool { return a.op >= len(a.ops) }

func (a *ctlAgent) tick() bool {
	progress := false
	if msg := a.port.RetrieveIncoming(); msg != nil {
		a.onAck(msg)
		progress = true
	}
	if a.done() {
		return progress
	}
	o := a.ops[a.op]
	switch a.phase {
	case ctlPhTrigger:
		if *a.taken < o.After && a.waited < ctlTriggerCap {
			a.waited++
			return true
		}
		a.phase, a.left = ctlPhWait, o.Wait
		fallthrough
	case ctlPhWait:
		if a.left > 0 {
			a.left--
			return true
		}
		a.steps = o.steps()
		a.phase, a.step, a.left = ctlPhSteps, 0, a.steps[0].hold
		fallthrough
	default:
		if a.step < len(a.steps) {
			st := a.steps[a.step]
			if st.waitAck && len(a.pending) > 0 {
				return progress // the acknowledgement wakes the agent up
			}
			if a.left > 0 {
				a.left--
				return true
			}
			if !a.port.CanSend() {
				return progress
			}
			req := memcontrolprotocol.Req{Command: st.cmd}
			req.ID = timing.GetIDGenerator().Generate()
			req.Src = a.port.AsRemote()
			req.Dst = a.dst
			req.TrafficBytes = 4
			req.TrafficClass = "memcontrolprotocol.Req"
			a.pending[req.ID] = st.cmd
			a.port.Send(req)
			a.nSent++
			a.step++
			if a.step < len(a.steps) {
				a.left = a.steps[a.step].hold
			}
			return true
		}
		if len(a.pending) > 0 {
			return progress
		}
		a.op++
		a.phase, a.waited = ctlPhTrigger, 0
		return true
	}
}

func (a *ctlAgent) onAck(msg messaging.Msg) {
	fail := func(format string, args ...any) {
		if a.bad == "" {
			a.bad = fmt.Sprintf(format, args...)
		}
	}
	rsp, ok := msg.(memcontrolprotocol.Rsp)
	if !ok {
		fail("control agent received %T", msg)
		return
	}
	cmd, ok := a.pending[rsp.RspTo]
	if !ok {
		fail("control response with RspTo %d, which is not an unacknowledged command", rsp.RspTo)
		return
	}
	delete(a.pending, rsp.RspTo)
	if rsp.Command != cmd || !rsp.Success || rsp.Error != "" {
		fail("command %d acknowledged with %+v", cmd, rsp)
	}
}

// ---------------------------------------------------------------- execution + oracle

const (
	evTopIn    = iota // ROB retrieved a request from Top (= accepted it)
	evTopOut          // ROB sent a response on Top
	evTopLeft         // connection took a response out of Top's outgoing buffer
	evBotOut          // ROB sent a shadow request on Bottom
	evBotLeft         // connection took a shadow out of Bottom's outgoing buffer
	evBotIn           // a lower-unit response was delivered to Bottom
	evBotTaken        // ROB retrieved a lower-unit response from Bottom
	evTopRecv         // a request was delivered to Top
	evCtlIn           // a control command was delivered to Control
	evCtlTaken        // ROB retrieved a control command from Control
	evCtlOut          // ROB sent a control acknowledgement on Control
)

type c21Event struct {
	kind int
	msg  messaging.Msg
}

func TestC21(t *testing.T) {
	s := kit.Begin(t, "C21", "rob",
		"real rob.Comp (BufferSize 1-16, NumReqPerCycle 1-4, clock from {1G,2G,800M,1.5G,500M}) above a scripted lower unit that answers "+
			"each request after its own drawn delay (0-60 cycles), lowest drawn priority first, 1-3 answers/cycle, with drawn accept/send stall patterns; "+
			"1-3 scripted requesters with drawn issue gaps and receive stalls; all port buffers 1-8 (biased to 1-2); one or two direct connections with drawn clock; "+
			"1-40 reads/writes (masked and unmasked, PID 0-2, 1-64 bytes), one distinct address per request, read data = f(address, id seen by the lower unit, its arrival number). "+
			"About half of the cases add a scripted control agent on ROB.Control that runs 1-3 ops {Reset | Pause,hold,Enable | Drain,hold,Enable | Pause,hold,Reset | Drain,Reset queued behind it}, "+
			"each started after a drawn number of requests was taken by the ROB plus 0-20 cycles, hold 0-50 cycles, every command acknowledged before the next (except the queued Reset); "+
			"the lower unit knows nothing of a Reset and answers abandoned shadows late; requesters never wait for answers. "+
			"Oracle: a Reset (from its ack/dequeue on ROB.Control) abandons every request taken from Top so far and not yet answered and starts a new acceptance order; "+
			"within an acceptance order, order of RetrieveIncoming on ROB.Top == order of RspTo of messages sent on ROB.Top; per response type, Dst, data = what the lower unit returned for the shadow "+
			"of that very request (shadow identified by address and by the shadow ID the lower unit saw), released only after that shadow's completion reached ROB.Bottom; one shadow per request with "+
			"identical address/size/data/mask/PID; no answer for an abandoned request after the Reset; every request accepted after the last Reset (all requests without a Reset, "+
			"whatever Pause/Drain/Enable happened) answered exactly once; requesters receive exactly the responses sent; every control command acknowledged; nothing left in the ROB or its ports when Run returns. "+
			"Non-trivial: some completion reached the ROB while an older accepted request was still incomplete with >=3 requests in the buffer, or a control step hit work in flight "+
			"(late answer for an abandoned shadow while new transactions are buffered / lower-unit answer arriving during a Pause / Drain with >=2 in flight)")
	defer s.End()
	s.Assume("arrival order is the order in which the ROB retrieves requests from its Top port (port hook)")
	s.Assume("the scripted lower unit, requesters and control agent are trusted; they obey CanSend/Peek/Retrieve like the repository's own components")
	s.Assume("mem/CONTROL_PROTOCOL.md: Reset discards all in-flight transactions and drains the Top/Bottom queues (requests queued on Top at the Reset are never answered); " +
		"Pause freezes and Enable resumes without discarding queued traffic; Drain lets in-flight work finish; the Reset takes effect between its acknowledgement on ROB.Control and the dequeue of the command")

	run := func(f kit.Failer, c c21Case) { runC21(s, f, c) }

	var c c21Case
	if ok, err := kit.LoadReplay("C21", "rob", &c); ok {
		if err != nil {
			t.Fatal(err)
		}
		run(t, c)
		return
	} else if kit.ReplayMode() {
		t.Skip()
	}

	kit.SetChecks(8_000, 60_000)
	rapid.Check(t, func(rt *rapid.T) { c := genC21(rt); run(rt, c) })
}

// c21Stats is what one execution did (judged from the hook log).
type c21Stats struct {
	nt     bool
	maxOcc int
	cls    []string
}

func c21Failf(sig, format string, args ...any) (string, string) {
	return sig, fmt.Sprintf(format, args...)
}

func runC21(s *kit.Session, f kit.Failer, c c21Case) {
	sig, msg, st := c21Exec(c, nil)
	if sig != "" {
		s.Fail(f, c, sig, "%s", msg)
		return
	}
	s.Note(c, st.nt, st.cls...)
}

// c21Exec builds and runs one case against the real ROB and returns the first
// violation ("" when there is none). rec, when given, records the
// determinism fingerprint (C03).
func c21Exec(c c21Case, fp *fpRec) (sig, msg string, st c21Stats) {
	timing.ResetIDGenerator()
	engine := timing.NewSerialEngine()
	budget := &eventBudget{max: 3_000_000}
	engine.AcceptHook(budget)
	reg := modeling.NewStandaloneRegistrar(engine)

	// lower unit
	lowComp, lowPort := newHComp(reg, "Low", freqOf(c.LowFreq), c.LowBuf)
	low := &lowerUnit{comp: lowComp, port: lowPort, c: &c, byAddr: map[uint64]int{}}
	for i := range c.Reqs {
		low.byAddr[c.addr(i)] = i
	}
	setTick(lowComp, low.tick)

	// reorder buffer
	spec := rob.DefaultSpec()
	spec.Freq = freqOf(c.RobFreq)
	spec.BufferSize = c.BufferSize
	spec.NumReqPerCycle = c.NumReqPerCycle
	spec.BottomUnit = lowPort.AsRemote()
	robComp := rob.MakeBuilder().WithRegistrar(reg).WithSpec(spec).Build("Rob")
	top := assignPort(reg, robComp, "Top", c.TopBuf)
	bottom := assignPort(reg, robComp, "Bottom", c.BottomBuf)
	ctrl := assignPort(reg, robComp, "Control", 1)

	// requesters
	reqs := make([]*requester, c.NumRequesters)
	for i := range reqs {
		comp, port := newHComp(reg, fmt.Sprintf("Req%d", i), freqOf(c.ReqFreq[i]), c.ReqBuf[i])
		r := &requester{comp: comp, port: port, c: &c, idx: i, dst: top.AsRemote(), sent: map[int]messaging.Msg{}}
		r.recvStall = c.ReqRecvStall[i].at(0)
		reqs[i] = r
		setTick(comp, r.tick)
	}
	low.acceptStall = c.LowAcceptStall.at(0)
	low.sendStall = c.LowSendStall.at(0)
	for i, q := range c.Reqs {
		reqs[q.Src].script = append(reqs[q.Src].script, i)
	}
	for _, r := range reqs {
		if len(r.script) > 0 {
			r.gapLeft = c.Reqs[r.script[0]].Gap
		}
	}

	// control agent
	var agent *ctlAgent
	taken := 0
	if len(c.Ctl) > 0 {
		buf := c.CtlBuf
		if buf < 1 {
			buf = 1
		}
		comp, port := newHComp(reg, "Ctl", freqOf(c.CtlFreq), buf)
		agent = &ctlAgent{comp: comp, port: port, dst: ctrl.AsRemote(), ops: c.Ctl, taken: &taken,
			pending: map[uint64]memcontrolprotocol.Command{}}
		setTick(comp, agent.tick)
	}

	// connections
	topConn := newConn(reg, "ConnTop", freqOf(c.ConnFreq))
	botConn := topConn
	if c.Conns == 2 {
		botConn = newConn(reg, "ConnBottom", freqOf(c.ConnFreq+1))
	}
	topConn.PlugIn(top)
	topConn.PlugIn(ctrl)
	for _, r := range reqs {
		topConn.PlugIn(r.port)
	}
	if agent != nil {
		topConn.PlugIn(agent.port)
	}
	botConn.PlugIn(bottom)
	botConn.PlugIn(lowPort)

	// observation
	var log []c21Event
	rec := func(kind int) func(hooking.HookCtx) {
		return func(ctx hooking.HookCtx) {
			log = append(log, c21Event{kind: kind, msg: ctx.Item.(messaging.Msg)})
		}
	}
	onHook(top, func(ctx hooking.HookCtx) {
		switch ctx.Pos {
		case messaging.HookPosPortMsgRetrieveIncoming:
			taken++
			rec(evTopIn)(ctx)
		case messaging.HookPosPortMsgSend:
			rec(evTopOut)(ctx)
		case messaging.HookPosPortMsgRetrieveOutgoing:
			rec(evTopLeft)(ctx)
		case messaging.HookPosPortMsgRecvd:
			rec(evTopRecv)(ctx)
		}
	})
	onHook(ctrl, func(ctx hooking.HookCtx) {
		switch ctx.Pos {
		case messaging.HookPosPortMsgRecvd:
			rec(evCtlIn)(ctx)
		case messaging.HookPosPortMsgRetrieveIncoming:
			rec(evCtlTaken)(ctx)
		case messaging.HookPosPortMsgSend:
			rec(evCtlOut)(ctx)
		}
	})
	onHook(bottom, func(ctx hooking.HookCtx) {
		switch ctx.Pos {
		case messaging.HookPosPortMsgSend:
			rec(evBotOut)(ctx)
		case messaging.HookPosPortMsgRetrieveOutgoing:
			rec(evBotLeft)(ctx)
		case messaging.HookPosPortMsgRecvd:
			rec(evBotIn)(ctx)
		case messaging.HookPosPortMsgRetrieveIncoming:
			rec(evBotTaken)(ctx)
		}
	})

	if fp != nil {
		ports := []messaging.Port{top, bottom, ctrl, lowPort}
		for _, r := range reqs {
			ports = append(ports, r.port)
		}
		if agent != nil {
			ports = append(ports, agent.port)
		}
		fp.attach(engine, ports)
	}

	for _, r := range reqs {
		r.comp.TickLater()
	}
	if agent != nil {
		agent.comp.TickLater()
	}

	if ok, psig, pmsg := kit.Guard(func() { _ = engine.Run() }); !ok {
		sig, msg = normSig(psig), pmsg
		return
	}
	if fp != nil {
		fp.addFinal("component", robComp.Name(), robComp.State)
		fp.addFinal("component", lowComp.Name(), lowComp.State)
		for _, r := range reqs {
			fp.addFinal("component", r.comp.Name(), r.comp.State)
		}
		if agent != nil {
			fp.addFinal("component", agent.comp.Name(), agent.comp.State)
		}
		fp.addFinal("connection", topConn.Name(), topConn.State)
		if botConn != topConn {
			fp.addFinal("connection", botConn.Name(), botConn.State)
		}
		fp.finish()
	}

	// ---------------- judge
	n := len(c.Reqs)
	idToReq := map[uint64]int{} // original request id -> index
	for _, r := range reqs {
		if r.next != len(r.script) {
			sig, msg = c21Failf("request-never-accepted", "requester %d could issue only %d of %d requests before the simulation went idle",
				r.idx, r.next, len(r.script))
			return
		}
		for i, m := range r.sent {
			idToReq[m.Meta().ID] = i
		}
	}

	// what the lower unit saw: exactly one shadow per request, same content
	shadowOf := make([]int, n) // request -> index in low.seen
	for i := range shadowOf {
		shadowOf[i] = -1
	}
	shadowIDToReq := map[uint64]int{}
	for k, sn := range low.seen {
		ar, isAccess := sn.msg.(memprotocol.AccessReq)
		if !isAccess {
			sig, msg = c21Failf("shadow-type", "lower unit received %T", sn.msg)
			return
		}
		i, known := low.byAddr[ar.GetAddress()]
		if !known {
			sig, msg = c21Failf("shadow-address", "lower unit received a request for address %#x that no requester asked for", ar.GetAddress())
			return
		}
		if shadowOf[i] >= 0 {
			sig, msg = c21Failf("shadow-duplicate", "request %d (address %#x) was forwarded to the lower unit twice", i, ar.GetAddress())
			return
		}
		shadowOf[i] = k
		shadowIDToReq[sn.msg.Meta().ID] = i
		if d := c21ShadowDiff(&c, i, sn.msg); d != "" {
			sig, msg = c21Failf("shadow-fields", "request %d forwarded with different %s", i, d)
			return
		}
		if sn.msg.Meta().Src != bottom.AsRemote() {
			sig, msg = c21Failf("shadow-src", "shadow of request %d has Src %q", i, sn.msg.Meta().Src)
			return
		}
	}

	// walk the event log. A Reset splits the run into epochs: everything the
	// ROB took from Top up to the end of the Reset (accepted or thrown away by
	// the Reset's drain of the Top queue) and not answered by then is
	// abandoned ("Reset discards all in-flight transactions ... and drains
	// the Top/Bottom ports"); the requests accepted afterwards form a new
	// acceptance order.
	var arrival []int           // requests accepted in the current epoch, in order
	nRel := 0                   // how many of them have been answered
	released := make([]bool, n) // response sent on Top
	completed := make([]bool, n)
	accepted := make([]bool, n)
	abandoned := make([]bool, n)
	oldSlot := make([]int, n) // abandoned request -> its position in the buffer when the Reset hit
	var sent []messaging.Msg
	occ, topOut, botOut, nTaken, nResets := 0, 0, 0, 0, 0
	nt, inversion, robFull, topFull, botFull, maxOcc := false, false, false, false, false, 0
	inReset, paused, draining := false, false, false
	k := map[string]bool{} // control classes that happened
	drainInflight := 0
	for _, e := range log {
		switch e.kind {
		case evTopIn:
			i, ok := idToReq[e.msg.Meta().ID]
			if !ok || accepted[i] {
				sig, msg = c21Failf("accept-unknown", "ROB retrieved message id %d from Top which is not an outstanding request", e.msg.Meta().ID)
				return
			}
			accepted[i] = true
			nTaken++
			if inReset {
				// taken off the Top queue by the Reset itself: never in the buffer
				abandoned[i] = true
				oldSlot[i] = -1
				k["reset-drops-queued-requests"] = true
				continue
			}
			if nResets > 0 {
				k["requests-accepted-after-reset"] = true
			}
			arrival = append(arrival, i)
			occ++
			if occ > maxOcc {
				maxOcc = occ
			}
			if occ > c.BufferSize {
				sig, msg = c21Failf("buffer-overflow", "%d requests in a reorder buffer of size %d", occ, c.BufferSize)
				return
			}
			if occ == c.BufferSize {
				robFull = true
			}
		case evTopOut:
			sent = append(sent, e.msg)
			got := e.msg.Meta().RspTo
			if j, ok := idToReq[got]; ok && abandoned[j] {
				sig, msg = c21Failf("answer-for-abandoned-request", "response with RspTo %d sent on Top: request %d was in flight when Reset #%d discarded all in-flight transactions",
					got, j, nResets)
				return
			}
			if nRel >= len(arrival) {
				sig, msg = c21Failf("extra-response", "response (RspTo %d) sent on Top but all %d requests accepted so far (since the last Reset) are answered",
					got, len(arrival))
				return
			}
			want := arrival[nRel]
			wantID := reqs[c.Reqs[want].Src].sent[want].Meta().ID
			if got != wantID {
				fsig := "rspto-not-a-request-id"
				if j, ok := idToReq[got]; ok {
					fsig = "release-order"
					if released[j] {
						fsig = "duplicate-response"
					}
				} else if _, ok := shadowIDToReq[got]; ok {
					fsig = "rspto-is-shadow-id"
				}
				sig, msg = c21Failf(fsig, "response #%d (since the last Reset) on Top has RspTo %d; the #%d accepted request is request %d with id %d (accept order %v)",
					nRel, got, nRel, want, wantID, arrival)
				return
			}
			if d := c21RspDiff(&c, want, e.msg, reqs, low, shadowOf); d != "" {
				extra := ""
				if d == "data" {
					extra = c21WhoseData(e.msg, low, shadowIDToReq, abandoned)
				}
				sig, msg = c21Failf(d, "response to request %d (%+v): %s mismatch: %s%s", want, c.Reqs[want], d, c21Describe(e.msg), extra)
				return
			}
			if !completed[want] {
				sig, msg = c21Failf("released-before-completion", "response to request %d sent before the lower unit's answer to that request's own shadow reached the ROB (%d Resets so far)", want, nResets)
				return
			}
			released[want] = true
			nRel++
			occ--
			topOut++
			if topOut >= c.TopBuf {
				topFull = true
			}
			if draining {
				k["drain-releases-responses"] = true
			}
		case evTopLeft:
			topOut--
		case evTopRecv:
			if paused {
				k["request-arrives-during-pause"] = true
			}
			if draining {
				k["request-arrives-during-drain"] = true
			}
		case evBotOut:
			botOut++
			if botOut >= c.BottomBuf {
				botFull = true
			}
		case evBotLeft:
			botOut--
		case evBotTaken:
			if inReset {
				k["reset-drops-queued-responses"] = true
			}
		case evBotIn:
			i, ok := shadowIDToReq[e.msg.Meta().RspTo]
			if !ok {
				continue // cannot happen: the scripted lower unit answers only what it received
			}
			completed[i] = true
			if abandoned[i] {
				// the lower unit knows nothing of the Reset: a late answer
				k["late-response-after-reset"] = true
				if occ > 0 {
					k["late-response-after-reset-while-new-transactions-buffered"] = true
					// the abandoned request sat at buffer position oldSlot when
					// the Reset hit; positions nRel..nRel+occ-1 (counted from
					// the Reset) are in use by new transactions right now
					if oldSlot[i] >= nRel && oldSlot[i] < nRel+occ {
						k["late-response-for-reused-buffer-slot"] = true
					}
				}
				continue
			}
			if paused && !released[i] {
				k["response-arrives-during-pause"] = true
			}
			// an older accepted request still waiting for its completion?
			for _, j := range arrival[nRel:] {
				if j == i {
					break
				}
				if !completed[j] {
					inversion = true
					if occ >= 3 {
						nt = true
					}
					break
				}
			}
		case evCtlIn:
			if rq, ok := e.msg.(memcontrolprotocol.Req); ok && rq.Command == memcontrolprotocol.CmdReset && draining {
				k["reset-queued-behind-drain"] = true
			}
		case evCtlTaken, evCtlOut:
			var cmd memcontrolprotocol.Command
			switch m := e.msg.(type) {
			case memcontrolprotocol.Req:
				cmd = m.Command
			case memcontrolprotocol.Rsp:
				cmd = m.Command
			default:
				continue
			}
			switch {
			case cmd == memcontrolprotocol.CmdReset && !inReset:
				// The Reset starts with the first of {acknowledgement sent,
				// command dequeued} and is over with the second.
				inReset = true
				nResets++
				k["reset"] = true
				outstanding, done := 0, 0
				for _, j := range arrival[nRel:] {
					if completed[j] {
						done++
					} else {
						outstanding++
					}
				}
				if occ > 0 {
					k["reset-with-buffered-transactions"] = true
				}
				if outstanding > 0 {
					k["reset-with-outstanding-lower-requests"] = true
				}
				if outstanding >= 3 {
					k["reset-with-outstanding-lower-requests>=3"] = true
				}
				if done > 0 {
					k["reset-discards-completed-transaction"] = true
				}
				if paused {
					k["reset-while-paused"] = true
				}
				if nResets > 1 {
					k["reset-twice"] = true
				}
			case cmd == memcontrolprotocol.CmdReset:
				inReset, paused, draining = false, false, false
				for slot, j := range arrival[nRel:] {
					abandoned[j] = true
					oldSlot[j] = slot
				}
				arrival, nRel, occ = nil, 0, 0
			case cmd == memcontrolprotocol.CmdPause && e.kind == evCtlOut:
				paused = true
				k["pause"] = true
				if occ > 0 {
					k["pause-with-inflight"] = true
				}
			case cmd == memcontrolprotocol.CmdEnable && e.kind == evCtlTaken:
				paused = false
			case cmd == memcontrolprotocol.CmdDrain && e.kind == evCtlTaken:
				draining = true
				k["drain"] = true
				drainInflight = occ
				if occ > 0 {
					k["drain-with-inflight"] = true
				}
				if occ >= 3 {
					k["drain-with-inflight>=3"] = true
				}
			case cmd == memcontrolprotocol.CmdDrain && e.kind == evCtlOut:
				draining, paused = false, true
			}
		}
	}

	if nTaken != n || nRel != len(arrival) {
		fsig := "missing-response"
		if nTaken != n {
			fsig = "request-never-accepted"
		}
		sig, msg = c21Failf(fsig, "%d requests issued, %d taken by the ROB, %d Resets; of the %d requests accepted since the last Reset %d were answered when the simulation went idle (ROB holds %d transactions, control state %v)",
			n, nTaken, nResets, len(arrival), nRel, len(robComp.State.Transactions), robComp.State.ControlState)
		return
	}
	if agent != nil {
		if agent.bad != "" {
			sig, msg = c21Failf("control-ack", "%s", agent.bad)
			return
		}
		if !agent.done() || len(agent.pending) != 0 || inReset {
			sig, msg = c21Failf("control-no-ack", "control agent stuck in op %d (%d commands sent, %d not acknowledged) when the simulation went idle",
				agent.op, agent.nSent, len(agent.pending))
			return
		}
	}

	// the requesters got exactly the responses addressed to them, in order
	for _, r := range reqs {
		var want []messaging.Msg
		for _, m := range sent {
			if m.Meta().Dst == r.port.AsRemote() {
				want = append(want, m)
			}
		}
		if len(want) != len(r.got) {
			sig, msg = c21Failf("delivery", "requester %d received %d responses, %d were sent to it", r.idx, len(r.got), len(want))
			return
		}
		for k := range want {
			if want[k].Meta().ID != r.got[k].Meta().ID {
				sig, msg = c21Failf("delivery", "requester %d received message %d at position %d, %d was sent", r.idx, r.got[k].Meta().ID, k, want[k].Meta().ID)
				return
			}
		}
	}

	// nothing outstanding
	if l := len(robComp.State.Transactions); l != 0 {
		sig, msg = c21Failf("leftover", "%d transactions left in the ROB after Run returned", l)
		return
	}
	ports := []messaging.Port{top, bottom, ctrl, lowPort}
	if agent != nil {
		ports = append(ports, agent.port)
	}
	for _, p := range ports {
		if p.NumIncoming() != 0 || p.NumOutgoing() != 0 {
			sig, msg = c21Failf("leftover", "port %s holds %d incoming / %d outgoing messages after Run returned", p.Name(), p.NumIncoming(), p.NumOutgoing())
			return
		}
	}
	if len(low.inflight) != 0 {
		sig, msg = c21Failf("leftover", "lower unit still holds %d requests", len(low.inflight))
		return
	}

	hasR, hasW, hasMask := false, false, false
	for _, q := range c.Reqs {
		hasR = hasR || !q.Write
		hasW = hasW || q.Write
		hasMask = hasMask || q.Mask
	}
	cls := []string{}
	add := func(b bool, name string) {
		if b {
			cls = append(cls, name)
		}
	}
	add(inversion, "inversion")
	add(nt, "inversion-with-occupancy>=3")
	add(robFull, "rob-buffer-full")
	add(topFull, "top-outgoing-full")
	add(botFull, "bottom-outgoing-full")
	add(hasR && hasW, "reads+writes")
	add(hasMask, "masked-write")
	add(c.NumRequesters > 1, "multi-requester")
	add(c.Conns == 2, "two-connections")
	add(maxOcc >= 8, "occupancy>=8")
	add(len(c.Ctl) == 0, "no-control-steps")
	for kind := 0; kind < ctlKinds; kind++ {
		for _, o := range c.Ctl {
			if o.Kind == kind {
				cls = append(cls, "op:"+ctlKindName[kind])
				break
			}
		}
	}
	for _, name := range c21CtlClasses {
		add(k[name], name)
	}
	// a control step counts as non-trivial when it hit the ROB with work in
	// flight in the way that can go wrong for the property
	ntCtl := k["late-response-after-reset-while-new-transactions-buffered"] || k["response-arrives-during-pause"] || drainInflight >= 2
	add(ntCtl, "control-step-with-work-in-flight")
	st.nt, st.maxOcc, st.cls = nt || ntCtl, maxOcc, cls
	return
}

// c21CtlClasses lists the control classes in a fixed order (no map iteration).
var c21CtlClasses = []string{
	"pause", "pause-with-inflight", "response-arrives-during-pause", "request-arrives-during-pause",
	"drain", "drain-with-inflight", "drain-with-inflight>=3", "drain-releases-responses", "request-arrives-during-drain",
	"reset", "reset-twice", "reset-while-paused", "reset-queued-behind-drain",
	"reset-with-buffered-transactions", "reset-with-outstanding-lower-requests", "reset-with-outstanding-lower-requests>=3",
	"reset-discards-completed-transaction", "reset-drops-queued-requests", "reset-drops-queued-responses",
	"requests-accepted-after-reset", "late-response-after-reset",
	"late-response-after-reset-while-new-transactions-buffered", "late-response-for-reused-buffer-slot",
}

// c21WhoseData says which shadow request the lower unit produced a response's
// data for (diagnostics of a "data" violation).
func c21WhoseData(m messaging.Msg, low *lowerUnit, shadowIDToReq map[uint64]int, abandoned []bool) string {
	rsp, ok := m.(memprotocol.DataReadyRsp)
	if !ok {
		return ""
	}
	for _, sn := range low.seen {
		if sn.result != nil && bytes.Equal(sn.result, rsp.Data) {
			j := shadowIDToReq[sn.msg.Meta().ID]
			what := ""
			if abandoned[j] {
				what = ", which a Reset had abandoned"
			}
			return fmt.Sprintf(" -- this is the lower unit's result for the shadow (id %d) of request %d%s", sn.msg.Meta().ID, j, what)
		}
	}
	return ""
}

func c21ShadowDiff(c *c21Case, i int, m messaging.Msg) string {
	q := c.Reqs[i]
	switch sh := m.(type) {
	case memprotocol.ReadReq:
		if q.Write {
			return "type (read for a write)"
		}
		if sh.AccessByteSize != uint64(q.Size) {
			return fmt.Sprintf("AccessByteSize %d (want %d)", sh.AccessByteSize, q.Size)
		}
		if sh.PID != vm.PID(q.PID) {
			return "PID"
		}
	case memprotocol.WriteReq:
		if !q.Write {
			return "type (write for a read)"
		}
		data, mask := c21WriteData(c, i)
		if !bytes.Equal(sh.Data, data) {
			return "Data"
		}
		if len(sh.DirtyMask) != len(mask) {
			return "DirtyMask length"
		}
		for k := range mask {
			if mask[k] != sh.DirtyMask[k] {
				return "DirtyMask"
			}
		}
		if sh.PID != vm.PID(q.PID) {
			return "PID"
		}
	}
	return ""
}

// c21RspDiff returns a failure signature ("" when the response is right).
func c21RspDiff(c *c21Case, i int, m messaging.Msg, reqs []*requester, low *lowerUnit, shadowOf []int) string {
	q := c.Reqs[i]
	if m.Meta().Dst != reqs[q.Src].port.AsRemote() {
		return "dst"
	}
	if shadowOf[i] < 0 {
		return "no-shadow"
	}
	switch rsp := m.(type) {
	case memprotocol.DataReadyRsp:
		if q.Write {
			return "rsp-type"
		}
		if !bytes.Equal(rsp.Data, low.seen[shadowOf[i]].result) {
			return "data"
		}
	case memprotocol.WriteDoneRsp:
		if !q.Write {
			return "rsp-type"
		}
	default:
		return "rsp-type"
	}
	return ""
}

func c21Describe(m messaging.Msg) string {
	switch r := m.(type) {
	case memprotocol.DataReadyRsp:
		d := r.Data
		if len(d) > 8 {
			d = d[:8]
		}
		return fmt.Sprintf("DataReadyRsp{Dst:%s RspTo:%d len:%d data:%x..}", r.Dst, r.RspTo, len(r.Data), d)
	default:
		return fmt.Sprintf("%T{Dst:%s RspTo:%d}", m, m.Meta().Dst, m.Meta().RspTo)
	}
}
