// Package unitschk holds the checks for C21 (reorder buffer) and C23 (data
// mover). Both assemble real components with harness-side scripted
// components, a serial engine and direct connections, exactly as the
// repository's own unit tests do (builders + modeling.NewStandaloneRegistrar).
package unitschk

import (
	"fmt"
	"regexp"

	"github.com/sarchlab/akita/v5/hooking"
	"github.com/sarchlab/akita/v5/messaging"
	"github.com/sarchlab/akita/v5/modeling"
	"github.com/sarchlab/akita/v5/noc/directconnection"
	"github.com/sarchlab/akita/v5/timing"
)

// freqTable is the set of clocks a case may draw (index stored in the case).
var freqTable = []timing.Freq{
	1 * timing.GHz, 2 * timing.GHz, 800 * timing.MHz, 1500 * timing.MHz, 500 * timing.MHz,
}

func freqOf(i int) timing.Freq { return freqTable[i%len(freqTable)] }

// hookFn adapts a func to hooking.Hook (pointer type, so it is comparable).
type hookFn struct{ fn func(hooking.HookCtx) }

func (h *hookFn) Func(ctx hooking.HookCtx) { h.fn(ctx) }

func onHook(h hooking.Hookable, fn func(hooking.HookCtx)) { h.AcceptHook(&hookFn{fn: fn}) }

// hSpec/hState are the (trivial) Spec/State of the scripted harness
// components; the script itself lives in the middleware.
type hSpec struct {
	Freq timing.Freq `json:"freq"`
}

type hState struct {
	Ticks uint64 `json:"ticks"`
}

type hComp = modeling.Component[hSpec, hState, modeling.None]

type tickMW struct {
	comp *hComp
	fn   func() bool
}

func (m *tickMW) Tick() bool {
	m.comp.State.Ticks++
	return m.fn()
}

// newHComp builds a scripted ticking component with one port "Port".
func newHComp(reg modeling.Registrar, name string, freq timing.Freq, bufSize int) (*hComp, messaging.Port) {
	comp := modeling.NewBuilder[hSpec, hState, modeling.None]().
		WithEngine(reg.GetEngine()).
		WithFreq(freq).
		WithSpec(hSpec{Freq: freq}).
		Build(name)
	comp.DeclarePort("Port")
	p := modeling.MakePortBuilder().
		WithRegistrar(reg).
		WithComponent(comp).
		WithSpec(modeling.PortSpec{BufSize: bufSize}).
		Build("Port")
	comp.AssignPort("Port", p)
	reg.RegisterComponent(comp)
	return comp, p
}

func setTick(c *hComp, fn func() bool) { c.AddMiddleware(&tickMW{comp: c, fn: fn}) }

// cycleOf gives the component's current cycle number.
func cycleOf(c *hComp) uint64 { return c.Spec().Freq.Cycle(c.CurrentTime()) }

func assignPort(reg modeling.Registrar, comp messaging.Component, name string, bufSize int) messaging.Port {
	p := modeling.MakePortBuilder().
		WithRegistrar(reg).
		WithComponent(comp).
		WithSpec(modeling.PortSpec{BufSize: bufSize}).
		Build(name)
	comp.AssignPort(name, p)
	return p
}

func newConn(reg modeling.Registrar, name string, freq timing.Freq) *directconnection.Comp {
	spec := directconnection.DefaultSpec()
	spec.Freq = freq
	return directconnection.MakeBuilder().WithRegistrar(reg).WithSpec(spec).Build(name)
}

// stallList is a cyclic list of stall lengths (cycles to wait before handling
// the k-th item). An empty list means no stalls.
type stallList []int

func (s stallList) at(k int) int {
	if len(s) == 0 {
		return 0
	}
	return s[k%len(s)]
}

// eventBudget aborts a run that handles an absurd number of events (a
// livelock in the code under test would otherwise spin until the go test
// timeout). The budget is >100x what the largest generated case needs.
type eventBudget struct {
	n, max int
}

func (b *eventBudget) Func(ctx hooking.HookCtx) {
	if ctx.Pos != timing.HookPosBeforeEvent {
		return
	}
	b.n++
	if b.n > b.max {
		panic(fmt.Sprintf("harness: event budget of %d events exhausted (livelock)", b.max))
	}
}

// mix64 is a fixed 64-bit mixer (splitmix64 finaliser); used to derive payload
// bytes as a pure function of case data.
func mix64(x uint64) uint64 {
	x += 0x9e3779b97f4a7c15
	x = (x ^ (x >> 30)) * 0xbf58476d1ce4e5b9
	x = (x ^ (x >> 27)) * 0x94d049bb133111eb
	return x ^ (x >> 31)
}

func fillBytes(n int, seed uint64) []byte {
	b := make([]byte, n)
	var w uint64
	for i := range b {
		if i%8 == 0 {
			w = mix64(seed + uint64(i/8)*0x632be59bd9b4e019)
		}
		b[i] = byte(w >> (8 * uint(i%8)))
	}
	return b
}

var panicArgs = regexp.MustCompile(`\((0x[0-9a-f]+|\{|\.\.\.)[^()]*\)$`)

// normSig removes the argument values kit.Guard leaves at the end of the
// signature of a panic in a plain function (they contain pointers).
func normSig(sig string) string { return panicArgs.ReplaceAllString(sig, "") }
