package unitschk

import (
	"crypto/sha256"
	"encoding/hex"
	"encoding/json"
	"fmt"
	"os"
	"os/exec"
	"path/filepath"
	"reflect"
	"testing"

	"github.com/sarchlab/akita/v5/hooking"
	"github.com/sarchlab/akita/v5/messaging"
	"github.com/sarchlab/akita/v5/timing"
	"pgregory.net/rapid"

	"verif/harness/kit"
)

// ---------------------------------------------------------------- fingerprint recorder

type fpItem struct {
	Kind  string `json:"kind"`
	Name  string `json:"name"`
	Value string `json:"value"`
}

// fpRec records what C03 compares between executions of one case: (a) every
// handled event, (b) every message sent on every port, (c) the final state.
type fpRec struct {
	engine *timing.SerialEngine
	Events []string `json:"events"`
	Msgs   []string `json:"msgs"`
	Final  []fpItem `json:"final"`
}

func (r *fpRec) Func(ctx hooking.HookCtx) {
	switch ctx.Pos {
	case timing.HookPosBeforeEvent:
		e, ok := ctx.Item.(timing.Event)
		if !ok {
			return
		}
		b, _ := json.Marshal(e)
		r.Events = append(r.Events, fmt.Sprintf("%d %s %s %v %s", e.Time(), e.HandlerID(), reflect.TypeOf(e), e.IsSecondary(), b))
	case messaging.HookPosPortMsgSend:
		m, ok := ctx.Item.(messaging.Msg)
		if !ok {
			return
		}
		meta := m.Meta()
		b, _ := json.Marshal(m)
		r.Msgs = append(r.Msgs, fmt.Sprintf("%d %s %T id=%d src=%s dst=%s class=%s bytes=%d rspto=%d %s",
			r.engine.CurrentTime(), ctx.Domain.(messaging.Port).Name(), m,
			meta.ID, meta.Src, meta.Dst, meta.TrafficClass, meta.TrafficBytes, meta.RspTo, b))
	}
}

func (r *fpRec) attach(engine *timing.SerialEngine, ports []messaging.Port) {
	r.engine = engine
	engine.AcceptHook(r)
	for _, p := range ports {
		p.AcceptHook(r)
	}
}

func (r *fpRec) addFinal(kind, name string, v any) {
	b, err := json.Marshal(v)
	if err != nil {
		b = []byte("marshal error: " + err.Error())
	}
	r.Final = append(r.Final, fpItem{Kind: kind, Name: name, Value: string(b)})
}

func (r *fpRec) finish() {
	r.Final = append(r.Final,
		fpItem{Kind: "end-time", Name: "Engine", Value: fmt.Sprint(r.engine.CurrentTime())},
		fpItem{Kind: "next-id", Name: "IDGenerator", Value: fmt.Sprint(timing.GetIDGeneratorNextID())})
}

// fpDigest is the compact form a child process reports.
type fpDigest struct {
	Events  string `json:"events"`
	Msgs    string `json:"msgs"`
	Final   string `json:"final"`
	NEvents int    `json:"n_events"`
	NMsgs   int    `json:"n_msgs"`
	Sig     string `json:"sig"`  // oracle outcome of the C21/C23 execution (part of the behaviour)
	Full    *fpRec `json:"full"` // only when asked for
}

func hashLines(lines []string) string {
	h := sha256.New()
	for _, l := range lines {
		h.Write([]byte(l))
		h.Write([]byte{'\n'})
	}
	return hex.EncodeToString(h.Sum(nil))
}

func (r *fpRec) digest(sig string) fpDigest {
	fl := make([]string, len(r.Final))
	for i, it := range r.Final {
		fl[i] = it.Kind + " " + it.Name + " " + it.Value
	}
	return fpDigest{Events: hashLines(r.Events), Msgs: hashLines(r.Msgs), Final: hashLines(fl),
		NEvents: len(r.Events), NMsgs: len(r.Msgs), Sig: sig}
}

// ---------------------------------------------------------------- case + execution

type c03Case struct {
	Kind string   `json:"kind"` // "datamover" or "rob"
	DM   *c23Case `json:"dm,omitempty"`
	ROB  *c21Case `json:"rob,omitempty"`
}

type c03Pending struct {
	c   c03Case
	dig fpDigest
}

type c03Run struct {
	rec         *fpRec
	dig         fpDigest
	maxInflight int
}

func c03Exec(c c03Case) c03Run {
	rec := &fpRec{}
	var sig string
	run := c03Run{rec: rec}
	switch c.Kind {
	case "datamover":
		s, _, st := c23Exec(*c.DM, rec)
		sig, run.maxInflight = s, st.maxInflight
	default:
		s, _, st := c21Exec(*c.ROB, rec)
		sig, run.maxInflight = s, st.maxOcc
	}
	run.dig = rec.digest(sig)
	return run
}

// ---------------------------------------------------------------- child process

const c03ChildEnv = "VERIF_UNITS_CHILD"

type c03Job struct {
	Cases  []c03Case `json:"cases"`
	Full   bool      `json:"full"` // include the full recordings
	Result string    `json:"result"`
}

// TestMain turns the test binary into a C03 child worker when asked to.
func TestMain(m *testing.M) {
	if p := os.Getenv(c03ChildEnv); p != "" {
		os.Exit(c03ChildMain(p))
	}
	os.Exit(m.Run())
}

func c03ChildMain(jobFile string) int {
	b, err := os.ReadFile(jobFile)
	if err != nil {
		fmt.Fprintln(os.Stderr, err)
		return 3
	}
	var j c03Job
	if err := json.Unmarshal(b, &j); err != nil {
		fmt.Fprintln(os.Stderr, err)
		return 3
	}
	var ds []fpDigest
	for _, c := range j.Cases {
		run := c03Exec(c)
		d := run.dig
		if j.Full {
			d.Full = run.rec
		}
		ds = append(ds, d)
	}
	out, _ := json.Marshal(ds)
	if err := os.WriteFile(j.Result, out, 0o644); err != nil {
		fmt.Fprintln(os.Stderr, err)
		return 3
	}
	return 0
}

// c03RunChild executes the cases, in order, in one fresh process.
func c03RunChild(dir string, cs []c03Case, full bool) ([]fpDigest, error) {
	jobFile := filepath.Join(dir, "job.json")
	j := c03Job{Cases: cs, Full: full, Result: filepath.Join(dir, "result.json")}
	_ = os.Remove(j.Result)
	b, _ := json.Marshal(j)
	if err := os.WriteFile(jobFile, b, 0o644); err != nil {
		return nil, err
	}
	cmd := exec.Command(os.Args[0], "-test.run", "^$")
	cmd.Env = append(os.Environ(), c03ChildEnv+"="+jobFile, "VERIF_EVIDENCE_OUT=")
	out, err := cmd.CombinedOutput()
	if err != nil {
		return nil, fmt.Errorf("child failed: %v\n%s", err, out)
	}
	rb, err := os.ReadFile(j.Result)
	if err != nil {
		return nil, fmt.Errorf("child wrote no result: %v\n%s", err, out)
	}
	var ds []fpDigest
	if err := json.Unmarshal(rb, &ds); err != nil {
		return nil, err
	}
	if len(ds) != len(cs) {
		return nil, fmt.Errorf("child reported %d results for %d cases", len(ds), len(cs))
	}
	return ds, nil
}

// ---------------------------------------------------------------- comparison

func firstDiff(a, b []string) string {
	for k := 0; k < len(a) && k < len(b); k++ {
		if a[k] != b[k] {
			return fmt.Sprintf("element %d: %q vs %q", k, a[k], b[k])
		}
	}
	return fmt.Sprintf("lengths differ: %d vs %d (common prefix equal)", len(a), len(b))
}

// c03Compare returns a signature and message for the first difference
// between two recordings ("" when equal).
func c03Compare(a, b *fpRec, sigA, sigB, what string) (string, string) {
	if hashLines(a.Events) != hashLines(b.Events) {
		return "nondeterministic:events", what + " handled different event sequences: " + firstDiff(a.Events, b.Events)
	}
	if hashLines(a.Msgs) != hashLines(b.Msgs) {
		return "nondeterministic:messages", what + " sent different message sequences (events equal): " + firstDiff(a.Msgs, b.Msgs)
	}
	for k := 0; k < len(a.Final) && k < len(b.Final); k++ {
		if a.Final[k] != b.Final[k] {
			return "nondeterministic:final-state:" + a.Final[k].Kind,
				fmt.Sprintf("%s ended in different states (events and messages equal): %s %s: %s vs %s",
					what, a.Final[k].Kind, a.Final[k].Name, clip(a.Final[k].Value, 600), clip(b.Final[k].Value, 600))
		}
	}
	if len(a.Final) != len(b.Final) {
		return "nondeterministic:final-state:count", fmt.Sprintf("%s recorded %d vs %d final-state items", what, len(a.Final), len(b.Final))
	}
	if sigA != sigB {
		return "nondeterministic:oracle-outcome", fmt.Sprintf("%s: outcome %q vs %q", what, sigA, sigB)
	}
	return "", ""
}

func clip(s string, n int) string {
	if len(s) > n {
		return s[:n] + "…"
	}
	return s
}

// ---------------------------------------------------------------- the check

func TestC03Units(t *testing.T) {
	s := kit.Begin(t, "C03", "datamover-rob",
		"the C23 data-mover assemblies (1-5 queued moves, 1-2 interleaved ideal controllers per storage, one or two storages, drawn clocks/latencies/port buffers) and the C21 ROB assemblies "+
			"(1-3 requesters, scripted out-of-order lower unit, drawn backpressure), drawn 1:1. Each case is executed R times in this process (R=3 quick, 6 thorough; timing.ResetIDGenerator "+
			"before each build) and once in a child process (re-exec of the test binary). Fingerprint: (a) every handled event in order: time, handler, Go type, secondary flag, JSON body "+
			"incl. ID (engine BeforeEvent hook); (b) every message sent on every port in order with time, port, type, all MsgMeta fields incl. ID and the JSON payload (port Send hook); (c) "+
			"json.Marshal of the exported State of every component and connection, sha256 of every storage, engine end time and timing.GetIDGeneratorNextID(). All R+1 fingerprints must be "+
			"equal; the first differing element is reported. Non-trivial: >=50 events and >=2 requests in flight at some point (memory requests of the mover / ROB occupancy)")
	defer s.End()
	s.Assume("the scripted harness components are deterministic functions of the case (no maps iterated, no own RNG)")

	dir := os.Getenv("VERIF_WORK")
	if dir == "" {
		dir = t.TempDir()
	}
	dir = filepath.Join(dir, fmt.Sprintf("unitschk-c03-%d", os.Getpid()))
	if err := os.MkdirAll(dir, 0o755); err != nil {
		t.Fatal(err)
	}
	defer os.RemoveAll(dir)

	// crossProcess runs the cases once more in one fresh child process and
	// compares each with its in-process digest.
	crossProcess := func(f kit.Failer, ps []c03Pending) bool {
		cs := make([]c03Case, len(ps))
		for i := range ps {
			cs[i] = ps[i].c
		}
		ds, err := c03RunChild(dir, cs, false)
		if err != nil {
			s.Fail(f, cs[0], "child-process", "%v", err)
			return false
		}
		for i, child := range ds {
			d0 := ps[i].dig
			if child.Events == d0.Events && child.Msgs == d0.Msgs && child.Final == d0.Final && child.Sig == d0.Sig {
				continue
			}
			// name the first difference: full recordings of a fresh in-process run and a fresh child
			here := c03Exec(cs[i])
			full, err := c03RunChild(dir, cs[i:i+1], true)
			if err != nil || full[0].Full == nil {
				s.Fail(f, cs[i], "child-process", "child digests differ (%+v vs %+v) and the full re-run failed: %v", child, d0, err)
				return false
			}
			sig, msg := c03Compare(here.rec, full[0].Full, here.dig.Sig, full[0].Sig, "an in-process run and a fresh child process")
			if sig == "" {
				sig, msg = "nondeterministic:child-runs", fmt.Sprintf("case %d of a %d-case child process differs from the in-process run (%+v vs %+v) but a single-case child agrees", i, len(ds), child, d0)
			}
			s.Fail(f, cs[i], sig+":cross-process", "%s", msg)
			return false
		}
		s.AddExtra("child-processes", 1)
		s.AddExtra("cases-compared-across-processes", len(ds))
		return true
	}

	var pending []c03Pending
	batch := false
	run := func(f kit.Failer, c c03Case) {
		reps := 3
		if kit.Thorough() {
			reps = 6
		}
		var runs []c03Run
		ok, sig, msg := kit.Guard(func() {
			for i := 0; i < reps; i++ {
				runs = append(runs, c03Exec(c))
			}
		})
		if !ok {
			s.Fail(f, c, normSig(sig), "%s", msg)
			return
		}
		for i := 1; i < len(runs); i++ {
			if sig, msg := c03Compare(runs[0].rec, runs[i].rec, runs[0].dig.Sig, runs[i].dig.Sig,
				fmt.Sprintf("in-process runs 0 and %d of the same case", i)); sig != "" {
				s.Fail(f, c, sig, "%s", msg)
				return
			}
		}
		d0 := runs[0].dig
		if batch {
			// the cross-process leg runs after the search, many cases per child
			pending = append(pending, c03Pending{c: c, dig: d0})
		} else if !crossProcess(f, []c03Pending{{c: c, dig: d0}}) {
			return
		}
		nt := d0.NEvents >= 50 && runs[0].maxInflight >= 2
		cls := []string{c.Kind}
		if d0.NEvents >= 1000 {
			cls = append(cls, "events>=1000")
		}
		if d0.Sig != "" {
			cls = append(cls, "oracle-outcome:"+d0.Sig)
		}
		if c.Kind == "datamover" {
			if c.DM.Mems[0].Ctls == 2 || (!c.DM.OneMem && c.DM.Mems[1].Ctls == 2) {
				cls = append(cls, "interleaved-controllers")
			}
			if len(c.DM.Moves) >= 2 {
				cls = append(cls, "queued-moves")
			}
		} else if c.ROB.NumRequesters > 1 {
			cls = append(cls, "multi-requester")
		}
		s.AddExtra("events", d0.NEvents)
		s.AddExtra("messages", d0.NMsgs)
		s.Note(c, nt, cls...)
	}

	var c c03Case
	if ok, err := kit.LoadReplay("C03", "datamover-rob", &c); ok {
		if err != nil {
			t.Fatal(err)
		}
		run(t, c)
		return
	} else if kit.ReplayMode() {
		t.Skip()
	}

	kit.SetChecks(600, 2_500)
	batch = true
	defer func() {
		// cross-process leg: 50 cases per fresh process
		for len(pending) > 0 && !t.Failed() {
			n := min(50, len(pending))
			if !crossProcess(t, pending[:n]) {
				return
			}
			pending = pending[n:]
		}
	}()
	rapid.Check(t, func(rt *rapid.T) {
		var c c03Case
		if rapid.Bool().Draw(rt, "kind") {
			dm := genC23(rt)
			c = c03Case{Kind: "datamover", DM: &dm}
		} else {
			r := genC21(rt)
			c = c03Case{Kind: "rob", ROB: &r}
		}
		run(rt, c)
	})
}
