package concchk

import (
	"encoding/json"
	"fmt"
	"os"
	"path/filepath"
	"sort"
	"strings"
	"testing"
	"time"

	"pgregory.net/rapid"

	"verif/harness/kit"
)

// ---- simulation presets ------------------------------------------------------------------

// c40Presets are the memory-hierarchy workloads a case can run (agent ->
// write-back cache -> ideal memory controller; the shape of
// /repo/mem/acceptancetests/writebackcache). Few presets on purpose: the
// quantifier of the property is over request schedules, and the unmonitored
// outcome of a preset is computed once per process and cached.
var c40Presets = []c40Case{
	{Seed: 1, Accesses: 500, MaxAddrLog: 12, CacheKB: 1, Ways: 2, MSHR: 2, DRAMLat: 20},
	{Seed: 2, Accesses: 400, MaxAddrLog: 14, CacheKB: 4, Ways: 4, MSHR: 4, DRAMLat: 100},
	{Seed: 3, Accesses: 650, MaxAddrLog: 10, CacheKB: 1, Ways: 1, MSHR: 1, DRAMLat: 5},
	{Seed: 4, Accesses: 450, MaxAddrLog: 16, CacheKB: 2, Ways: 2, MSHR: 8, DRAMLat: 50},
}

func c40SimKey(c c40Case) string {
	return fmt.Sprintf("%d/%d/%d/%d/%d/%d/%d/%d", c.Seed, c.Accesses, c.MaxAddrLog, c.CacheKB, c.Ways, c.MSHR, c.DRAMLat, c.SlowEvery)
}

// ---- generator ------------------------------------------------------------------------------

// weights of the request kinds in the menu
var c40Menu = []string{
	"pause", "pause", "continue", "continue", "state", "now", "now", "tick", "tick", "list",
	"component", "component", "field", "field", "field", "buffers", "buffers", "progress", "progress", "mode", "is_tracing",
}

// the quiescence sub-check is about pause / inspect / continue
var c40InspectMenu = []string{
	"pause", "continue", "continue", "state", "list", "component", "component", "component", "field", "field", "field", "field", "buffers", "mode",
}

func genC40Req(rt *rapid.T, menu []string, excluded map[string]bool, steered *bool) c40Req {
	kind := rapid.SampledFrom(menu).Draw(rt, "kind")
	if excluded[kind] {
		*steered = true
		var allowed []string
		for _, k := range menu {
			if !excluded[k] {
				allowed = append(allowed, k)
			}
		}
		kind = rapid.SampledFrom(allowed).Draw(rt, "kind2")
	}
	r := c40Req{Kind: kind}
	switch kind {
	case "tick", "component":
		r.Comp = rapid.SampledFrom(c40Components).Draw(rt, "comp")
	case "field":
		r.Comp = rapid.SampledFrom(c40Components).Draw(rt, "comp")
		if rapid.IntRange(0, 9).Draw(rt, "missing") == 0 {
			r.Field = "NoSuchField"
		} else {
			r.Field = rapid.SampledFrom(c40Fields[r.Comp]).Draw(rt, "field")
		}
		if rapid.IntRange(0, 3).Draw(rt, "paged") == 0 {
			r.Query = fmt.Sprintf("slice_offset=%d&slice_limit=%d", rapid.IntRange(0, 5).Draw(rt, "off"), rapid.IntRange(1, 20).Draw(rt, "lim"))
		}
	case "buffers":
		r.Query = rapid.SampledFrom([]string{"", "sort=level&limit=5", "sort=percent&limit=20", "sort=level&limit=3&offset=2"}).Draw(rt, "bq")
	}
	r.GapUS = rapid.SampledFrom([]int{0, 0, 0, 20, 100, 300, 1000, 3000}).Draw(rt, "gap")
	r.Yields = rapid.SampledFrom([]int{0, 0, 1, 3}).Draw(rt, "yields")
	return r
}

func genC40(rt *rapid.T, menu []string, excluded map[string]bool) (c40Case, bool) {
	c := c40Presets[rapid.IntRange(0, len(c40Presets)-1).Draw(rt, "preset")]
	c.Procs = rapid.SampledFrom([]int{2, 3, 4, 8}).Draw(rt, "procs")
	steered := false
	n := rapid.IntRange(30, 70).Draw(rt, "nreqs")
	for i := 0; i < n; i++ {
		c.Reqs = append(c.Reqs, genC40Req(rt, menu, excluded, &steered))
	}
	c.Reqs = append(c.Reqs, c40Req{Kind: "continue"})
	c.Early = rapid.IntRange(0, 2).Draw(rt, "early") == 0
	if c.Early {
		c.EarlyDelayUS = rapid.SampledFrom([]int{0, 500, 2000, 5000, 10000, 20000}).Draw(rt, "earlyDelay")
	}
	return c, steered
}

// ---- signatures ---------------------------------------------------------------------------------

const c40MonitorPrefix = "monitoring2.(*Monitor)."

// c40OverlapSig + "monitor.<handler>": the quiescence probe saw event handling
// in progress inside the handler's Pause()…Continue() bracket.
const c40OverlapSig = "inspection-overlaps-event:"

// c40RaceSig names a race by the monitor handler on one side and the kind of
// engine-goroutine code on the other ("engine-loop": the serial engine's own
// queue/time bookkeeping; "event-handler": component code running inside an
// event). The precise frames are in the message. One root cause (say, Pause
// returning while a handler still runs) shows with many different top frames;
// the handler name is what identifies the request class.
func c40RaceSig(r raceReport) string {
	side := func(st []raceFrame) string {
		h := ""
		for _, f := range st { // innermost first: keep the outermost monitor method
			if strings.HasPrefix(f.Fn, c40MonitorPrefix) {
				h = strings.TrimSuffix(strings.TrimPrefix(f.Fn, c40MonitorPrefix), "-fm")
				if i := strings.Index(h, ".func"); i >= 0 {
					h = h[:i]
				}
			}
		}
		if h != "" {
			return "monitor." + h
		}
		if hasFrame(st, "timing.(*SerialEngine).Run") || hasFrame(st, "timing.(*SerialEngine).RunUntil") {
			for _, f := range st { // innermost first: the harness' own component counts as component code
				if strings.HasPrefix(f.Fn, "verif/harness/") && !strings.Contains(f.Fn, "c40Recorder") {
					return "event-handler"
				}
				if f.Repo {
					break
				}
			}
			if strings.HasPrefix(topRepo(st), "timing.") {
				return "engine-loop"
			}
			return "event-handler"
		}
		return topRepo(st)
	}
	a, b := side(r.Stacks[0]), side(r.Stacks[1])
	if strings.HasPrefix(b, "monitor.") && !strings.HasPrefix(a, "monitor.") {
		a, b = b, a
	} else if strings.HasPrefix(a, "monitor.") == strings.HasPrefix(b, "monitor.") && a > b {
		a, b = b, a
	}
	return "race:" + a + "/" + b
}

// c40ExcludedKinds: request kinds whose handler is named by a listed known
// race finding.
func c40ExcludedKinds() map[string]bool {
	ex := map[string]bool{}
	for _, k := range kit.LoadKnown() {
		if k.Property != "C40" {
			continue
		}
		h := ""
		for _, pfx := range []string{"race:monitor.", c40OverlapSig + "monitor."} {
			if strings.HasPrefix(k.Sig, pfx) {
				h = strings.TrimPrefix(k.Sig, pfx)
			}
		}
		if h == "" {
			continue
		}
		if i := strings.IndexByte(h, '/'); i >= 0 {
			h = h[:i]
		}
		for kind, handler := range c40Handler {
			if handler == h {
				ex[kind] = true
			}
		}
	}
	return ex
}

func c40PanicSig(block string) string {
	for _, l := range strings.Split(block, "\n") {
		l = strings.TrimSpace(l)
		if strings.HasPrefix(l, akitaPrefix) {
			fn := l
			if i := strings.LastIndex(fn, "("); i > 0 {
				fn = fn[:i]
			}
			return "http-panic:" + normFunc(fn)
		}
	}
	return "http-panic:unknown"
}

// ---- running a case ---------------------------------------------------------------------------------

type c40Runner struct {
	t     *testing.T
	s     *kit.Session
	root  string
	pool  *childPool
	bases map[string]c40Outcome
}

// c40BaseCache: unmonitored outcomes per preset, shared by the sub-checks of
// one test process.
var c40BaseCache = map[string]c40Outcome{}

func newC40Runner(t *testing.T, s *kit.Session) *c40Runner {
	root := workDir(t)
	return &c40Runner{t: t, s: s, root: root, pool: newChildPool(root), bases: c40BaseCache}
}

type c40Verdict struct {
	Res     c40Result
	Child   childRun
	Inconcl string
}

func (r *c40Runner) child(rq c40ChildReq, fresh bool) c40Verdict {
	var v c40Verdict
	dir := newCaseDir(r.t, r.root, "c40")
	defer os.RemoveAll(dir)
	cf := filepath.Join(dir, "case.json")
	of := filepath.Join(dir, "out.json")
	b, _ := json.Marshal(rq)
	if err := os.WriteFile(cf, b, 0o644); err != nil {
		r.t.Fatalf("write case: %v", err)
	}
	// the HTTP client runs here, in the parent process
	stop := make(chan struct{})
	clientDone := make(chan []c40Served, 1)
	if rq.Mon || rq.Probe {
		go func() {
			var served []c40Served
			defer func() {
				_ = os.WriteFile(filepath.Join(dir, "clientdone"), []byte("1"), 0o644)
				clientDone <- served
			}()
			var ann c40Announce
			for {
				select {
				case <-stop:
					return
				default:
				}
				if b, err := os.ReadFile(filepath.Join(dir, "port")); err == nil && json.Unmarshal(b, &ann) == nil && ann.Port > 0 {
					break
				}
				time.Sleep(time.Millisecond)
			}
			served = c40RunClients(ann.Port, rq.Case, stop)
		}()
	} else {
		clientDone <- nil
	}
	cr, err := r.pool.Run("C40", cf, of, 8*time.Minute, fresh)
	close(stop)
	served := <-clientDone
	if err != nil {
		v.Inconcl = "child could not be started: " + err.Error()
		return v
	}
	v.Child = cr
	ob, rerr := os.ReadFile(of)
	if cr.TimedOut || rerr != nil {
		v.Inconcl = fmt.Sprintf("child gave no report (timeout=%v died=%v): %s", cr.TimedOut, cr.Died, tail(cr.Stderr, 8000))
		saveInconclusive("C40", v.Inconcl)
		return v
	}
	if err := json.Unmarshal(ob, &v.Res); err != nil {
		v.Inconcl = "bad child report: " + err.Error()
		return v
	}
	for i := range served {
		served[i].MidRun = served[i].Err == "" && served[i].SendNS >= v.Res.RunStartNS && served[i].RecvNS <= v.Res.RunEndNS
	}
	v.Res.Served = served
	if v.Res.Hang != "" {
		v.Inconcl = "hang: " + v.Res.Hang
		g, _ := os.ReadFile(cf + ".goroutines")
		saveInconclusive("C40", v.Inconcl+"\n"+string(g))
	}
	return v
}

func c40HasKind(c c40Case, kind string) bool {
	for _, r := range c.Reqs {
		if r.Kind == kind {
			return true
		}
	}
	return false
}

// c40Diff compares the monitored outcome with the unmonitored one. strict: the
// whole fingerprint (dispatch order and times, responses, memory); otherwise
// (a tick request injected an extra event on purpose, which may legitimately
// shift the access stream) only completion.
func c40Diff(base, mon c40Outcome, accesses int, strict bool) (string, string) {
	if mon.Pending != 0 || mon.Left != 0 || mon.Reads != accesses || mon.Writes != accesses {
		return "incomplete", fmt.Sprintf("monitored run ended with %d pending, %d never issued, %d/%d read and %d/%d write responses", mon.Pending, mon.Left, mon.Reads, accesses, mon.Writes, accesses)
	}
	if !strict {
		return "", ""
	}
	switch {
	case base.RspHash != mon.RspHash:
		return "responses", fmt.Sprintf("responses (time,data) differ: %s vs %s", base.RspHash, mon.RspHash)
	case base.MemHash != mon.MemHash:
		return "memory", fmt.Sprintf("final DRAM contents differ: %s vs %s", base.MemHash, mon.MemHash)
	case base.AgentHash != mon.AgentHash:
		return "agent-state", fmt.Sprintf("agent's known values differ: %s vs %s", base.AgentHash, mon.AgentHash)
	case base.FinalTime != mon.FinalTime:
		return "final-time", fmt.Sprintf("final time %d vs %d", base.FinalTime, mon.FinalTime)
	case base.Events != mon.Events || base.EventHash != mon.EventHash:
		return "event-order", fmt.Sprintf("dispatched events differ: %d/%s vs %d/%s", base.Events, base.EventHash, mon.Events, mon.EventHash)
	}
	return "", ""
}

// run executes and judges one case. It returns the number of requests served
// mid-run (for the dedicated reproductions) and the race signatures seen.
func (r *c40Runner) run(f kit.Failer, c c40Case, fresh bool) {
	s := r.s
	key := c40SimKey(c)
	base, haveBase := r.bases[key]
	v := r.child(c40ChildReq{Case: c, Base: !haveBase, Mon: true}, fresh)
	if v.Inconcl != "" {
		s.AddExtra("inconclusive_runs", 1)
		s.Note(c, false, "inconclusive")
		return
	}
	if !v.Res.Race {
		r.t.Fatalf("child was not built with -race")
	}
	if !haveBase {
		if v.Res.Base.Panic != "" || !v.Res.Base.Finished {
			s.Note(c, false, "base-run-failed")
			return
		}
		base = v.Res.Base
		r.bases[key] = base
	}
	s.AddExtra("monitored_ms_total", int(v.Res.MonMS))

	known := false
	for _, rr := range v.Child.Races {
		s.Fail(f, c, c40RaceSig(rr), "data race: %s\n%s", rr.detail(), head(rr.Raw, 3500))
		known = true
	}
	for _, p := range v.Child.Panics {
		s.Fail(f, c, c40PanicSig(p), "a monitor handler panicked:\n%s", head(p, 3000))
		known = true
	}
	if v.Res.Mon.Panic != "" {
		s.Fail(f, c, "engine-panic:"+firstRepoFrame(v.Res.Mon.Panic), "the monitored run panicked: %s", head(v.Res.Mon.Panic, 3000))
		known = true
	}
	if known {
		s.Note(c, false, "hit-known-finding")
		return
	}

	strict := !c40HasKind(c, "tick")
	if what, msg := c40Diff(base, v.Res.Mon, c.Accesses, strict); what != "" {
		// Make sure the unmonitored run is itself reproducible before blaming
		// the monitor: two more unmonitored runs in a fresh process.
		b1 := r.child(c40ChildReq{Case: c, Base: true}, true)
		b2 := r.child(c40ChildReq{Case: c, Base: true}, false)
		if b1.Inconcl != "" || b2.Inconcl != "" || b1.Res.Base != b2.Res.Base || b1.Res.Base != base {
			s.AddExtra("base_not_reproducible", 1)
			s.Note(c, false, "base-not-reproducible")
			return
		}
		s.Fail(f, c, "outcome-differs:"+what, "monitored run differs from the unmonitored run of the same case: %s\nunmonitored %+v\nmonitored   %+v", msg, base, v.Res.Mon)
		s.Note(c, false, "hit-known-finding")
		return
	}

	mid, paused, errs := 0, 0, 0
	kinds := map[string]bool{}
	for _, sv := range v.Res.Served {
		if sv.Err != "" {
			errs++
			continue
		}
		if sv.MidRun {
			mid++
			kinds["midrun:"+sv.Kind] = true
			if sv.Paused {
				paused++
			}
		}
	}
	cl := []string{fmt.Sprintf("procs:%d", c.Procs)}
	for k := range kinds {
		cl = append(cl, k)
	}
	if paused > 0 {
		cl = append(cl, "requests-while-paused")
	}
	if errs > 0 {
		cl = append(cl, "request-transport-error")
	}
	if !strict {
		cl = append(cl, "tick-injected(relaxed-compare)")
	} else {
		cl = append(cl, "strict-compare")
	}
	if mid < len(v.Res.Served) {
		cl = append(cl, "sim-finished-before-last-request")
	}
	if c.Early {
		cl = append(cl, "clients-may-meet-the-start-of-Run")
	}
	s.AddExtra("requests_served_midrun", mid)
	s.Note(c, mid >= 20, cl...)
}

func firstRepoFrame(stack string) string {
	for _, l := range strings.Split(stack, "\n") {
		l = strings.TrimSpace(l)
		if strings.HasPrefix(l, akitaPrefix) {
			if i := strings.LastIndex(l, "("); i > 0 {
				l = l[:i]
			}
			return normFunc(l)
		}
	}
	return "unknown"
}

// ---- the check --------------------------------------------------------------------------------------

const c40Rule = "each case runs in a child process of the -race test binary: a memory hierarchy (seeded access agent -> write-back cache -> ideal memory controller, 400–650 reads and as many writes, " +
	"one of 4 presets) built by simulation.MakeBuilder() with the monitor on (free port taken from the monitor's own announcement), engine.Run() on one goroutine while the parent process issues (once the first event has been handled) 30–70 " +
	"drawn requests over loopback HTTP to the real routes /api/pause, /api/continue, /api/engine/state, /api/now, /api/tick/<comp>, /api/list_components, /api/component/<comp>, " +
	"/api/field/<json> (existing and missing fields, with and without slice paging), /api/hangdetector/buffers (sort/limit/offset), /api/progress, /api/mode, /api/trace/is_tracing with drawn gaps " +
	"(0–3 ms) and Gosched counts, GOMAXPROCS 2/3/4/8, always ending with continue. (The client is not in the simulation process so that no harness-side synchronisation can reach the HTTP handler " +
	"and mask a race.) Oracle: (1) the race detector reports nothing (signature = monitor handler / engine-loop|event-handler); no handler " +
	"panics; (2) the run finishes with every access answered and — unless a tick request injected an event — the same fingerprint as the unmonitored run of the same preset: hash of (time, handler) of " +
	"every dispatched event, hash of (time, data) of every response, final DRAM contents, agent state, final time (IDs excluded); a difference is only reported after two more unmonitored runs " +
	"reproduced the reference. Request kinds whose handler is named by a listed known race finding are replaced by other kinds (case counted as excluded). A run that does not finish within the " +
	"bounded wait is inconclusive, never a violation. Non-trivial: ≥ 20 requests were answered while engine.Run() was in progress (request send/receive times against the run's start/end times)."

func TestC40Monitor(t *testing.T) {
	s := kit.Begin(t, "C40", "monitor", c40Rule)
	defer s.End()
	s.Assume("interleavings: only the schedules produced by the drawn gaps/GOMAXPROCS were seen; the race detector is precise only for executed accesses; serial engine only")
	if !raceEnabled {
		t.Fatalf("this check needs the race detector: build with -race")
	}
	r := newC40Runner(t, s)
	defer r.pool.Close()
	defer func() { s.Extra("child_processes_started", r.pool.Started) }()
	excluded := c40ExcludedKinds()
	var exl []string
	for k := range excluded {
		exl = append(exl, k)
	}
	sort.Strings(exl)
	s.Extra("request_kinds_excluded_by_known_findings", strings.Join(exl, ","))

	var c c40Case
	if ok, err := kit.LoadReplay("C40", "monitor", &c); ok {
		if err != nil {
			t.Fatal(err)
		}
		for i := 0; i < 4 && !t.Failed(); i++ { // schedule-dependent: several attempts
			r.run(t, c, true)
		}
		return
	} else if kit.ReplayMode() {
		t.Skip()
	}

	kit.SetChecks(14, 120)
	rapid.Check(t, func(rt *rapid.T) {
		c, steered := genC40(rt, c40Menu, excluded)
		if steered {
			s.Excluded(1)
		}
		r.run(rt, c, false)
	})
}

// ---- dedicated reproductions of listed findings -----------------------------------------------------------

// c40Known runs a fixed request pattern against preset 0 in a fresh child, up
// to `attempts` times, and reports each listed finding that reproduced. A race
// that is not listed is a violation like in the main check. Nothing is printed
// when nothing reproduced.
func c40Known(t *testing.T, sub string, pattern []c40Req, repeat int, attempts int) {
	s := kit.Begin(t, "C40", sub, fmt.Sprintf("fixed request pattern %v x%d against preset 0, up to %d child runs; reports a listed finding only when it reproduced", pattern, repeat, attempts))
	defer s.End()
	if kit.ReplayMode() {
		t.Skip()
	}
	if !raceEnabled {
		t.Skip("needs -race")
	}
	r := newC40Runner(t, s)
	defer r.pool.Close()
	c := c40Presets[0]
	c.Procs = 4
	for i := 0; i < repeat; i++ {
		c.Reqs = append(c.Reqs, pattern...)
	}
	c.Reqs = append(c.Reqs, c40Req{Kind: "continue"})
	for a := 0; a < attempts; a++ {
		v := r.child(c40ChildReq{Case: c, Mon: true}, true)
		if v.Inconcl != "" {
			continue
		}
		seen := map[string]string{}
		for _, rr := range v.Child.Races {
			sig := c40RaceSig(rr)
			if _, dup := seen[sig]; !dup {
				seen[sig] = "data race " + rr.detail()
			}
		}
		for _, p := range v.Child.Panics {
			seen[c40PanicSig(p)] = firstLineOf(p)
		}
		if len(seen) == 0 {
			continue
		}
		sigs := make([]string, 0, len(seen))
		for sig := range seen {
			sigs = append(sigs, sig)
		}
		sort.Strings(sigs)
		for _, sig := range sigs {
			s.KnownStillFails(t, c, sig, fmt.Sprintf("attempt %d: %s", a+1, seen[sig]))
		}
		return
	}
}

func TestC40Known_Now(t *testing.T) {
	c40Known(t, "known-now", []c40Req{{Kind: "now", GapUS: 200}}, 40, 4)
}

func TestC40Known_Tick(t *testing.T) {
	c40Known(t, "known-tick", []c40Req{{Kind: "tick", Comp: "DRAM", GapUS: 300}, {Kind: "tick", Comp: "Cache", GapUS: 300}}, 20, 4)
}

func TestC40Known_Progress(t *testing.T) {
	c40Known(t, "known-progress", []c40Req{{Kind: "progress", GapUS: 300}}, 40, 4)
}

// ---- sub-check: the inspection bracket is quiescent -------------------------------------------------

const c40QRule = "as sub-check monitor, but the child builds the simulation without the builder's monitor and attaches its own monitoring2.Monitor to a wrapper of the same engine " +
	"(components, ports and progress bars registered as simulation.RegisterComponent does). The wrapper forwards everything and notes the engine phase (published by an engine hook: " +
	"inside event k / between events) when the handler's Pause() returned and when it called Continue(). Oracle (the C05 invariant seen through the monitor): for the handlers that read " +
	"component state inside the bracket (component and field inspection) no event may be in progress when Pause() has returned and no event may start or end before Continue() is called; " +
	"plus the completion/fingerprint oracle of sub-check monitor. This sub-check does not rely on the race detector (its own instrumentation synchronises). " +
	"Non-trivial: ≥ 5 inspection brackets were observed while engine.Run() was in progress."

func TestC40Quiescence(t *testing.T) {
	s := kit.Begin(t, "C40", "quiescence", c40QRule)
	defer s.End()
	s.Assume("an event counts as in progress between the engine's before-event and after-event hooks")
	r := newC40Runner(t, s)
	defer r.pool.Close()
	excluded := c40ExcludedKinds()

	run := func(f kit.Failer, c c40Case, fresh bool) {
		key := c40SimKey(c)
		base, haveBase := r.bases[key]
		v := r.child(c40ChildReq{Case: c, Base: !haveBase, Probe: true}, fresh)
		if v.Inconcl != "" {
			s.AddExtra("inconclusive_runs", 1)
			s.Note(c, false, "inconclusive")
			return
		}
		if !haveBase {
			if v.Res.Base.Panic != "" || !v.Res.Base.Finished {
				s.Note(c, false, "base-run-failed")
				return
			}
			base = v.Res.Base
			r.bases[key] = base
		}
		n, bad := 0, 0
		for _, sec := range v.Res.Sections {
			if sec.Handler != "listFieldValue" && sec.Handler != "listComponentDetails" {
				continue
			}
			n++
			if sec.S1%2 == 1 || sec.S2 != sec.S1 {
				bad++
				what := fmt.Sprintf("event %d was still being handled when Pause() returned to Monitor.%s", sec.S1/2+1, sec.Handler)
				if sec.S1%2 == 0 {
					what = fmt.Sprintf("the engine went on to event %d after Pause() had returned to Monitor.%s (between events, %d handled)", sec.S2/2+sec.S2%2, sec.Handler, sec.S1/2)
				}
				s.Fail(f, c, c40OverlapSig+"monitor."+sec.Handler, "%s; phase at Continue() = %d (2k: idle after k events, 2k+1: inside event k+1). The handler serialises component state inside this bracket.", what, sec.S2)
			}
		}
		if bad > 0 {
			s.Note(c, false, "hit-known-finding")
			return
		}
		for _, p := range v.Child.Panics {
			s.Fail(f, c, c40PanicSig(p), "a monitor handler panicked:\n%s", head(p, 3000))
			return
		}
		if what, msg := c40Diff(base, v.Res.Mon, c.Accesses, true); what != "" {
			s.Fail(f, c, "outcome-differs:"+what, "monitored run differs from the unmonitored run of the same case: %s", msg)
			return
		}
		mid := 0
		for _, sv := range v.Res.Served {
			if sv.MidRun {
				mid++
			}
		}
		cl := []string{fmt.Sprintf("procs:%d", c.Procs)}
		if n > 0 {
			cl = append(cl, "inspection-brackets-observed")
		}
		s.AddExtra("inspection_brackets", n)
		s.Note(c, n >= 5 && mid >= 20, cl...)
	}

	var c c40Case
	if ok, err := kit.LoadReplay("C40", "quiescence", &c); ok {
		if err != nil {
			t.Fatal(err)
		}
		for i := 0; i < 4 && !t.Failed(); i++ {
			run(t, c, true)
		}
		return
	} else if kit.ReplayMode() {
		t.Skip()
	}

	kit.SetChecks(6, 30)
	rapid.Check(t, func(rt *rapid.T) {
		c, steered := genC40(rt, c40InspectMenu, excluded)
		if steered {
			s.Excluded(1)
		}
		run(rt, c, false)
	})
}

// ---- sub-check: concurrent clients against long event handlers ---------------------------------------

// c40ConcPresets: short workloads (the clients' plans span a few tens of
// milliseconds; the run should not outlast them by much). SlowEvery is fixed
// per preset so that the unmonitored reference is computed once per preset.
var c40ConcPresets = []c40Case{
	{Seed: 11, Accesses: 40, MaxAddrLog: 12, CacheKB: 1, Ways: 2, MSHR: 2, DRAMLat: 20, SlowEvery: 8},
	{Seed: 12, Accesses: 50, MaxAddrLog: 14, CacheKB: 4, Ways: 4, MSHR: 4, DRAMLat: 100, SlowEvery: 12},
	{Seed: 13, Accesses: 70, MaxAddrLog: 10, CacheKB: 1, Ways: 1, MSHR: 1, DRAMLat: 5, SlowEvery: 20},
	{Seed: 14, Accesses: 60, MaxAddrLog: 16, CacheKB: 2, Ways: 2, MSHR: 8, DRAMLat: 50, SlowEvery: 32},
}

// c40Profile: what a client mostly does. (Not part of the case: only the drawn
// requests are.)
type c40Profile struct {
	menu []string
	gaps []int
	spin []int
}

var c40Profiles = []c40Profile{
	{ // mixed
		menu: []string{"pause", "pause", "pause", "continue", "continue", "continue", "continue", "tick", "tick", "tick", "tick", "now", "now",
			"component", "component", "field", "field", "field", "field", "state", "buffers", "progress", "list", "mode", "is_tracing"},
		gaps: []int{0, 0, 0, 100, 300, 1000, 2500},
		spin: []int{0, 0, 20, 50, 150, 400},
	},
	{ // pauser: holds and releases the engine in quick succession
		menu: []string{"pause", "pause", "pause", "pause", "continue", "continue", "continue", "continue", "continue", "state", "tick", "now"},
		gaps: []int{0, 0, 100, 300, 1000},
		spin: []int{0, 20, 50, 150, 400},
	},
	{ // inspector: inspections back to back
		menu: []string{"tick", "tick", "tick", "tick", "now", "now", "component", "component", "field", "field", "field", "field", "continue", "buffers", "progress"},
		gaps: []int{0, 0, 0, 0, 0, 100, 300},
		spin: []int{0, 0, 0, 20, 50, 150},
	},
}

// the components a concurrent case inspects: mostly the harness' own slow
// component
var c40ConcComps = []string{c40SlowName, c40SlowName, c40SlowName, "MemAccessAgent", "Cache", "DRAM"}

func genC40ConcReq(rt *rapid.T, p c40Profile, tickLib bool, excluded map[string]bool, steered *bool) c40Req {
	kind := rapid.SampledFrom(p.menu).Draw(rt, "kind")
	if excluded[kind] {
		*steered = true
		var allowed []string
		for _, k := range p.menu {
			if !excluded[k] {
				allowed = append(allowed, k)
			}
		}
		if len(allowed) == 0 {
			allowed = []string{"state"}
		}
		kind = rapid.SampledFrom(allowed).Draw(rt, "kind2")
	}
	r := c40Req{Kind: kind}
	switch kind {
	case "tick":
		r.Comp = c40SlowName
		if tickLib {
			r.Comp = rapid.SampledFrom(c40ConcComps).Draw(rt, "comp")
		}
	case "component":
		r.Comp = rapid.SampledFrom(c40ConcComps).Draw(rt, "comp")
	case "field":
		r.Comp = rapid.SampledFrom(c40ConcComps).Draw(rt, "comp")
		if rapid.IntRange(0, 11).Draw(rt, "missing") == 0 {
			r.Field = "NoSuchField"
		} else {
			r.Field = rapid.SampledFrom(c40Fields[r.Comp]).Draw(rt, "field")
		}
		if r.Comp != c40SlowName && rapid.IntRange(0, 4).Draw(rt, "paged") == 0 {
			r.Query = fmt.Sprintf("slice_offset=%d&slice_limit=%d", rapid.IntRange(0, 5).Draw(rt, "off"), rapid.IntRange(1, 20).Draw(rt, "lim"))
		}
	case "buffers":
		r.Query = rapid.SampledFrom([]string{"", "sort=level&limit=5", "sort=percent&limit=20"}).Draw(rt, "bq")
	}
	r.GapUS = rapid.SampledFrom(p.gaps).Draw(rt, "gap")
	r.SpinUS = rapid.SampledFrom(p.spin).Draw(rt, "spin")
	r.Yields = rapid.SampledFrom([]int{0, 0, 1}).Draw(rt, "yields")
	return r
}

func genC40Conc(rt *rapid.T, excluded map[string]bool) (c40Case, bool) {
	c := c40ConcPresets[rapid.IntRange(0, len(c40ConcPresets)-1).Draw(rt, "preset")]
	c.Procs = rapid.SampledFrom([]int{2, 3, 4, 8}).Draw(rt, "procs")
	nd := rapid.IntRange(5, 12).Draw(rt, "ndur")
	for i := 0; i < nd; i++ {
		c.SlowDurUS = append(c.SlowDurUS, rapid.SampledFrom([]int{0, 50, 200, 500, 500, 1000, 1000, 2000, 2000, 3000, 5000}).Draw(rt, "dur"))
	}
	c.Probe = rapid.IntRange(0, 2).Draw(rt, "probe") == 0
	// a tick of a library component may legitimately shift the access stream
	// (relaxed compare): only one case in four has them
	tickLib := rapid.IntRange(0, 3).Draw(rt, "tickLib") == 0
	steered := false
	ncl := rapid.IntRange(2, 4).Draw(rt, "clients")
	for i := 0; i < ncl; i++ {
		p := c40Profiles[rapid.SampledFrom([]int{0, 0, 1, 1, 2, 2, 2}).Draw(rt, "profile")]
		n := rapid.IntRange(20, 45).Draw(rt, "nreqs")
		var reqs []c40Req
		for j := 0; j < n; j++ {
			reqs = append(reqs, genC40ConcReq(rt, p, tickLib, excluded, &steered))
		}
		c.Clients = append(c.Clients, reqs)
	}
	c.Early = rapid.IntRange(0, 2).Draw(rt, "early") == 0
	if c.Early {
		c.EarlyDelayUS = rapid.SampledFrom([]int{0, 500, 2000, 5000, 10000, 20000}).Draw(rt, "earlyDelay")
	}
	return c, steered
}

func c40IsInspection(kind string) bool {
	return kind == "tick" || kind == "now" || kind == "component" || kind == "field"
}

// c40ConcStats is what the stamps say about the interleaving that happened:
// send/receive times of every request (parent process) against the wall-clock
// spans of Slow's handler executions (child process, same clock).
type c40ConcStats struct {
	clientsMidRun         int // clients with at least one request answered mid-run
	mid                   int
	inFlightTogether      int // mid-run requests that were in flight together with a request of another client
	pauseMidSlow          int // a pause was sent while Slow's handler still had >= 200 us to run, and answered after it ended
	inspectDuringPending  int // inspections of another client sent while such a pause was in flight and the handler still had >= 100 us to run
	inspectOverlapPending int // inspections of another client in flight (send..receive) together with such a pause
	inspectMidSlow        int // inspections sent while Slow's handler had >= 200 us to run (their own Pause has to wait)
	inspectPausedByOther  int // inspections sent and answered while the engine was held by a completed pause of another client
	slowSpans, slowLongMS int
}

func c40ConcJudge(res c40Result) c40ConcStats {
	var st c40ConcStats
	spans := res.SlowSpans
	st.slowSpans = len(spans)
	for _, sp := range spans {
		if sp[1]-sp[0] >= 1_000_000 {
			st.slowLongMS++
		}
	}
	// span active at time t with at least `left` ns to go
	active := func(t, left int64) (int64, bool) {
		i := sort.Search(len(spans), func(i int) bool { return spans[i][1] > t })
		if i < len(spans) && spans[i][0] <= t && spans[i][1]-t >= left {
			return spans[i][1], true
		}
		return 0, false
	}
	var mid []c40Served
	clients := map[int]bool{}
	for _, sv := range res.Served {
		if sv.MidRun {
			mid = append(mid, sv)
			if sv.Client >= 0 {
				clients[sv.Client] = true
			}
		}
	}
	st.mid = len(mid)
	st.clientsMidRun = len(clients)
	for i, a := range mid {
		for j, b := range mid {
			if i != j && a.Client != b.Client && a.SendNS < b.RecvNS && b.SendNS < a.RecvNS {
				st.inFlightTogether++
				break
			}
		}
	}
	for _, p := range mid {
		if c40IsInspection(p.Kind) {
			if _, ok := active(p.SendNS, 200_000); ok {
				st.inspectMidSlow++
			}
			// held by a completed pause of another client: a pause P of another
			// client answered before this was sent, and no continue of anybody in
			// flight at any time between P's answer and this answer
			for _, q := range mid {
				if q.Kind != "pause" || q.Client == p.Client || q.RecvNS > p.SendNS {
					continue
				}
				held := true
				for _, k := range res.Served {
					if k.Kind == "continue" && k.Err == "" && k.RecvNS >= q.RecvNS && k.SendNS <= p.RecvNS {
						held = false
						break
					}
				}
				if held {
					st.inspectPausedByOther++
					break
				}
			}
		}
		if p.Kind != "pause" {
			continue
		}
		end, ok := active(p.SendNS, 200_000)
		if !ok || p.RecvNS < end {
			continue
		}
		st.pauseMidSlow++
		for _, q := range mid {
			if q.Client == p.Client || !c40IsInspection(q.Kind) {
				continue
			}
			if q.SendNS > p.SendNS && end-q.SendNS >= 100_000 {
				st.inspectDuringPending++
			}
			if q.SendNS < p.RecvNS && p.SendNS < q.RecvNS {
				st.inspectOverlapPending++
			}
		}
	}
	return st
}

const c40ORule = "as sub-check monitor (child process of the -race binary, client in the parent), but (a) 2–4 concurrent clients, each with a connection of its own and a drawn plan of 20–45 requests " +
	"(pause, continue, tick, now, component, field, state, buffers, progress, list, mode, is_tracing, from a drawn profile per client: mixed / mostly pause and continue / inspections back to back; drawn sleep 0–2.5 ms, busy-wait 0–400 us and Gosched before each), after all clients have finished the harness issues one " +
	"unconditional continue (no request of the API waits for another request, so every plan terminates under every interleaving); (b) short workloads (40–70 reads and writes) plus a harness component " +
	"Slow registered like any component: the engine hook injects an event for it at every 8th–32nd dispatched event (fixed per workload), whose handler busy-works for a drawn 0–5 ms (cycled list of 5–12 durations), " +
	"bumping its own state all the time and keeping a Busy marker set meanwhile, so that pauses regularly arrive mid-handler and wait, and other clients' requests arrive while they wait; half of the " +
	"tick/component/field requests address Slow. One case in three runs with the harness' own Monitor over the Pause/Continue-observing engine wrapper (probe) instead of the builder's monitor. " +
	"Oracle: (1) no race report, no handler panic (as sub-check monitor); (2) explicit witnesses of an inspection overlapping event handling, independent of the race detector: " +
	"Slow.TickLater() called by /api/tick/Slow finds Slow's Busy marker set; the answer to /api/component/Slow or /api/field/Slow… shows Busy=1; probe: Monitor.now read the clock while an event was " +
	"in progress, an event was in progress when Pause() returned to an inspection handler or to pauseEngine, or the engine moved between that and the matching Continue(); (3) completion and fingerprint " +
	"against the unmonitored run with the same injected events (the monitor's pokes of Slow excluded; one case in four also ticks library components and is compared on completion only). " +
	"Non-trivial (from the stamps: request send/receive times in the parent against the wall-clock spans of Slow's handler executions in the child): >= 2 clients were answered mid-run and a " +
	"pause was sent while Slow's handler still had >= 200 us to run and was answered only after it ended."

func TestC40Overlap(t *testing.T) {
	s := kit.Begin(t, "C40", "overlap", c40ORule)
	defer s.End()
	s.Assume("interleavings: only the schedules produced by the drawn delays, handler durations and GOMAXPROCS were seen")
	if !raceEnabled {
		t.Fatalf("this check needs the race detector: build with -race")
	}
	r := newC40Runner(t, s)
	defer r.pool.Close()
	excluded := c40ExcludedKinds()

	run := func(f kit.Failer, c c40Case, fresh bool) {
		key := c40SimKey(c)
		base, haveBase := r.bases[key]
		v := r.child(c40ChildReq{Case: c, Base: !haveBase, Mon: true}, fresh)
		if v.Inconcl != "" {
			s.AddExtra("inconclusive_runs", 1)
			s.Note(c, false, "inconclusive")
			return
		}
		if !v.Res.Race {
			r.t.Fatalf("child was not built with -race")
		}
		if !haveBase {
			if v.Res.Base.Panic != "" || !v.Res.Base.Finished {
				s.Note(c, false, "base-run-failed")
				return
			}
			base = v.Res.Base
			r.bases[key] = base
		}
		s.AddExtra("monitored_ms_total", int(v.Res.MonMS))
		st := c40ConcJudge(v.Res)
		stamp := fmt.Sprintf("[%d clients, %d requests mid-run, %d Slow spans (%d >= 1 ms), pauses sent mid-Slow-handler: %d, inspections sent while such a pause was pending: %d]",
			st.clientsMidRun, st.mid, st.slowSpans, st.slowLongMS, st.pauseMidSlow, st.inspectDuringPending)

		known := false
		for _, rr := range v.Child.Races {
			s.Fail(f, c, c40RaceSig(rr), "data race: %s %s\n%s", rr.detail(), stamp, head(rr.Raw, 3500))
			known = true
		}
		for _, p := range v.Child.Panics {
			s.Fail(f, c, c40PanicSig(p), "a monitor handler panicked:\n%s", head(p, 3000))
			known = true
		}
		if v.Res.Mon.Panic != "" {
			s.Fail(f, c, "engine-panic:"+firstRepoFrame(v.Res.Mon.Panic), "the monitored run panicked: %s", head(v.Res.Mon.Panic, 3000))
			known = true
		}
		// explicit witnesses
		if n := v.Res.TickWhileBusy + v.Res.TickBusyAtomic; n > 0 {
			s.Fail(f, c, c40OverlapSig+"monitor.tick", "Monitor.tick called Slow.TickLater() while Slow's event handler was running (%d of %d /api/tick/Slow calls found the handler's Busy marker set) %s",
				n, v.Res.SlowTicks, stamp)
			known = true
		}
		for _, sv := range v.Res.Served {
			if sv.SawBusy {
				s.Fail(f, c, c40OverlapSig+"monitor."+c40Handler[sv.Kind], "the answer to a %s inspection of Slow (client %d) shows Busy=1: the component was read while its event handler was running %s\n%s",
					sv.Kind, sv.Client, stamp, head(sv.Body, 600))
				known = true
				break
			}
		}
		if v.Res.NowDuringEvent > 0 {
			s.Fail(f, c, c40OverlapSig+"monitor.now", "Monitor.now read the engine's clock while an event was being handled (%d of %d calls) %s", v.Res.NowDuringEvent, v.Res.NowCalls, stamp)
			known = true
		}
		brackets := 0
		for _, sec := range v.Res.Sections {
			brackets++
			if sec.S1%2 == 1 || sec.S2 != sec.S1 {
				what := fmt.Sprintf("event %d was still being handled when Pause() returned to Monitor.%s", sec.S1/2+1, sec.Handler)
				if sec.S1%2 == 0 {
					what = fmt.Sprintf("the engine went on handling events after Pause() had returned to Monitor.%s and before the matching Continue() (%d handled at Pause, phase %d at Continue)", sec.Handler, sec.S1/2, sec.S2)
				}
				s.Fail(f, c, c40OverlapSig+"monitor."+sec.Handler, "%s %s", what, stamp)
				known = true
				break
			}
		}
		if known {
			s.Note(c, false, "hit-known-finding")
			return
		}

		strict := true
		for _, cl := range c.Clients {
			for _, rq := range cl {
				if rq.Kind == "tick" && rq.Comp != c40SlowName {
					strict = false
				}
			}
		}
		if what, msg := c40Diff(base, v.Res.Mon, c.Accesses, strict); what != "" {
			b1 := r.child(c40ChildReq{Case: c, Base: true}, true)
			b2 := r.child(c40ChildReq{Case: c, Base: true}, false)
			if b1.Inconcl != "" || b2.Inconcl != "" || b1.Res.Base != b2.Res.Base || b1.Res.Base != base {
				s.AddExtra("base_not_reproducible", 1)
				s.Note(c, false, "base-not-reproducible")
				return
			}
			s.Fail(f, c, "outcome-differs:"+what, "monitored run differs from the unmonitored run of the same case: %s %s\nunmonitored %+v\nmonitored   %+v", msg, stamp, base, v.Res.Mon)
			s.Note(c, false, "hit-known-finding")
			return
		}

		cl := []string{fmt.Sprintf("procs:%d", c.Procs), fmt.Sprintf("concurrent-clients-midrun:%d", st.clientsMidRun)}
		add := func(n int, name string) {
			if n > 0 {
				cl = append(cl, name)
			}
		}
		add(st.inFlightTogether, "requests-of-different-clients-in-flight-together")
		add(st.pauseMidSlow, "pause-sent-mid-handler-answered-after-it")
		add(st.inspectDuringPending, "inspection-sent-while-pause-pending-mid-handler")
		add(st.inspectOverlapPending, "inspection-in-flight-together-with-pause-pending-mid-handler")
		add(st.inspectMidSlow, "inspection-sent-mid-handler")
		add(st.inspectPausedByOther, "inspection-while-paused-by-other-client")
		add(v.Res.SlowTicks, "slow-ticked-through-monitor")
		if c.Probe {
			cl = append(cl, "probe-leg")
			add(v.Res.PauseMidSlow, "probe:pauseEngine-called-Pause-mid-Slow-handler")
			add(v.Res.PauseMidEvent, "probe:pauseEngine-called-Pause-mid-event")
			add(v.Res.InspectMidSlow, "probe:inspection-called-Pause-mid-Slow-handler")
			add(v.Res.NowCalls, "probe:now-observed")
			add(brackets, "probe:brackets-observed")
			s.AddExtra("probe_brackets", brackets)
			s.AddExtra("probe_pause_mid_slow", v.Res.PauseMidSlow)
		} else {
			cl = append(cl, "race-leg")
		}
		if strict {
			cl = append(cl, "strict-compare")
		} else {
			cl = append(cl, "tick-injected(relaxed-compare)")
		}
		if st.mid < len(v.Res.Served) {
			cl = append(cl, "sim-finished-before-last-request")
		}
		s.AddExtra("requests_served_midrun", st.mid)
		s.AddExtra("pauses_sent_mid_slow_handler", st.pauseMidSlow)
		s.AddExtra("inspections_sent_while_pause_pending", st.inspectDuringPending)
		s.AddExtra("inspections_in_flight_with_pending_pause", st.inspectOverlapPending)
		s.AddExtra("inspections_while_paused_by_other_client", st.inspectPausedByOther)
		s.AddExtra("slow_spans", st.slowSpans)
		if c.Early {
			cl = append(cl, "clients-may-meet-the-start-of-Run")
		}
		s.Note(c, st.clientsMidRun >= 2 && st.pauseMidSlow > 0, cl...)
	}

	var c c40Case
	if ok, err := kit.LoadReplay("C40", "overlap", &c); ok {
		if err != nil {
			t.Fatal(err)
		}
		for i := 0; i < 4 && !t.Failed(); i++ { // schedule-dependent: several attempts
			run(t, c, true)
		}
		return
	} else if kit.ReplayMode() {
		t.Skip()
	}

	kit.SetChecks(10, 60)
	rapid.Check(t, func(rt *rapid.T) {
		c, steered := genC40Conc(rt, excluded)
		if steered {
			s.Excluded(1)
		}
		run(rt, c, false)
	})
}
