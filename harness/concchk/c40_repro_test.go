package concchk

import (
	"testing"
	"time"

	"verif/harness/kit"
)

// TestC40FixedPauseBeforeRun is the fixed regression input of a repaired
// finding (KNOWN_FINDINGS.txt). It
// reproduces deterministically what the concurrent clients met once when a
// /api/tick arrived while Run() was starting: SerialEngine.Pause() returns at
// once while no run loop is active; a Run() that starts while the pauser is
// inside its Pause()…Continue() bracket calls noMoreEvent() (serialengine.go,
// first statement of the loop) before it looks at the pause flag, i.e. reads
// the lock-free event queue while the pauser pushes to it. The race detector
// reports unsafeEventQueue.Push <-> unsafeEventQueue.Len. (With an empty queue
// that Run() would also return nil although the engine is paused.)
func TestC40FixedPauseBeforeRun(t *testing.T) {
	if kit.ReplayMode() {
		t.Skip()
	}
	s := kit.Begin(t, "C40", "fixed-pause-before-run", "fixed regression input: Pause() with no run loop active, Run() entering inside the pauser's Pause()...Continue() bracket while the pauser schedules an event (what Monitor.tick does); judged by the race detector (unsafeEventQueue.Push <-> Len) and by completion of the run")
	defer s.End()
	defer s.Note("pause-before-run", true, "fixed-regression")
	c := c40ConcPresets[0]
	c.SlowEvery = 0
	sim, err := c40Build(c, "base", t.TempDir())
	if err != nil {
		t.Fatal(err)
	}
	sim.agent.TickLater()
	inBracket := make(chan struct{})
	done := make(chan struct{})
	go func() {
		sim.engine.Pause() // returns at once: nothing is dispatching
		close(inBracket)
		time.Sleep(20 * time.Millisecond) // Run() starts meanwhile
		sim.cache.TickLater()             // what Monitor.tick does inside its bracket
		sim.engine.Continue()
		close(done)
	}()
	<-inBracket
	if err := sim.engine.Run(); err != nil {
		t.Fatal(err)
	}
	<-done
}
