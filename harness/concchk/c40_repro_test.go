package concchk

import (
	"os"
	"testing"
	"time"
)

// TestReproC40PauseBeforeRun is not part of the C40 check (the driver runs
// ^TestC40 only; set VERIF_C40_REPRO=1 and build with -race to run it). It
// reproduces deterministically what the concurrent clients met once when a
// /api/tick arrived while Run() was starting: SerialEngine.Pause() returns at
// once while no run loop is active; a Run() that starts while the pauser is
// inside its Pause()…Continue() bracket calls noMoreEvent() (serialengine.go,
// first statement of the loop) before it looks at the pause flag, i.e. reads
// the lock-free event queue while the pauser pushes to it. The race detector
// reports unsafeEventQueue.Push <-> unsafeEventQueue.Len. (With an empty queue
// that Run() would also return nil although the engine is paused.)
func TestReproC40PauseBeforeRun(t *testing.T) {
	if os.Getenv("VERIF_C40_REPRO") == "" {
		t.Skip("reproduction of a reported finding; not part of the check")
	}
	c := c40ConcPresets[0]
	c.SlowEvery = 0
	sim, err := c40Build(c, "base", t.TempDir())
	if err != nil {
		t.Fatal(err)
	}
	sim.agent.TickLater()
	inBracket := make(chan struct{})
	done := make(chan struct{})
	go func() {
		sim.engine.Pause() // returns at once: nothing is dispatching
		close(inBracket)
		time.Sleep(20 * time.Millisecond) // Run() starts meanwhile
		sim.cache.TickLater()             // what Monitor.tick does inside its bracket
		sim.engine.Continue()
		close(done)
	}()
	<-inBracket
	if err := sim.engine.Run(); err != nil {
		t.Fatal(err)
	}
	<-done
}
