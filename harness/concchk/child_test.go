package concchk

import (
	"bytes"
	"context"
	"fmt"
	"os"
	"os/exec"
	"path/filepath"
	"sort"
	"strings"
	"sync/atomic"
	"syscall"
	"testing"
	"time"
)

// The concurrency checks of this package execute every multi-goroutine case in
// a child process (this same test binary, re-executed with an environment
// variable naming the case file). That way a Go race-detector report becomes
// data the parent can parse and turn into a proper, signature-carrying
// s.Fail, instead of a "WARNING: DATA RACE" that poisons the parent binary's
// exit status; and the detector's per-process de-duplication of reports can
// not hide a race in a later (e.g. shrunk) case.

const akitaPrefix = "github.com/sarchlab/akita/v5/"

// raceReport is one parsed "WARNING: DATA RACE" block.
type raceFrame struct {
	Fn   string // normalised function name
	Repo bool   // the function belongs to a package of /repo
}

type raceReport struct {
	Stacks [2][]raceFrame // innermost first, of the two conflicting accesses
	Ops    [2]string   // "read" / "write" (+"atomic")
	Raw    string
}

// workDir is where case files and databases go.
func workDir(t testing.TB) string {
	if d := os.Getenv("VERIF_WORK"); d != "" {
		d = filepath.Join(d, "concchk")
		_ = os.MkdirAll(d, 0o755)
		return d
	}
	return t.TempDir()
}

var caseCounter atomic.Int64

func newCaseDir(t testing.TB, root, prefix string) string {
	d := filepath.Join(root, fmt.Sprintf("%s-%d-%d", prefix, os.Getpid(), caseCounter.Add(1)))
	if err := os.MkdirAll(d, 0o755); err != nil {
		t.Fatalf("mkdir %s: %v", d, err)
	}
	return d
}

type childRun struct {
	Stderr   string
	Races    []raceReport
	Panics   []string // "http: panic serving" blocks (net/http recovered a handler panic)
	ExitCode int
	TimedOut bool
}

// runChild re-executes the test binary for exactly one Test function with the
// given extra environment. dir receives the race log. wait bounds the child:
// exceeding it is *not* a verdict (the caller reports it as inconclusive).
func runChild(testName string, env map[string]string, dir string, wait time.Duration) (childRun, error) {
	var out childRun
	ctx, cancel := context.WithTimeout(context.Background(), wait)
	defer cancel()

	cmd := exec.CommandContext(ctx, os.Args[0],
		"-test.run", "^"+testName+"$", "-test.count", "1", "-test.timeout", "0", "-test.v")
	cmd.Dir = dir
	cmd.SysProcAttr = &syscall.SysProcAttr{Setpgid: true}
	cmd.Cancel = func() error {
		// Ask for a goroutine dump first; the hard kill follows after WaitDelay.
		return syscall.Kill(-cmd.Process.Pid, syscall.SIGQUIT)
	}
	cmd.WaitDelay = 3 * time.Second

	gorace := "halt_on_error=0 exitcode=66 history_size=3"
	if g := os.Getenv("GORACE"); g != "" {
		var keep []string
		for _, f := range strings.Fields(g) {
			if !strings.HasPrefix(f, "log_path=") {
				keep = append(keep, f)
			}
		}
		gorace = strings.Join(keep, " ")
	}
	raceLog := filepath.Join(dir, "race")
	gorace += " log_path=" + raceLog

	e := []string{}
	for _, kv := range os.Environ() {
		k := kv[:strings.IndexByte(kv+"=", '=')]
		switch k {
		case "GORACE", "VERIF_EVIDENCE_OUT", "VERIF_REPLAY":
			continue
		}
		e = append(e, kv)
	}
	e = append(e, "GORACE="+gorace)
	for k, v := range env {
		e = append(e, k+"="+v)
	}
	cmd.Env = e

	var stderr bytes.Buffer
	cmd.Stdout = &stderr
	cmd.Stderr = &stderr
	err := cmd.Run()
	out.Stderr = stderr.String()
	if ctx.Err() != nil {
		out.TimedOut = true
	}
	if cmd.ProcessState != nil {
		out.ExitCode = cmd.ProcessState.ExitCode()
	} else if err != nil {
		return out, err
	}

	logs, _ := filepath.Glob(raceLog + ".*")
	sort.Strings(logs)
	for _, lf := range logs {
		b, err := os.ReadFile(lf)
		if err == nil {
			out.Races = append(out.Races, parseRaceReports(string(b))...)
		}
	}
	// Without log_path support (never observed) the reports would be on stderr.
	out.Races = append(out.Races, parseRaceReports(out.Stderr)...)
	out.Panics = parseHTTPPanics(out.Stderr)
	return out, nil
}

// parseRaceReports splits race-detector output into reports.
func parseRaceReports(txt string) []raceReport {
	var res []raceReport
	const sep = "=================="
	parts := strings.Split(txt, sep)
	for _, p := range parts {
		if !strings.Contains(p, "WARNING: DATA RACE") {
			continue
		}
		r := raceReport{Raw: strings.TrimSpace(p)}
		sections := strings.Split(strings.ReplaceAll(p, "\r", ""), "\n\n")
		n := 0
		for _, sec := range sections {
			lines := strings.Split(strings.Trim(sec, "\n"), "\n")
			// skip the WARNING line
			for len(lines) > 0 && (strings.HasPrefix(lines[0], "WARNING:") || strings.TrimSpace(lines[0]) == "") {
				lines = lines[1:]
			}
			if len(lines) == 0 {
				continue
			}
			head := strings.ToLower(lines[0])
			isAccess := strings.HasPrefix(head, "read at") || strings.HasPrefix(head, "write at") ||
				strings.HasPrefix(head, "previous read at") || strings.HasPrefix(head, "previous write at") ||
				strings.HasPrefix(head, "atomic read at") || strings.HasPrefix(head, "atomic write at") ||
				strings.HasPrefix(head, "previous atomic read at") || strings.HasPrefix(head, "previous atomic write at")
			if !isAccess || n >= 2 {
				continue
			}
			op := "read"
			if strings.Contains(head, "write") {
				op = "write"
			}
			if strings.Contains(head, "atomic") {
				op = "atomic-" + op
			}
			r.Ops[n] = op
			for _, l := range lines[1:] {
				if strings.HasPrefix(l, "  ") && !strings.HasPrefix(l, "   ") {
					fn := strings.TrimSpace(l)
					fn = strings.TrimSuffix(fn, "()")
					r.Stacks[n] = append(r.Stacks[n], raceFrame{Fn: normFunc(fn), Repo: strings.HasPrefix(fn, akitaPrefix)})
				}
			}
			n++
		}
		if n > 0 {
			res = append(res, r)
		}
	}
	return res
}

// normFunc shortens a function name: module prefix and type arguments removed,
// no spaces (signatures are whitespace-delimited in known.d).
func normFunc(fn string) string {
	// drop type arguments [ ... ] (they may nest and contain spaces)
	var b strings.Builder
	depth := 0
	for _, r := range fn {
		switch {
		case r == '[':
			depth++
		case r == ']':
			if depth > 0 {
				depth--
			}
		case depth == 0:
			b.WriteRune(r)
		}
	}
	s := b.String()
	s = strings.ReplaceAll(s, akitaPrefix, "")
	s = strings.ReplaceAll(s, " ", "")
	return s
}

// topRepo returns the innermost frame of the stack that belongs to /repo.
func topRepo(st []raceFrame) string {
	for _, f := range st {
		if f.Repo {
			return f.Fn
		}
	}
	if len(st) == 0 {
		return "unknown-stack"
	}
	return "outside-repo:" + st[0].Fn
}

// hasFrame reports whether some frame of the stack has the given suffix.
func hasFrame(st []raceFrame, suffix string) bool {
	for _, f := range st {
		if strings.HasSuffix(f.Fn, suffix) {
			return true
		}
	}
	return false
}

// raceDetail is the human-readable form used in failure messages.
func (r raceReport) detail() string {
	return fmt.Sprintf("%s in %s  <->  %s in %s", r.Ops[0], topRepo(r.Stacks[0]), r.Ops[1], topRepo(r.Stacks[1]))
}

// parseHTTPPanics extracts the panics net/http recovered in a handler.
func parseHTTPPanics(stderr string) []string {
	var res []string
	lines := strings.Split(stderr, "\n")
	for i := 0; i < len(lines); i++ {
		if !strings.Contains(lines[i], "http: panic serving") {
			continue
		}
		j := i + 1
		for j < len(lines) && j < i+80 && !strings.Contains(lines[j], "http: panic serving") {
			j++
		}
		res = append(res, strings.Join(lines[i:j], "\n"))
		i = j - 1
	}
	return res
}

func head(s string, n int) string {
	if len(s) > n {
		return s[:n] + "…"
	}
	return s
}
