package concchk

import (
	"bufio"
	"bytes"
	"fmt"
	"os"
	"os/exec"
	"path/filepath"
	"strings"
	"sync"
	"sync/atomic"
	"syscall"
	"testing"
	"time"
)

// The concurrency checks of this package execute every multi-goroutine case in
// a child process: this same (race-instrumented) test binary, re-executed as a
// case server (TestChildServe). That way a Go race-detector report becomes data
// the parent can parse and turn into a proper, signature-carrying s.Fail,
// instead of a "WARNING: DATA RACE" that poisons the parent binary's exit
// status. The detector de-duplicates reports per process, so a child is
// discarded as soon as it has printed a report (or hung, or died): the next
// case — e.g. a shrink candidate — always meets a detector that has reported
// nothing yet. Starting the instrumented binary costs seconds on a loaded
// machine, which is why a clean child is kept for the following cases.

const akitaPrefix = "github.com/sarchlab/akita/v5/"

type raceFrame struct {
	Fn   string // normalised function name
	Repo bool   // the function belongs to a package of /repo
}

// raceReport is one parsed "WARNING: DATA RACE" block.
type raceReport struct {
	Stacks [2][]raceFrame // innermost first, of the two conflicting accesses
	Ops    [2]string      // "read" / "write" (+"atomic")
	Raw    string
}

// workDir is where case files and databases go.
func workDir(t testing.TB) string {
	if d := os.Getenv("VERIF_WORK"); d != "" {
		d = filepath.Join(d, "concchk")
		_ = os.MkdirAll(d, 0o755)
		return d
	}
	return t.TempDir()
}

var caseCounter atomic.Int64

func newCaseDir(t testing.TB, root, prefix string) string {
	d := filepath.Join(root, fmt.Sprintf("%s-%d-%d", prefix, os.Getpid(), caseCounter.Add(1)))
	if err := os.MkdirAll(d, 0o755); err != nil {
		t.Fatalf("mkdir %s: %v", d, err)
	}
	return d
}

// ---- the case server (child side) -------------------------------------------------------

// TestChildServe is the child-process entry point. It is not a check (its name
// matches neither ^TestC35 nor ^TestC40) and does nothing unless the parent
// asked for it. Requests arrive on stdin as "<kind> <case file> <out file>",
// one per line; the answer "DONE" / "EXIT" goes to fd 3.
func TestChildServe(t *testing.T) {
	if os.Getenv("VERIF_CONC_SERVE") == "" {
		t.Skip("child entry point")
	}
	resp := os.NewFile(3, "resp")
	sc := bufio.NewScanner(os.Stdin)
	sc.Buffer(make([]byte, 1<<16), 1<<16)
	for sc.Scan() {
		f := strings.Fields(sc.Text())
		if len(f) != 3 {
			continue
		}
		exit := false
		switch f[0] {
		case "C35":
			exit = c35ServeCase(f[1], f[2])
		case "C40":
			exit = c40ServeCase(f[1], f[2])
		}
		if exit {
			// wedged goroutines are left behind: this process must not serve again
			fmt.Fprintln(resp, "EXIT")
			os.Exit(3)
		}
		fmt.Fprintln(resp, "DONE")
	}
}

// ---- the parent side ----------------------------------------------------------------------

type lockedBuf struct {
	mu sync.Mutex
	b  bytes.Buffer
}

func (l *lockedBuf) Write(p []byte) (int, error) {
	l.mu.Lock()
	defer l.mu.Unlock()
	return l.b.Write(p)
}

func (l *lockedBuf) Len() int {
	l.mu.Lock()
	defer l.mu.Unlock()
	return l.b.Len()
}

func (l *lockedBuf) From(off int) string {
	l.mu.Lock()
	defer l.mu.Unlock()
	b := l.b.Bytes()
	if off > len(b) {
		off = len(b)
	}
	return string(b[off:])
}

type childProc struct {
	cmd     *exec.Cmd
	stdin   *os.File
	resp    *bufio.Reader
	respF   *os.File
	stderr  *lockedBuf
	raceLog string
	raceOff int64
	served  int
}

type childPool struct {
	dir     string // where race logs go
	cur     *childProc
	Started int
	Served  int
}

func newChildPool(dir string) *childPool { return &childPool{dir: dir} }

func (p *childPool) start() (*childProc, error) {
	cmd := exec.Command(os.Args[0], "-test.run", "^TestChildServe$", "-test.count", "1", "-test.timeout", "0")
	cmd.Dir = p.dir
	cmd.SysProcAttr = &syscall.SysProcAttr{Setpgid: true}

	gorace := "halt_on_error=0 exitcode=66 history_size=3"
	if g := os.Getenv("GORACE"); g != "" {
		var keep []string
		for _, f := range strings.Fields(g) {
			if !strings.HasPrefix(f, "log_path=") {
				keep = append(keep, f)
			}
		}
		gorace = strings.Join(keep, " ")
	}
	raceBase := filepath.Join(p.dir, fmt.Sprintf("race-%d-%d", os.Getpid(), caseCounter.Add(1)))
	gorace += " log_path=" + raceBase

	var env []string
	for _, kv := range os.Environ() {
		k := kv[:strings.IndexByte(kv+"=", '=')]
		switch k {
		case "GORACE", "VERIF_EVIDENCE_OUT", "VERIF_REPLAY":
			continue
		}
		env = append(env, kv)
	}
	env = append(env, "GORACE="+gorace, "VERIF_CONC_SERVE=1")
	cmd.Env = env

	inR, inW, err := os.Pipe()
	if err != nil {
		return nil, err
	}
	outR, outW, err := os.Pipe()
	if err != nil {
		return nil, err
	}
	cmd.Stdin = inR
	cmd.ExtraFiles = []*os.File{outW}
	eb := &lockedBuf{}
	cmd.Stdout = eb
	cmd.Stderr = eb
	if err := cmd.Start(); err != nil {
		return nil, err
	}
	inR.Close()
	outW.Close()
	p.Started++
	return &childProc{cmd: cmd, stdin: inW, resp: bufio.NewReader(outR), respF: outR, stderr: eb,
		raceLog: fmt.Sprintf("%s.%d", raceBase, cmd.Process.Pid)}, nil
}

func (c *childProc) kill(dump bool) {
	if c == nil || c.cmd.Process == nil {
		return
	}
	if dump {
		_ = syscall.Kill(-c.cmd.Process.Pid, syscall.SIGQUIT)
		time.Sleep(1500 * time.Millisecond)
	}
	_ = syscall.Kill(-c.cmd.Process.Pid, syscall.SIGKILL)
	c.stdin.Close()
	_ = c.cmd.Wait()
	c.respF.Close()
}

// Close discards the current child.
func (p *childPool) Close() {
	if p.cur != nil {
		c := p.cur
		p.cur = nil
		c.stdin.Close()
		done := make(chan struct{})
		go func() { _ = c.cmd.Wait(); close(done) }()
		select {
		case <-done:
			c.respF.Close()
		case <-time.After(5 * time.Second):
			c.kill(false)
		}
	}
}

type childRun struct {
	Stderr   string // the child's output during this case
	Races    []raceReport
	Panics   []string // "http: panic serving" blocks (net/http recovered a handler panic)
	TimedOut bool     // no answer within the bounded wait (never a verdict)
	Died     bool     // the child went away without answering
}

// Run executes one case in a child that has not reported a race so far. fresh
// forces a new child. wait bounds the case: exceeding it is *not* a verdict
// (the caller reports it as inconclusive).
func (p *childPool) Run(kind, caseFile, outFile string, wait time.Duration, fresh bool) (childRun, error) {
	var out childRun
	if fresh && p.cur != nil {
		p.Close()
	}
	if p.cur == nil {
		c, err := p.start()
		if err != nil {
			return out, err
		}
		p.cur = c
	}
	c := p.cur
	errOff := c.stderr.Len()
	if _, err := fmt.Fprintf(c.stdin, "%s %s %s\n", kind, caseFile, outFile); err != nil {
		c.kill(false)
		p.cur = nil
		out.Died = true
		return out, nil
	}
	type ans struct {
		line string
		err  error
	}
	ch := make(chan ans, 1)
	go func() {
		l, err := c.resp.ReadString('\n')
		ch <- ans{strings.TrimSpace(l), err}
	}()
	gone := false
	select {
	case a := <-ch:
		if a.err != nil || a.line != "DONE" {
			out.Died = a.line != "EXIT"
			gone = true
		}
	case <-time.After(wait):
		out.TimedOut = true
		c.kill(true)
		p.cur = nil
	}
	c.served++
	p.Served++

	if gone {
		// the child is exiting on its own: let it finish writing its output
		done := make(chan struct{})
		go func() { _ = c.cmd.Wait(); close(done) }()
		select {
		case <-done:
			c.stdin.Close()
			c.respF.Close()
		case <-time.After(5 * time.Second):
			c.kill(false)
		}
		p.cur = nil
	}
	if b, err := os.ReadFile(c.raceLog); err == nil && int64(len(b)) > c.raceOff {
		out.Races = parseRaceReports(string(b[c.raceOff:]))
		c.raceOff = int64(len(b))
	}
	out.Stderr = c.stderr.From(errOff)
	// Without log_path support (never observed) the reports would be on stderr.
	out.Races = append(out.Races, parseRaceReports(out.Stderr)...)
	out.Panics = parseHTTPPanics(out.Stderr)
	if (len(out.Races) > 0 || len(out.Panics) > 0) && p.cur != nil {
		// this detector has spoken: it would suppress equal reports from now on
		p.cur.kill(false)
		p.cur = nil
	}
	return out, nil
}

// ---- race report parsing ---------------------------------------------------------------------

// parseRaceReports splits race-detector output into reports.
func parseRaceReports(txt string) []raceReport {
	var res []raceReport
	const sep = "=================="
	parts := strings.Split(txt, sep)
	for _, p := range parts {
		if !strings.Contains(p, "WARNING: DATA RACE") {
			continue
		}
		r := raceReport{Raw: strings.TrimSpace(p)}
		sections := strings.Split(strings.ReplaceAll(p, "\r", ""), "\n\n")
		n := 0
		for _, sec := range sections {
			lines := strings.Split(strings.Trim(sec, "\n"), "\n")
			for len(lines) > 0 && (strings.HasPrefix(lines[0], "WARNING:") || strings.TrimSpace(lines[0]) == "") {
				lines = lines[1:]
			}
			if len(lines) == 0 {
				continue
			}
			head := strings.ToLower(lines[0])
			isAccess := strings.HasPrefix(head, "read at") || strings.HasPrefix(head, "write at") ||
				strings.HasPrefix(head, "previous read at") || strings.HasPrefix(head, "previous write at") ||
				strings.HasPrefix(head, "atomic read at") || strings.HasPrefix(head, "atomic write at") ||
				strings.HasPrefix(head, "previous atomic read at") || strings.HasPrefix(head, "previous atomic write at")
			if !isAccess || n >= 2 {
				continue
			}
			op := "read"
			if strings.Contains(head, "write") {
				op = "write"
			}
			if strings.Contains(head, "atomic") {
				op = "atomic-" + op
			}
			r.Ops[n] = op
			for _, l := range lines[1:] {
				if strings.HasPrefix(l, "  ") && !strings.HasPrefix(l, "   ") {
					fn := strings.TrimSpace(l)
					fn = strings.TrimSuffix(fn, "()")
					r.Stacks[n] = append(r.Stacks[n], raceFrame{Fn: normFunc(fn), Repo: strings.HasPrefix(fn, akitaPrefix)})
				}
			}
			n++
		}
		if n > 0 {
			res = append(res, r)
		}
	}
	return res
}

// normFunc shortens a function name: module prefix and type arguments removed,
// no spaces (signatures are whitespace-delimited in known.d).
func normFunc(fn string) string {
	var b strings.Builder
	depth := 0
	for _, r := range fn {
		switch {
		case r == '[':
			depth++
		case r == ']':
			if depth > 0 {
				depth--
			}
		case depth == 0:
			b.WriteRune(r)
		}
	}
	s := b.String()
	s = strings.ReplaceAll(s, akitaPrefix, "")
	s = strings.ReplaceAll(s, " ", "")
	return s
}

// topRepo returns the innermost frame of the stack that belongs to /repo.
func topRepo(st []raceFrame) string {
	for _, f := range st {
		if f.Repo {
			return f.Fn
		}
	}
	if len(st) == 0 {
		return "unknown-stack"
	}
	return "outside-repo:" + st[0].Fn
}

// hasFrame reports whether some frame of the stack has the given suffix.
func hasFrame(st []raceFrame, suffix string) bool {
	for _, f := range st {
		if strings.HasSuffix(f.Fn, suffix) {
			return true
		}
	}
	return false
}

// detail is the human-readable form used in failure messages.
func (r raceReport) detail() string {
	return fmt.Sprintf("%s in %s  <->  %s in %s", r.Ops[0], topRepo(r.Stacks[0]), r.Ops[1], topRepo(r.Stacks[1]))
}

// parseHTTPPanics extracts the panics net/http recovered in a handler.
func parseHTTPPanics(stderr string) []string {
	var res []string
	lines := strings.Split(stderr, "\n")
	for i := 0; i < len(lines); i++ {
		if !strings.Contains(lines[i], "http: panic serving") {
			continue
		}
		j := i + 1
		for j < len(lines) && j < i+80 && !strings.Contains(lines[j], "http: panic serving") {
			j++
		}
		res = append(res, strings.Join(lines[i:j], "\n"))
		i = j - 1
	}
	return res
}

func head(s string, n int) string {
	if len(s) > n {
		return s[:n] + "…"
	}
	return s
}

func tail(s string, n int) string {
	if len(s) > n {
		return "…" + s[len(s)-n:]
	}
	return s
}

func firstLineOf(s string) string {
	if i := strings.IndexByte(s, '\n'); i >= 0 {
		return s[:i]
	}
	return s
}

// saveInconclusive keeps the evidence of a hang / dead child for the lead; it
// is never a verdict.
func saveInconclusive(id, txt string) {
	d := filepath.Join(verifLogsDir())
	_ = os.MkdirAll(d, 0o755)
	_ = os.WriteFile(filepath.Join(d, fmt.Sprintf("%s.inconclusive.%d.%d.txt", id, os.Getpid(), caseCounter.Add(1))), []byte(txt), 0o644)
}

func verifLogsDir() string {
	if d := os.Getenv("VERIF_DIR"); d != "" {
		return filepath.Join(d, "logs")
	}
	return "/verif/logs"
}
