package concchk

import (
	"encoding/binary"
	"encoding/json"
	"fmt"
	"io"
	"net/http"
	"net/url"
	"os"
	"path/filepath"
	"regexp"
	"runtime"
	"sort"
	"strings"
	"sync"
	"sync/atomic"
	"time"

	"github.com/sarchlab/akita/v5/hooking"
	"github.com/sarchlab/akita/v5/mem"
	"github.com/sarchlab/akita/v5/mem/acceptancetests/memaccessagent"
	"github.com/sarchlab/akita/v5/mem/cache/writeback"
	"github.com/sarchlab/akita/v5/mem/idealmemcontroller"
	"github.com/sarchlab/akita/v5/mem/memprotocol"
	"github.com/sarchlab/akita/v5/messaging"
	"github.com/sarchlab/akita/v5/modeling"
	"github.com/sarchlab/akita/v5/monitoring2"
	"github.com/sarchlab/akita/v5/noc/directconnection"
	"github.com/sarchlab/akita/v5/simulation"
	"github.com/sarchlab/akita/v5/timing"
)

// ---- the case (plain data) -------------------------------------------------

// c40Req is one monitor request. Kind names the endpoint (see c40Routes).
type c40Req struct {
	Kind   string `json:"kind"`
	Comp   string `json:"comp,omitempty"`    // component name for tick/component/field
	Field  string `json:"field,omitempty"`   // dotted field path for field
	Query  string `json:"query,omitempty"`   // raw query string (buffers, field paging)
	GapUS  int    `json:"gap_us"`            // sleep before the request (perturbation plan)
	SpinUS int    `json:"spin_us,omitempty"` // busy-wait before the request, after the sleep (finer than the sleep granularity)
	Yields int    `json:"yields,omitempty"`  // runtime.Gosched() calls before the request
}

type c40Case struct {
	Seed       int64    `json:"seed"`        // access-stream seed of the memory agent
	Accesses   int      `json:"accesses"`    // reads == writes == Accesses
	MaxAddrLog int      `json:"max_addr_lg"` // address range 2^n bytes
	CacheKB    int      `json:"cache_kb"`
	Ways       int      `json:"ways"`
	MSHR       int      `json:"mshr"`
	DRAMLat    int      `json:"dram_latency"`
	Procs      int      `json:"gomaxprocs"`
	Spin       int      `json:"spinners,omitempty"` // busy goroutines competing for the Ps during the monitored run (perturbation plan)
	Reqs       []c40Req `json:"reqs"`

	// Concurrent clients (sub-check overlap). When Clients is not empty, Reqs is
	// not used: client i issues Clients[i] in order on a connection of its own,
	// all clients run concurrently, and after all of them have finished the
	// harness issues one unconditional /api/continue.
	Clients [][]c40Req `json:"clients,omitempty"`
	// SlowEvery > 0 adds the harness component "Slow": the engine hook injects
	// one event for it at every SlowEvery-th dispatched event (same simulated
	// time), and the handler of the k-th such event busy-works for
	// SlowDurUS[k mod len] microseconds of wall time in the monitored run (not at
	// all in the unmonitored one: wall time is not part of the fingerprint).
	SlowEvery int   `json:"slow_every,omitempty"`
	SlowDurUS []int `json:"slow_dur_us,omitempty"`
	// Probe: run the monitored leg with the harness' own Monitor over the
	// Pause/Continue-observing engine wrapper (explicit instrumentation) instead
	// of the builder's monitor (race detector undisturbed).
	Probe bool `json:"probe,omitempty"`
	// Early: the port is announced before Run() is started instead of after the
	// first handled event, so the first requests may arrive while the run loop
	// is only starting (Pause() with no loop active yet, Run() entering inside
	// the pauser's Pause()...Continue() bracket).
	Early bool `json:"early,omitempty"`
	// EarlyDelayUS (Early only): wall-clock microseconds the engine goroutine
	// waits between the announcement and the call of Run(), so that requests are
	// already being served when the run loop starts.
	EarlyDelayUS int `json:"early_delay_us,omitempty"`
}

const c40SlowName = "Slow"

// c40Components are the names registered with the monitor by the assembly.
var c40Components = []string{"MemAccessAgent", "Cache", "DRAM"}

// c40Fields are field paths that exist on the respective components (goseth
// entry points). A path that does not exist is answered with 404, which is
// also legitimate.
var c40Fields = map[string][]string{
	"MemAccessAgent": {"State", "State.WriteLeft", "State.PendingReadReq", "State.KnownMemValue", "Component", "LowModule"},
	"Cache":          {"State", "State.Transactions", "State.DirectoryState", "State.MSHRState", "State.EvictingList", "State.DirStageBuf"},
	"DRAM":           {"State", "State.ControlState", "TickingComponent"},
	c40SlowName:      {"State", "State", "State.Busy", "State.Spins", "Busy", "State.Handled", "Plan"},
}

// c40Handler maps a request kind to the name of the Monitor method serving it
// (used to build race signatures and to steer around known findings).
var c40Handler = map[string]string{
	"pause":      "pauseEngine",
	"continue":   "continueEngine",
	"state":      "apiEngineState",
	"now":        "now",
	"tick":       "tick",
	"list":       "listComponents",
	"component":  "listComponentDetails",
	"field":      "listFieldValue",
	"buffers":    "hangDetectorBuffers",
	"progress":   "listProgressBars",
	"mode":       "apiMode",
	"is_tracing": "apiTraceIsTracing",
}

func (r c40Req) path() string {
	switch r.Kind {
	case "pause":
		return "/api/pause"
	case "continue":
		return "/api/continue"
	case "state":
		return "/api/engine/state"
	case "now":
		return "/api/now"
	case "tick":
		return "/api/tick/" + r.Comp
	case "list":
		return "/api/list_components"
	case "component":
		return "/api/component/" + r.Comp
	case "field":
		b, _ := json.Marshal(map[string]string{"comp_name": r.Comp, "field_name": r.Field})
		p := "/api/field/" + url.PathEscape(string(b))
		if r.Query != "" {
			p += "?" + r.Query
		}
		return p
	case "buffers":
		if r.Query != "" {
			return "/api/hangdetector/buffers?" + r.Query
		}
		return "/api/hangdetector/buffers"
	case "progress":
		return "/api/progress"
	case "mode":
		return "/api/mode"
	case "is_tracing":
		return "/api/trace/is_tracing"
	}
	panic("unknown request kind " + r.Kind)
}

// ---- what the child reports -------------------------------------------------

type c40Served struct {
	Kind   string `json:"kind"`
	Status int    `json:"status"`
	MidRun bool   `json:"mid_run"` // Run() had started before the request was sent and had not returned when the response arrived
	SendNS int64  `json:"send_ns"`
	RecvNS int64  `json:"recv_ns"`
	Paused bool   `json:"paused"` // the client had the engine paused (its own pause, not yet continued)
	Err    string `json:"err,omitempty"`
	Body   string `json:"body,omitempty"` // truncated
	Client int    `json:"client"`         // which concurrent client issued it (-1: the harness' final continue)
	Comp   string `json:"comp,omitempty"`
	// SawBusy: the answer to a component/field inspection of the harness
	// component Slow shows its Busy marker set. The marker is 1 only between the
	// entry and the exit of Slow's event handler, so such an answer was read
	// while that handler was running.
	SawBusy bool `json:"saw_busy,omitempty"`
}

type c40Outcome struct {
	Finished  bool   `json:"finished"`
	Panic     string `json:"panic,omitempty"`
	FinalTime uint64 `json:"final_time"`
	Events    uint64 `json:"events"`
	EventHash string `json:"event_hash"` // hash over (time, handler) of every event in dispatch order
	MemHash   string `json:"mem_hash"`   // DRAM contents over the address range
	AgentHash string `json:"agent_hash"` // the agent's known values (address -> surviving value list)
	RspHash   string `json:"rsp_hash"`   // (simulated time, kind, data) of every response delivered to the agent, in order
	Reads     int    `json:"reads"`      // read responses delivered
	Writes    int    `json:"writes"`     // write-done responses delivered
	Pending   int    `json:"pending"`    // requests without a response at the end
	Left      int    `json:"left"`       // accesses never issued
	Slow      int    `json:"slow"`       // events handled by the harness component Slow (0 without it)
}

type c40Result struct {
	Race       bool         `json:"race_enabled"`
	Base       c40Outcome   `json:"base"`               // unmonitored run
	Mon        c40Outcome   `json:"monitored"`          // monitored run
	Served     []c40Served  `json:"served"`             // filled in by the parent (it runs the client)
	Sections   []c40Section `json:"sections,omitempty"` // probe mode
	RunStartNS int64        `json:"run_start_ns"`
	RunEndNS   int64        `json:"run_end_ns"`
	Hang       string       `json:"hang,omitempty"` // which phase did not finish within the bounded wait
	Port       int          `json:"port"`
	BaseMS     int64        `json:"base_ms"`
	MonMS      int64        `json:"mon_ms"`
	ClientMS   int64        `json:"client_ms"`
	HTTPPanic  []string     `json:"http_panics,omitempty"`

	// The harness component Slow (monitored leg): wall-clock [start, end] of
	// every handler execution that busy-worked, and the explicit witnesses.
	SlowSpans [][2]int64 `json:"slow_spans,omitempty"`
	// TickWhileBusy: Monitor.tick called Slow.TickLater() while Slow's handler
	// was running (TickLater found the Busy marker set).
	TickWhileBusy int `json:"tick_while_busy,omitempty"`
	SlowTicks     int `json:"slow_ticks,omitempty"` // TickLater calls on Slow in all
	// probe mode: what the engine wrapper saw
	NowCalls       int `json:"now_calls,omitempty"`         // CurrentTime() calls by Monitor.now
	NowDuringEvent int `json:"now_during_event,omitempty"`  // … made while an event was being handled
	PauseCalls     int `json:"pause_calls,omitempty"`       // Pause() calls by Monitor.pauseEngine
	PauseMidEvent  int `json:"pause_mid_event,omitempty"`   // … that arrived while an event was being handled
	PauseMidSlow   int `json:"pause_mid_slow,omitempty"`    // … while Slow's handler was busy-working
	InspectMidSlow int `json:"inspect_mid_slow,omitempty"`  // Pause() calls by inspection handlers that arrived while Slow's handler was busy-working
	PauseWaitMaxUS int `json:"pause_wait_max_us,omitempty"` // longest Pause() call (perturbation statistics only)
	TickBusyAtomic int `json:"tick_busy_atomic,omitempty"`  // probe mode: TickLater saw the (synchronising) busy flag set
}

// ---- the assembly --------------------------------------------------------------

type c40Sim struct {
	sim    *simulation.Simulation
	engine timing.Engine
	agent  *memaccessagent.MemAccessAgent
	cache  *writeback.Comp
	dram   *idealmemcontroller.Comp
	rec    *c40Recorder
	slow   *c40Slow
	port   int

	probe      *c40Probe
	ownMonitor *monitoring2.Monitor
}

// c40Recorder is an engine hook (both runs carry it) hashing the dispatch
// order and the data-carrying responses seen by the agent.
//
// Nothing in it may synchronise the engine goroutine with the client while the
// run is in progress: the race detector treats an atomic read of something the
// engine goroutine wrote atomically as an acquire, and the loopback connection
// carries that edge on to the HTTP handler (internal/poll orders all I/O under
// -race), which would hide exactly the races this check looks for. Therefore
// the event counter and the hashes are plain fields owned by the engine
// goroutine and read only after Run returned.
type c40Recorder struct {
	events uint64
	all    uint64 // every dispatched event, the monitor's pokes of Slow included (probe phases only)
	evHash uint64
	slow   *c40Slow // nil without the harness component
	// first (may be nil) is called once, on the engine goroutine, when the
	// first event has been handled: the run loop is in progress from here on.
	first   func()
	engine  timing.Engine
	probe   *c40Probe // probe mode only: publishes the engine phase (this *does* synchronise; probe mode does not rely on the race detector)
	rspHash uint64
	reads   int
	writes  int
}

// c40RspHook hangs on the agent's Mem port and hashes every delivered response
// with the simulated time of delivery (IDs excluded).
type c40RspHook struct{ r *c40Recorder }

func (h c40RspHook) Func(ctx hooking.HookCtx) {
	if ctx.Pos != messaging.HookPosPortMsgRecvd {
		return
	}
	r := h.r
	var b [8]byte
	binary.LittleEndian.PutUint64(b[:], uint64(r.engine.CurrentTime()))
	r.rspHash = mix(r.rspHash, b[:])
	switch m := ctx.Item.(type) {
	case memprotocol.DataReadyRsp:
		r.reads++
		r.rspHash = mix(r.rspHash, []byte{'R'})
		r.rspHash = mix(r.rspHash, m.Data)
	case memprotocol.WriteDoneRsp:
		r.writes++
		r.rspHash = mix(r.rspHash, []byte{'W'})
	default:
		r.rspHash = mix(r.rspHash, []byte{'?'})
	}
}

const fnvOffset = 14695981039346656037
const fnvPrime = 1099511628211

func mix(h uint64, b []byte) uint64 {
	for _, c := range b {
		h ^= uint64(c)
		h *= fnvPrime
	}
	return h
}

func (r *c40Recorder) Func(ctx hooking.HookCtx) {
	if ctx.Pos != timing.HookPosBeforeEvent {
		if ctx.Pos == timing.HookPosAfterEvent {
			if r.probe != nil {
				r.probe.phase.Store(2 * r.all)
			}
			if r.first != nil {
				r.first()
				r.first = nil
			}
		}
		return
	}
	if r.probe != nil {
		r.probe.phase.Store(2*r.all + 1)
	}
	r.all++
	evt := ctx.Item.(timing.Event)
	if _, poke := evt.(c40PokeEvent); poke {
		// injected by a /api/tick/Slow request: does nothing, changes the order
		// of nothing else (same-time events are FIFO) and is not part of the
		// fingerprint
		return
	}
	var b [8]byte
	binary.LittleEndian.PutUint64(b[:], uint64(evt.Time()))
	r.evHash = mix(r.evHash, b[:])
	r.evHash = mix(r.evHash, []byte(evt.HandlerID()))
	r.evHash = mix(r.evHash, []byte{0})
	r.events++
	if r.slow != nil && r.events%uint64(r.slow.every) == 0 {
		// every k-th dispatched event is followed by one event of Slow at the
		// same simulated time (both legs: the position depends on the event
		// count only)
		r.slow.idSeq++
		r.engine.Schedule(c40SlowEvent{timing.EventBase{ID: 1<<62 + r.slow.idSeq, Time_: evt.Time(), HandlerID_: c40SlowName}})
	}
}

// ---- the harness component Slow -------------------------------------------------------------

// c40Slow is a component of the harness' own: its event handler takes a drawn
// amount of wall time (so that a /api/pause regularly arrives while a handler
// is running and has to wait, and other requests arrive while it waits), it
// writes its own state all the time while it runs, and it carries an explicit
// marker of "my handler is running" that is part of the state the monitor
// inspects:
//
//   - /api/component/Slow and /api/field/{Slow,State|Busy|State.Busy} answer
//     with the marker's value: an answer showing 1 was read mid-handler;
//   - /api/tick/Slow makes the monitor call TickLater() below, which looks at
//     the marker the way a real component's TickLater looks at its scheduler
//     state.
//
// All of this is plain, unsynchronised state exactly like a library
// component's: under the property the monitor touches it only while the engine
// is held between events. (In the monitored leg without the probe nothing here
// synchronises the engine goroutine with an HTTP goroutine, so the race
// detector still sees every unordered pair of accesses.)
type c40Slow struct {
	name  string
	Busy  int // 1 while the handler body runs
	State c40SlowState
	Plan  c40SlowPlan

	engine timing.Engine
	every  int
	noSpin bool   // unmonitored leg
	idSeq  uint64 // event IDs for the injected events (engine goroutine)
	w      *c40SlowWitness
	probe  *c40Probe // probe mode only
}

type c40SlowState struct {
	Busy    int    // as c40Slow.Busy (reached through /api/field …State)
	Spins   uint64 // bumped continuously by the handler body
	Handled int
	Pokes   int // events injected by /api/tick/Slow and handled
	Ticks   int // TickLater calls (made by the monitor while it holds the engine)
}

type c40SlowPlan struct {
	DurUS []int
	Next  int
}

// c40SlowWitness is reached through a pointer so that a depth-1 inspection of
// the component never walks into it.
type c40SlowWitness struct {
	spans         [][2]int64   // engine goroutine only; read after Run returned
	tickWhileBusy atomic.Int64 // HTTP goroutines (only bumped on a violation)
	ticks         atomic.Int64
	tickBusyAtom  atomic.Int64
	pokeSeq       atomic.Uint64
}

type c40SlowEvent struct{ timing.EventBase }
type c40PokeEvent struct{ timing.EventBase }

func (c *c40Slow) Name() string { return c.name }

// Handle runs on the engine goroutine.
func (c *c40Slow) Handle(e timing.Event) error {
	if _, poke := e.(c40PokeEvent); poke {
		c.State.Pokes++
		return nil
	}
	dur := time.Duration(0)
	if !c.noSpin && len(c.Plan.DurUS) > 0 {
		dur = time.Duration(c.Plan.DurUS[c.Plan.Next%len(c.Plan.DurUS)]) * time.Microsecond
	}
	c.Plan.Next++
	if dur == 0 {
		c.State.Handled++
		return nil
	}
	start := time.Now()
	c.Busy = 1
	c.State.Busy = 1
	if c.probe != nil {
		c.probe.slowBusy.Store(1)
	}
	for n := 0; ; n++ {
		c.State.Spins++
		if n%16 == 0 && time.Since(start) >= dur {
			break
		}
	}
	c.State.Handled++
	if c.probe != nil {
		c.probe.slowBusy.Store(0)
	}
	c.State.Busy = 0
	c.Busy = 0
	c.w.spans = append(c.w.spans, [2]int64{start.UnixNano(), time.Now().UnixNano()})
	return nil
}

// TickLater is what Monitor.tick calls (on an HTTP goroutine) inside its
// pause bracket. Like modeling.TickScheduler.TickLater it reads the
// component's own state and schedules an event on the engine's queue.
func (c *c40Slow) TickLater() {
	if c.Busy != 0 {
		c.w.tickWhileBusy.Add(1)
	}
	if c.probe != nil && c.probe.slowBusy.Load() != 0 {
		c.w.tickBusyAtom.Add(1)
	}
	c.w.ticks.Add(1)
	c.State.Ticks++
	id := 1<<63 + c.w.pokeSeq.Add(1)
	c.engine.Schedule(c40PokeEvent{timing.EventBase{ID: id, Time_: c.engine.CurrentTime(), HandlerID_: c40SlowName}})
}

var portRe = regexp.MustCompile(`http://localhost:(\d+)`)

// c40CapturePort runs start (which starts a monitor server) and returns the
// port the monitor announced — on os.Stderr only.
func c40CapturePort(start func()) (int, error) {
	rd, wr, err := os.Pipe()
	if err != nil {
		return 0, err
	}
	saved := os.Stderr
	os.Stderr = wr
	func() {
		defer func() { os.Stderr = saved; wr.Close() }()
		start()
	}()
	txt, _ := io.ReadAll(rd)
	rd.Close()
	m := portRe.FindSubmatch(txt)
	if m == nil {
		return 0, fmt.Errorf("monitor did not announce a port: %q", txt)
	}
	port := 0
	fmt.Sscanf(string(m[1]), "%d", &port)
	return port, nil
}

// ---- quiescence probe ---------------------------------------------------------------------------

// c40Section is one Pause()…Continue() bracket made by a monitor handler.
type c40Section struct {
	Handler string `json:"handler"` // the Monitor method that called Pause
	S1      uint64 `json:"s1"`      // engine phase when Pause() returned: 2k = between events after k events, 2k+1 = inside event k+1
	S2      uint64 `json:"s2"`      // engine phase when Continue() was called
}

type c40Probe struct {
	phase    atomic.Uint64
	slowBusy atomic.Int32 // Slow's handler is busy-working
	mu       sync.Mutex
	cur      *c40Section
	sections []c40Section

	nowCalls, nowDuringEvent                                int
	pauseCalls, pauseMidEvent, pauseMidSlow, inspectMidSlow int
	pauseWaitMaxUS                                          int
}

// c40ProbeEngine wraps the real engine for the monitor only; the components
// schedule on the real one.
type c40ProbeEngine struct {
	timing.Engine
	p *c40Probe
}

func c40CallingHandler() string {
	pcs := make([]uintptr, 24)
	n := runtime.Callers(2, pcs)
	frames := runtime.CallersFrames(pcs[:n])
	h := "unknown"
	for {
		f, more := frames.Next()
		const pfx = "github.com/sarchlab/akita/v5/monitoring2.(*Monitor)."
		if strings.HasPrefix(f.Function, pfx) {
			h = strings.TrimSuffix(strings.TrimPrefix(f.Function, pfx), "-fm")
			if i := strings.Index(h, ".func"); i >= 0 {
				h = h[:i]
			}
		}
		if !more {
			break
		}
	}
	return h
}

func (e *c40ProbeEngine) Pause() {
	p0, busy0 := e.p.phase.Load(), e.p.slowBusy.Load()
	t0 := time.Now()
	e.Engine.Pause()
	wait := int(time.Since(t0).Microseconds())
	s1 := e.p.phase.Load()
	h := c40CallingHandler()
	e.p.mu.Lock()
	e.p.cur = &c40Section{Handler: h, S1: s1}
	if h == "pauseEngine" {
		e.p.pauseCalls++
		if p0%2 == 1 {
			e.p.pauseMidEvent++
		}
		if busy0 != 0 {
			e.p.pauseMidSlow++
		}
	} else if busy0 != 0 {
		e.p.inspectMidSlow++
	}
	if wait > e.p.pauseWaitMaxUS {
		e.p.pauseWaitMaxUS = wait
	}
	e.p.mu.Unlock()
}

// CurrentTime is only called by Monitor.now (the components use the real
// engine): the engine's clock is written by the run loop at the start of every
// event, so the read belongs between events.
func (e *c40ProbeEngine) CurrentTime() timing.VTimeInPicoSec {
	ph := e.p.phase.Load()
	e.p.mu.Lock()
	e.p.nowCalls++
	if ph%2 == 1 {
		e.p.nowDuringEvent++
	}
	e.p.mu.Unlock()
	return e.Engine.CurrentTime()
}

func (e *c40ProbeEngine) Continue() {
	s2 := e.p.phase.Load()
	e.p.mu.Lock()
	if e.p.cur != nil {
		e.p.cur.S2 = s2
		e.p.sections = append(e.p.sections, *e.p.cur)
		e.p.cur = nil
	}
	e.p.mu.Unlock()
	e.Engine.Continue()
}

func c40AssignPorts(s *simulation.Simulation, comp messaging.Component, names ...string) {
	for _, name := range names {
		p := modeling.MakePortBuilder().
			WithRegistrar(s).
			WithComponent(comp).
			WithSpec(modeling.PortSpec{BufSize: 4}).
			Build(name)
		comp.AssignPort(name, p)
	}
}

// c40Build assembles agent -> write-back cache -> ideal memory controller, the
// shape of /repo/mem/acceptancetests/writebackcache, with or without the
// monitor. With the monitor on, the port it chose is read from the line it
// prints to stderr.
func c40Build(c c40Case, mode string, dir string) (*c40Sim, error) {
	timing.ResetIDGenerator()

	monitored := mode == "mon"
	b := simulation.MakeBuilder().WithOutputFileName(filepath.Join(dir, mode))
	if !monitored {
		b = b.WithoutMonitoring()
	}

	out := &c40Sim{rec: &c40Recorder{evHash: fnvOffset, rspHash: fnvOffset}}

	if monitored {
		port, err := c40CapturePort(func() { out.sim = b.Build() })
		if err != nil {
			return nil, err
		}
		out.port = port
	} else {
		out.sim = b.Build()
	}

	s := out.sim
	out.engine = s.GetEngine()

	conn := directconnection.MakeBuilder().WithRegistrar(s).Build("Conn")

	agentSpec := memaccessagent.DefaultSpec()
	agentSpec.MaxAddress = 1 << uint(c.MaxAddrLog)
	agentSpec.WriteLeft = c.Accesses
	agentSpec.ReadLeft = c.Accesses
	out.agent = memaccessagent.MakeBuilder().
		WithRegistrar(s).
		WithSpec(agentSpec).
		WithRandSeed(c.Seed).
		Build("MemAccessAgent")
	c40AssignPorts(s, out.agent, "Mem")
	if mon := s.GetMonitor(); mon != nil {
		out.agent.CreateProgressBars(mon.CreateProgressBar)
	}

	dramSpec := idealmemcontroller.DefaultSpec()
	dramSpec.Capacity = 1 * mem.MB
	dramSpec.Latency = c.DRAMLat
	out.dram = idealmemcontroller.MakeBuilder().WithRegistrar(s).WithSpec(dramSpec).Build("DRAM")
	c40AssignPorts(s, out.dram, "Top", "Control")

	mapper := new(mem.SinglePortMapper)
	mapper.Port = out.dram.GetPortByName("Top").AsRemote()

	cacheSpec := writeback.DefaultSpec()
	cacheSpec.TotalByteSize = uint64(c.CacheKB) * mem.KB
	cacheSpec.Log2BlockSize = 6
	cacheSpec.WayAssociativity = c.Ways
	cacheSpec.NumMSHREntry = c.MSHR
	cacheSpec.NumReqPerCycle = 4
	out.cache = writeback.MakeBuilder().
		WithRegistrar(s).
		WithSpec(cacheSpec).
		WithResources(writeback.Resources{AddressToPortMapper: mapper}).
		Build("Cache")
	c40AssignPorts(s, out.cache, "Top", "Bottom", "Control")

	out.agent.LowModule = out.cache.GetPortByName("Top")

	conn.PlugIn(out.agent.GetPortByName("Mem"))
	conn.PlugIn(out.cache.GetPortByName("Bottom"))
	conn.PlugIn(out.cache.GetPortByName("Top"))
	conn.PlugIn(out.dram.GetPortByName("Top"))

	if c.SlowEvery > 0 {
		out.slow = &c40Slow{name: c40SlowName, engine: out.engine, every: c.SlowEvery, noSpin: mode == "base",
			Plan: c40SlowPlan{DurUS: append([]int(nil), c.SlowDurUS...)}, w: &c40SlowWitness{}}
		out.engine.(timing.HandlerRegistrar).RegisterHandler(c40SlowName, out.slow)
		s.RegisterComponent(out.slow) // with the monitor on, this is what makes it inspectable
		out.rec.slow = out.slow
	}

	if mode == "probe" {
		// Own monitor over a wrapper of the same engine: the wrapper notes what
		// the engine was doing when Pause() returned / Continue() was called.
		out.probe = &c40Probe{}
		out.rec.probe = out.probe
		mon := monitoring2.NewMonitor()
		mon.RegisterEngine(&c40ProbeEngine{Engine: out.engine, p: out.probe})
		mon.RegisterComponent(out.agent)
		mon.RegisterComponent(out.dram)
		mon.RegisterComponent(out.cache)
		if out.slow != nil {
			out.slow.probe = out.probe
			mon.RegisterComponent(out.slow)
		}
		out.agent.CreateProgressBars(mon.CreateProgressBar)
		port, err := c40CapturePort(mon.StartServer)
		if err != nil {
			return nil, err
		}
		out.port = port
		out.ownMonitor = mon
	}

	out.rec.engine = out.engine
	out.engine.(hooking.Hookable).AcceptHook(out.rec)
	out.agent.GetPortByName("Mem").AcceptHook(c40RspHook{out.rec})

	return out, nil
}

func hex64(h uint64) string { return fmt.Sprintf("%016x", h) }

// outcome is taken after Run returned (single-threaded again).
func (s *c40Sim) outcome(c c40Case, finished bool, pan string) c40Outcome {
	o := c40Outcome{Finished: finished, Panic: pan}
	if !finished {
		return o
	}
	o.FinalTime = uint64(s.engine.CurrentTime())
	o.Events = s.rec.events
	o.EventHash = hex64(s.rec.evHash)
	o.RspHash = hex64(s.rec.rspHash)
	o.Reads, o.Writes = s.rec.reads, s.rec.writes

	st := &s.agent.State
	o.Pending = len(st.PendingReadReq) + len(st.PendingWriteReq)
	o.Left = st.ReadLeft + st.WriteLeft
	if s.slow != nil {
		o.Slow = s.slow.State.Handled
	}

	addrs := make([]uint64, 0, len(st.KnownMemValue))
	for a := range st.KnownMemValue {
		addrs = append(addrs, a)
	}
	sort.Slice(addrs, func(i, j int) bool { return addrs[i] < addrs[j] })
	h := uint64(fnvOffset)
	var b [8]byte
	for _, a := range addrs {
		binary.LittleEndian.PutUint64(b[:], a)
		h = mix(h, b[:])
		for _, v := range st.KnownMemValue[a] {
			binary.LittleEndian.PutUint32(b[:4], v)
			h = mix(h, b[:4])
		}
		h = mix(h, []byte{0xff})
	}
	o.AgentHash = hex64(h)

	storage := s.dram.Resources().Storage
	data, err := storage.Read(0, 1<<uint(c.MaxAddrLog))
	if err != nil {
		o.MemHash = "error:" + err.Error()
	} else {
		o.MemHash = hex64(mix(fnvOffset, data))
	}
	return o
}

// ---- one leg ----------------------------------------------------------------------

const c40LegDeadline = 90 * time.Second

// c40Announce is what the child writes to <dir>/port once the monitored run is
// in progress (see runLeg): the parent process runs the HTTP client. (The client
// is deliberately not a goroutine of the simulation process: under -race every
// incidental synchronisation between the engine goroutine and an in-process
// client — pooled objects, atomics — would travel over the loopback connection
// to the HTTP handler and hide the races this check looks for.)
type c40Announce struct {
	Port int `json:"port"`
}

// runLeg runs the assembled simulation to completion on a goroutine of its own
// with a bounded wait. announce (may be nil) is called on the engine goroutine
// when the first event has been handled, i.e. when the run loop is certainly
// in progress; with c.Early it is called before Run() is started, so requests
// may also meet a run loop that is only starting (Pause() returns at once when
// no run loop is active yet, and a Run() that starts inside the pauser's
// bracket must not look at the event queues before it looks at the pause flag:
// see TestC40FixedPauseBeforeRun and the repaired finding). The file
// write is the only thing the engine goroutine does that an HTTP goroutine can
// synchronise with, once, before any request exists. afterRun (may be nil) is
// called once Run has returned and must return before the outcome is taken.
func (s *c40Sim) runLeg(c c40Case, announce func(), afterRun func() bool) (o c40Outcome, startNS, endNS int64, hang bool) {
	s.agent.TickLater()

	type fin struct {
		pan        string
		start, end int64
	}
	done := make(chan fin, 1)
	s.rec.first = announce
	if c.Early && announce != nil {
		s.rec.first = nil
		announce()
	}
	go func() {
		var f fin
		func() {
			defer func() {
				if r := recover(); r != nil {
					buf := make([]byte, 1<<14)
					buf = buf[:runtime.Stack(buf, false)]
					f.pan = fmt.Sprintf("%v\n%s", r, buf)
				}
			}()
			if c.Early && c.EarlyDelayUS > 0 {
				time.Sleep(time.Duration(c.EarlyDelayUS) * time.Microsecond)
			}
			f.start = time.Now().UnixNano()
			err := s.engine.Run()
			if err != nil {
				f.pan = "Run returned error: " + err.Error()
			}
		}()
		f.end = time.Now().UnixNano()
		done <- f
	}()

	select {
	case f := <-done:
		if afterRun != nil && !afterRun() {
			return c40Outcome{}, f.start, f.end, true
		}
		return s.outcome(c, f.pan == "", f.pan), f.start, f.end, false
	case <-time.After(c40LegDeadline):
		return c40Outcome{}, 0, 0, true
	}
}

// ---- the client (runs in the parent process) -----------------------------------------------

// c40RunClients runs the request plan of a case against the announced port:
// one client for a sequential case; for a case with concurrent clients one
// goroutine and one connection per client, and — once all of them have
// finished, whatever they left behind — one unconditional /api/continue, so
// that the simulation is always left running. No request of the API waits for
// another request (pause of a paused engine and continue of a running one
// answer at once with the state; an inspection of a paused engine does not
// pause again; Pause() itself waits only for the event handler in progress), so
// every plan terminates under every interleaving.
func c40RunClients(port int, c c40Case, stop <-chan struct{}) []c40Served {
	if len(c.Clients) == 0 {
		return c40Client(port, 0, c.Reqs, stop)
	}
	res := make([][]c40Served, len(c.Clients))
	var wg sync.WaitGroup
	for i := range c.Clients {
		wg.Add(1)
		go func(i int) {
			defer wg.Done()
			res[i] = c40Client(port, i, c.Clients[i], stop)
		}(i)
	}
	wg.Wait()
	var served []c40Served
	for _, r := range res {
		served = append(served, r...)
	}
	return append(served, c40Client(port, -1, []c40Req{{Kind: "continue"}}, stop)...)
}

// c40BodyShowsBusy: does the answer to an inspection of Slow show its Busy
// marker set? (goseth: {"r":"0","dict":{"0":{"k":..,"t":..,"v":<value or
// {"Field":"<id>",…}>},"<id>":{…,"v":1},…}})
func c40BodyShowsBusy(r c40Req, body []byte) bool {
	if r.Comp != c40SlowName || (r.Kind != "component" && r.Kind != "field") {
		return false
	}
	var doc struct {
		Dict map[string]struct {
			V json.RawMessage `json:"v"`
		} `json:"dict"`
	}
	if json.Unmarshal(body, &doc) != nil {
		return false
	}
	root, ok := doc.Dict["0"]
	if !ok {
		return false
	}
	isOne := func(v json.RawMessage) bool { return strings.TrimSpace(string(v)) == "1" }
	if r.Kind == "field" && (r.Field == "Busy" || r.Field == "State.Busy") {
		return isOne(root.V)
	}
	var fields map[string]string
	if json.Unmarshal(root.V, &fields) != nil {
		return false
	}
	id, ok := fields["Busy"]
	if !ok {
		return false
	}
	return isOne(doc.Dict[id].V)
}

// c40Client issues the requests of one client against the announced port. stop
// is closed when the child has gone away.
func c40Client(port int, id int, reqs []c40Req, stop <-chan struct{}) []c40Served {
	var served []c40Served
	tr := &http.Transport{DisableKeepAlives: false, MaxIdleConnsPerHost: 1}
	cl := &http.Client{Transport: tr, Timeout: 60 * time.Second}
	defer tr.CloseIdleConnections()
	base := fmt.Sprintf("http://127.0.0.1:%d", port)
	paused := false
	for _, r := range reqs {
		select {
		case <-stop:
			return served
		default:
		}
		if r.GapUS > 0 {
			time.Sleep(time.Duration(r.GapUS) * time.Microsecond)
		}
		if r.SpinUS > 0 {
			for t0 := time.Now(); time.Since(t0) < time.Duration(r.SpinUS)*time.Microsecond; {
			}
		}
		for i := 0; i < r.Yields; i++ {
			runtime.Gosched()
		}
		sv := c40Served{Kind: r.Kind, Paused: paused, Client: id, Comp: r.Comp}
		method := http.MethodGet
		if r.Kind == "pause" || r.Kind == "continue" || r.Kind == "tick" {
			method = http.MethodPost
		}
		req, err := http.NewRequest(method, base+r.path(), nil)
		if err != nil {
			sv.Err = err.Error()
			served = append(served, sv)
			continue
		}
		sv.SendNS = time.Now().UnixNano()
		rsp, err := cl.Do(req)
		if err != nil {
			sv.Err = err.Error()
			served = append(served, sv)
			continue
		}
		body, _ := io.ReadAll(io.LimitReader(rsp.Body, 1<<20))
		rsp.Body.Close()
		sv.RecvNS = time.Now().UnixNano()
		sv.Status = rsp.StatusCode
		if rsp.StatusCode == http.StatusOK {
			sv.SawBusy = c40BodyShowsBusy(r, body)
		}
		if len(body) > 120 && !sv.SawBusy {
			body = body[:120]
		}
		sv.Body = string(body)
		switch r.Kind {
		case "pause":
			paused = true
		case "continue":
			paused = false
		}
		served = append(served, sv)
	}
	return served
}

// c40ChildReq is what the parent asks a child to do with a case.
type c40ChildReq struct {
	Case  c40Case `json:"case"`
	Base  bool    `json:"base"`  // run the unmonitored leg
	Mon   bool    `json:"mon"`   // run the monitored leg (the parent runs the client)
	Probe bool    `json:"probe"` // monitored leg with the harness' own Monitor over a Pause/Continue-observing engine wrapper
}

// c40RunCase is what the child process does: the unmonitored leg and/or the
// monitored leg with the client (the ID generator is reset per leg; IDs are
// not part of the fingerprint).
func c40RunCase(rq c40ChildReq, dir string) c40Result {
	c := rq.Case
	res := c40Result{Race: raceEnabled}
	if c.Procs > 0 {
		runtime.GOMAXPROCS(c.Procs)
	}

	if rq.Base {
		base, err := c40Build(c, "base", dir)
		if err != nil {
			res.Hang = "build-base: " + err.Error()
			return res
		}
		t0 := time.Now()
		o, _, _, hang := base.runLeg(c, nil, nil)
		res.BaseMS = time.Since(t0).Milliseconds()
		if hang {
			res.Hang = "base"
			return res
		}
		res.Base = o
		base.sim.Terminate()
	}

	if rq.Mon || rq.Probe {
		mode := "mon"
		if rq.Probe || c.Probe {
			mode = "probe"
		}
		mon, err := c40Build(c, mode, dir)
		if err != nil {
			res.Hang = "build-mon: " + err.Error()
			return res
		}
		res.Port = mon.port
		var stopSpin atomic.Bool
		for i := 0; i < c.Spin; i++ {
			go func() {
				n := 0
				for !stopSpin.Load() {
					n++
					if n%100000 == 0 {
						runtime.Gosched()
					}
				}
			}()
		}
		defer stopSpin.Store(true)
		t0 := time.Now()
		o, st, en, hang := mon.runLeg(c, func() {
			ab, _ := json.Marshal(c40Announce{Port: mon.port})
			_ = os.WriteFile(filepath.Join(dir, "port.tmp"), ab, 0o644)
			_ = os.Rename(filepath.Join(dir, "port.tmp"), filepath.Join(dir, "port"))
		}, func() bool {
			// keep the server up until the client in the parent has finished
			deadline := time.Now().Add(c40LegDeadline)
			for time.Now().Before(deadline) {
				if _, err := os.Stat(filepath.Join(dir, "clientdone")); err == nil {
					return true
				}
				time.Sleep(2 * time.Millisecond)
			}
			return false
		})
		res.MonMS = time.Since(t0).Milliseconds()
		res.RunStartNS, res.RunEndNS = st, en
		if hang {
			res.Hang = "monitored"
			return res
		}
		res.Mon = o
		if mon.ownMonitor != nil {
			mon.ownMonitor.StopServer()
		}
		if p := mon.probe; p != nil {
			p.mu.Lock()
			res.Sections = append(res.Sections, p.sections...)
			res.NowCalls, res.NowDuringEvent = p.nowCalls, p.nowDuringEvent
			res.PauseCalls, res.PauseMidEvent, res.PauseMidSlow, res.InspectMidSlow = p.pauseCalls, p.pauseMidEvent, p.pauseMidSlow, p.inspectMidSlow
			res.PauseWaitMaxUS = p.pauseWaitMaxUS
			p.mu.Unlock()
		}
		if sl := mon.slow; sl != nil {
			res.SlowSpans = sl.w.spans
			res.TickWhileBusy = int(sl.w.tickWhileBusy.Load())
			res.SlowTicks = int(sl.w.ticks.Load())
			res.TickBusyAtomic = int(sl.w.tickBusyAtom.Load())
		}
		mon.sim.Terminate()
	}
	return res
}

// c40ServeCase runs one request file in this (child) process. It returns true
// when the process must not be reused.
func c40ServeCase(cf, of string) bool {
	var res c40Result
	b, err := os.ReadFile(cf)
	var rq c40ChildReq
	if err == nil {
		err = json.Unmarshal(b, &rq)
	}
	if err != nil {
		res.Hang = "harness: " + err.Error()
	} else {
		res = c40RunCase(rq, filepath.Dir(cf))
	}
	if res.Hang != "" {
		buf := make([]byte, 1<<20)
		buf = buf[:runtime.Stack(buf, true)]
		_ = os.WriteFile(cf+".goroutines", buf, 0o644)
	}
	ob, _ := json.Marshal(res)
	_ = os.WriteFile(of, ob, 0o644)
	return res.Hang != ""
}
