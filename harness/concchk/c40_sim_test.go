package concchk

import (
	"encoding/binary"
	"encoding/json"
	"fmt"
	"io"
	"net/http"
	"net/url"
	"os"
	"path/filepath"
	"regexp"
	"runtime"
	"sort"
	"sync"
	"sync/atomic"
	"time"

	"github.com/sarchlab/akita/v5/hooking"
	"github.com/sarchlab/akita/v5/mem"
	"github.com/sarchlab/akita/v5/mem/acceptancetests/memaccessagent"
	"github.com/sarchlab/akita/v5/mem/cache/writeback"
	"github.com/sarchlab/akita/v5/mem/idealmemcontroller"
	"github.com/sarchlab/akita/v5/mem/memprotocol"
	"github.com/sarchlab/akita/v5/messaging"
	"github.com/sarchlab/akita/v5/modeling"
	"github.com/sarchlab/akita/v5/noc/directconnection"
	"github.com/sarchlab/akita/v5/simulation"
	"github.com/sarchlab/akita/v5/timing"
)

// ---- the case (plain data) -------------------------------------------------

// c40Req is one monitor request. Kind names the endpoint (see c40Routes).
type c40Req struct {
	Kind   string `json:"kind"`
	Comp   string `json:"comp,omitempty"`   // component name for tick/component/field
	Field  string `json:"field,omitempty"`  // dotted field path for field
	Query  string `json:"query,omitempty"`  // raw query string (buffers, field paging)
	GapUS  int    `json:"gap_us"`           // sleep before the request (perturbation plan)
	Yields int    `json:"yields,omitempty"` // runtime.Gosched() calls before the request
}

type c40Case struct {
	Seed       int64    `json:"seed"`        // access-stream seed of the memory agent
	Accesses   int      `json:"accesses"`    // reads == writes == Accesses
	MaxAddrLog int      `json:"max_addr_lg"` // address range 2^n bytes
	CacheKB    int      `json:"cache_kb"`
	Ways       int      `json:"ways"`
	MSHR       int      `json:"mshr"`
	DRAMLat    int      `json:"dram_latency"`
	Procs      int      `json:"gomaxprocs"`
	Reqs       []c40Req `json:"reqs"`
}

// c40Components are the names registered with the monitor by the assembly.
var c40Components = []string{"MemAccessAgent", "Cache", "DRAM"}

// c40Fields are field paths that exist on the respective components (goseth
// entry points). A path that does not exist is answered with 404, which is
// also legitimate.
var c40Fields = map[string][]string{
	"MemAccessAgent": {"State", "State.WriteLeft", "State.PendingReadReq", "State.KnownMemValue", "Component", "LowModule"},
	"Cache":          {"State", "State.Transactions", "State.DirectoryState", "State.MSHRState", "State.EvictingList", "State.DirStageBuf"},
	"DRAM":           {"State", "State.ControlState", "TickingComponent"},
}

// c40Handler maps a request kind to the name of the Monitor method serving it
// (used to build race signatures and to steer around known findings).
var c40Handler = map[string]string{
	"pause":      "pauseEngine",
	"continue":   "continueEngine",
	"state":      "apiEngineState",
	"now":        "now",
	"tick":       "tick",
	"list":       "listComponents",
	"component":  "listComponentDetails",
	"field":      "listFieldValue",
	"buffers":    "hangDetectorBuffers",
	"progress":   "listProgressBars",
	"mode":       "apiMode",
	"is_tracing": "apiTraceIsTracing",
}

func (r c40Req) path() string {
	switch r.Kind {
	case "pause":
		return "/api/pause"
	case "continue":
		return "/api/continue"
	case "state":
		return "/api/engine/state"
	case "now":
		return "/api/now"
	case "tick":
		return "/api/tick/" + r.Comp
	case "list":
		return "/api/list_components"
	case "component":
		return "/api/component/" + r.Comp
	case "field":
		b, _ := json.Marshal(map[string]string{"comp_name": r.Comp, "field_name": r.Field})
		p := "/api/field/" + url.PathEscape(string(b))
		if r.Query != "" {
			p += "?" + r.Query
		}
		return p
	case "buffers":
		if r.Query != "" {
			return "/api/hangdetector/buffers?" + r.Query
		}
		return "/api/hangdetector/buffers"
	case "progress":
		return "/api/progress"
	case "mode":
		return "/api/mode"
	case "is_tracing":
		return "/api/trace/is_tracing"
	}
	panic("unknown request kind " + r.Kind)
}

// ---- what the child reports -------------------------------------------------

type c40Served struct {
	Kind    string `json:"kind"`
	Status  int    `json:"status"`
	MidRun  bool   `json:"mid_run"`  // Run() had started before the request was sent and had not returned when the response arrived
	Paused  bool   `json:"paused"`   // the client had the engine paused (its own pause, not yet continued)
	Advance bool   `json:"advanced"` // the handled-event counter moved between send and receive
	Err     string `json:"err,omitempty"`
	Body    string `json:"body,omitempty"` // truncated
}

type c40Outcome struct {
	Finished   bool   `json:"finished"`
	Panic      string `json:"panic,omitempty"`
	FinalTime  uint64 `json:"final_time"`
	Events     uint64 `json:"events"`
	EventHash  string `json:"event_hash"`  // hash over (time, handler) of every event in dispatch order
	MemHash    string `json:"mem_hash"`    // DRAM contents over the address range
	AgentHash  string `json:"agent_hash"`  // the agent's known values (address -> surviving value list)
	RspHash    string `json:"rsp_hash"`    // (simulated time, kind, data) of every response delivered to the agent, in order
	Reads      int    `json:"reads"`       // read responses delivered
	Writes     int    `json:"writes"`      // write-done responses delivered
	Pending    int    `json:"pending"`     // requests without a response at the end
	Left       int    `json:"left"`        // accesses never issued
}

type c40Result struct {
	Race      bool        `json:"race_enabled"`
	Base      c40Outcome  `json:"base"`      // unmonitored run
	Mon       c40Outcome  `json:"monitored"` // monitored run
	Served    []c40Served `json:"served"`
	Hang      string      `json:"hang,omitempty"` // which phase did not finish within the bounded wait
	Port      int         `json:"port"`
	BaseMS    int64       `json:"base_ms"`
	MonMS     int64       `json:"mon_ms"`
	ClientMS  int64       `json:"client_ms"`
	HTTPPanic []string    `json:"http_panics,omitempty"`
}

// ---- the assembly --------------------------------------------------------------

type c40Sim struct {
	sim    *simulation.Simulation
	engine timing.Engine
	agent  *memaccessagent.MemAccessAgent
	cache  *writeback.Comp
	dram   *idealmemcontroller.Comp
	rec    *c40Recorder
	port   int
}

// c40Recorder is an engine hook (both runs carry it) hashing the dispatch
// order and the data-carrying responses seen by the agent.
type c40Recorder struct {
	events  atomic.Uint64
	evHash  uint64
	running atomic.Bool
	engine  timing.Engine
	rspHash uint64
	reads   int
	writes  int
}

// c40RspHook hangs on the agent's Mem port and hashes every delivered response
// with the simulated time of delivery (IDs excluded).
type c40RspHook struct{ r *c40Recorder }

func (h c40RspHook) Func(ctx hooking.HookCtx) {
	if ctx.Pos != messaging.HookPosPortMsgRecvd {
		return
	}
	r := h.r
	var b [8]byte
	binary.LittleEndian.PutUint64(b[:], uint64(r.engine.CurrentTime()))
	r.rspHash = mix(r.rspHash, b[:])
	switch m := ctx.Item.(type) {
	case memprotocol.DataReadyRsp:
		r.reads++
		r.rspHash = mix(r.rspHash, []byte{'R'})
		r.rspHash = mix(r.rspHash, m.Data)
	case memprotocol.WriteDoneRsp:
		r.writes++
		r.rspHash = mix(r.rspHash, []byte{'W'})
	default:
		r.rspHash = mix(r.rspHash, []byte{'?'})
	}
}

const fnvOffset = 14695981039346656037
const fnvPrime = 1099511628211

func mix(h uint64, b []byte) uint64 {
	for _, c := range b {
		h ^= uint64(c)
		h *= fnvPrime
	}
	return h
}

func (r *c40Recorder) Func(ctx hooking.HookCtx) {
	if ctx.Pos != timing.HookPosBeforeEvent {
		return
	}
	evt := ctx.Item.(timing.Event)
	var b [8]byte
	binary.LittleEndian.PutUint64(b[:], uint64(evt.Time()))
	r.evHash = mix(r.evHash, b[:])
	r.evHash = mix(r.evHash, []byte(evt.HandlerID()))
	r.evHash = mix(r.evHash, []byte{0})
	r.events.Add(1)
}

var portRe = regexp.MustCompile(`http://localhost:(\d+)`)

func c40AssignPorts(s *simulation.Simulation, comp messaging.Component, names ...string) {
	for _, name := range names {
		p := modeling.MakePortBuilder().
			WithRegistrar(s).
			WithComponent(comp).
			WithSpec(modeling.PortSpec{BufSize: 4}).
			Build(name)
		comp.AssignPort(name, p)
	}
}

// c40Build assembles agent -> write-back cache -> ideal memory controller, the
// shape of /repo/mem/acceptancetests/writebackcache, with or without the
// monitor. With the monitor on, the port it chose is read from the line it
// prints to stderr.
func c40Build(c c40Case, monitored bool, dir string) (*c40Sim, error) {
	timing.ResetIDGenerator()

	name := "base"
	if monitored {
		name = "mon"
	}
	b := simulation.MakeBuilder().WithOutputFileName(filepath.Join(dir, name))
	if !monitored {
		b = b.WithoutMonitoring()
	}

	out := &c40Sim{rec: &c40Recorder{evHash: fnvOffset, rspHash: fnvOffset}}

	if monitored {
		// The monitor announces its port on os.Stderr only.
		rd, wr, err := os.Pipe()
		if err != nil {
			return nil, err
		}
		saved := os.Stderr
		os.Stderr = wr
		func() {
			defer func() { os.Stderr = saved; wr.Close() }()
			out.sim = b.Build()
		}()
		txt, _ := io.ReadAll(rd)
		rd.Close()
		m := portRe.FindSubmatch(txt)
		if m == nil {
			return nil, fmt.Errorf("monitor did not announce a port: %q", txt)
		}
		fmt.Sscanf(string(m[1]), "%d", &out.port)
	} else {
		out.sim = b.Build()
	}

	s := out.sim
	out.engine = s.GetEngine()

	conn := directconnection.MakeBuilder().WithRegistrar(s).Build("Conn")

	agentSpec := memaccessagent.DefaultSpec()
	agentSpec.MaxAddress = 1 << uint(c.MaxAddrLog)
	agentSpec.WriteLeft = c.Accesses
	agentSpec.ReadLeft = c.Accesses
	out.agent = memaccessagent.MakeBuilder().
		WithRegistrar(s).
		WithSpec(agentSpec).
		WithRandSeed(c.Seed).
		Build("MemAccessAgent")
	c40AssignPorts(s, out.agent, "Mem")
	if mon := s.GetMonitor(); mon != nil {
		out.agent.CreateProgressBars(mon.CreateProgressBar)
	}

	dramSpec := idealmemcontroller.DefaultSpec()
	dramSpec.Capacity = 1 * mem.MB
	dramSpec.Latency = c.DRAMLat
	out.dram = idealmemcontroller.MakeBuilder().WithRegistrar(s).WithSpec(dramSpec).Build("DRAM")
	c40AssignPorts(s, out.dram, "Top", "Control")

	mapper := new(mem.SinglePortMapper)
	mapper.Port = out.dram.GetPortByName("Top").AsRemote()

	cacheSpec := writeback.DefaultSpec()
	cacheSpec.TotalByteSize = uint64(c.CacheKB) * mem.KB
	cacheSpec.Log2BlockSize = 6
	cacheSpec.WayAssociativity = c.Ways
	cacheSpec.NumMSHREntry = c.MSHR
	cacheSpec.NumReqPerCycle = 4
	out.cache = writeback.MakeBuilder().
		WithRegistrar(s).
		WithSpec(cacheSpec).
		WithResources(writeback.Resources{AddressToPortMapper: mapper}).
		Build("Cache")
	c40AssignPorts(s, out.cache, "Top", "Bottom", "Control")

	out.agent.LowModule = out.cache.GetPortByName("Top")

	conn.PlugIn(out.agent.GetPortByName("Mem"))
	conn.PlugIn(out.cache.GetPortByName("Bottom"))
	conn.PlugIn(out.cache.GetPortByName("Top"))
	conn.PlugIn(out.dram.GetPortByName("Top"))

	out.rec.engine = out.engine
	out.engine.(hooking.Hookable).AcceptHook(out.rec)
	out.agent.GetPortByName("Mem").AcceptHook(c40RspHook{out.rec})

	return out, nil
}

func hex64(h uint64) string { return fmt.Sprintf("%016x", h) }

// outcome is taken after Run returned (single-threaded again).
func (s *c40Sim) outcome(c c40Case, finished bool, pan string) c40Outcome {
	o := c40Outcome{Finished: finished, Panic: pan}
	if !finished {
		return o
	}
	o.FinalTime = uint64(s.engine.CurrentTime())
	o.Events = s.rec.events.Load()
	o.EventHash = hex64(s.rec.evHash)
	o.RspHash = hex64(s.rec.rspHash)
	o.Reads, o.Writes = s.rec.reads, s.rec.writes

	st := &s.agent.State
	o.Pending = len(st.PendingReadReq) + len(st.PendingWriteReq)
	o.Left = st.ReadLeft + st.WriteLeft

	addrs := make([]uint64, 0, len(st.KnownMemValue))
	for a := range st.KnownMemValue {
		addrs = append(addrs, a)
	}
	sort.Slice(addrs, func(i, j int) bool { return addrs[i] < addrs[j] })
	h := uint64(fnvOffset)
	var b [8]byte
	for _, a := range addrs {
		binary.LittleEndian.PutUint64(b[:], a)
		h = mix(h, b[:])
		for _, v := range st.KnownMemValue[a] {
			binary.LittleEndian.PutUint32(b[:4], v)
			h = mix(h, b[:4])
		}
		h = mix(h, []byte{0xff})
	}
	o.AgentHash = hex64(h)

	storage := s.dram.Resources().Storage
	data, err := storage.Read(0, 1<<uint(c.MaxAddrLog))
	if err != nil {
		o.MemHash = "error:" + err.Error()
	} else {
		o.MemHash = hex64(mix(fnvOffset, data))
	}
	return o
}

// ---- one leg ----------------------------------------------------------------------

const c40LegDeadline = 90 * time.Second

// runLeg runs the assembled simulation to completion on the calling goroutine's
// child goroutine with a bounded wait. client (may be nil) is started once Run is
// about to begin and must return before the outcome is taken.
func (s *c40Sim) runLeg(c c40Case, client func()) (o c40Outcome, hang bool) {
	s.agent.TickLater()

	done := make(chan string, 1)
	var cwg sync.WaitGroup
	if client != nil {
		cwg.Add(1)
	}
	go func() {
		pan := ""
		func() {
			defer func() {
				if r := recover(); r != nil {
					buf := make([]byte, 1<<14)
					buf = buf[:runtime.Stack(buf, false)]
					pan = fmt.Sprintf("%v\n%s", r, buf)
				}
			}()
			s.rec.running.Store(true)
			if client != nil {
				go func() { defer cwg.Done(); client() }()
			}
			err := s.engine.Run()
			if err != nil {
				pan = "Run returned error: " + err.Error()
			}
		}()
		s.rec.running.Store(false)
		done <- pan
	}()

	select {
	case pan := <-done:
		cdone := make(chan struct{})
		go func() { cwg.Wait(); close(cdone) }()
		select {
		case <-cdone:
		case <-time.After(c40LegDeadline):
			return c40Outcome{}, true
		}
		return s.outcome(c, pan == "", pan), false
	case <-time.After(c40LegDeadline):
		return c40Outcome{}, true
	}
}

// ---- the client -----------------------------------------------------------------------

func c40Client(s *c40Sim, reqs []c40Req, served *[]c40Served) func() {
	return func() {
		tr := &http.Transport{DisableKeepAlives: false, MaxIdleConnsPerHost: 1}
		cl := &http.Client{Transport: tr, Timeout: 60 * time.Second}
		defer tr.CloseIdleConnections()
		base := fmt.Sprintf("http://127.0.0.1:%d", s.port)
		paused := false
		for _, r := range reqs {
			if r.GapUS > 0 {
				time.Sleep(time.Duration(r.GapUS) * time.Microsecond)
			}
			for i := 0; i < r.Yields; i++ {
				runtime.Gosched()
			}
			sv := c40Served{Kind: r.Kind, Paused: paused}
			before := s.rec.running.Load()
			ev0 := s.rec.events.Load()
			method := http.MethodGet
			if r.Kind == "pause" || r.Kind == "continue" || r.Kind == "tick" {
				method = http.MethodPost
			}
			req, err := http.NewRequest(method, base+r.path(), nil)
			if err != nil {
				sv.Err = err.Error()
				*served = append(*served, sv)
				continue
			}
			rsp, err := cl.Do(req)
			if err != nil {
				sv.Err = err.Error()
				*served = append(*served, sv)
				continue
			}
			body, _ := io.ReadAll(io.LimitReader(rsp.Body, 1<<20))
			rsp.Body.Close()
			after := s.rec.running.Load()
			sv.Status = rsp.StatusCode
			sv.MidRun = before && after
			sv.Advance = s.rec.events.Load() != ev0
			if len(body) > 120 {
				body = body[:120]
			}
			sv.Body = string(body)
			switch r.Kind {
			case "pause":
				paused = true
			case "continue":
				paused = false
			}
			*served = append(*served, sv)
		}
	}
}

// c40ChildReq is what the parent asks a child to do with a case.
type c40ChildReq struct {
	Case c40Case `json:"case"`
	Base bool    `json:"base"` // run the unmonitored leg
	Mon  bool    `json:"mon"`  // run the monitored leg with the client
}

// c40RunCase is what the child process does: the unmonitored leg and/or the
// monitored leg with the client (the ID generator is reset per leg; IDs are
// not part of the fingerprint).
func c40RunCase(rq c40ChildReq, dir string) c40Result {
	c := rq.Case
	res := c40Result{Race: raceEnabled}
	if c.Procs > 0 {
		runtime.GOMAXPROCS(c.Procs)
	}

	if rq.Base {
		base, err := c40Build(c, false, dir)
		if err != nil {
			res.Hang = "build-base: " + err.Error()
			return res
		}
		t0 := time.Now()
		o, hang := base.runLeg(c, nil)
		res.BaseMS = time.Since(t0).Milliseconds()
		if hang {
			res.Hang = "base"
			return res
		}
		res.Base = o
		base.sim.Terminate()
	}

	if rq.Mon {
		mon, err := c40Build(c, true, dir)
		if err != nil {
			res.Hang = "build-mon: " + err.Error()
			return res
		}
		res.Port = mon.port
		var served []c40Served
		var clientMS int64
		cl := c40Client(mon, c.Reqs, &served)
		t0 := time.Now()
		o, hang := mon.runLeg(c, func() {
			t1 := time.Now()
			cl()
			clientMS = time.Since(t1).Milliseconds()
		})
		res.MonMS = time.Since(t0).Milliseconds()
		if hang {
			res.Hang = "monitored"
			res.Served = served
			return res
		}
		res.ClientMS = clientMS
		res.Mon = o
		res.Served = served
		mon.sim.Terminate()
	}
	return res
}

// c40ServeCase runs one request file in this (child) process. It returns true
// when the process must not be reused.
func c40ServeCase(cf, of string) bool {
	var res c40Result
	b, err := os.ReadFile(cf)
	var rq c40ChildReq
	if err == nil {
		err = json.Unmarshal(b, &rq)
	}
	if err != nil {
		res.Hang = "harness: " + err.Error()
	} else {
		res = c40RunCase(rq, filepath.Dir(cf))
	}
	if res.Hang != "" {
		buf := make([]byte, 1<<20)
		buf = buf[:runtime.Stack(buf, true)]
		_ = os.WriteFile(cf+".goroutines", buf, 0o644)
	}
	ob, _ := json.Marshal(res)
	_ = os.WriteFile(of, ob, 0o644)
	return res.Hang != ""
}
