package concchk

import (
	"encoding/binary"
	"encoding/json"
	"fmt"
	"io"
	"net/http"
	"net/url"
	"os"
	"path/filepath"
	"regexp"
	"runtime"
	"sort"
	"strings"
	"sync"
	"sync/atomic"
	"time"

	"github.com/sarchlab/akita/v5/hooking"
	"github.com/sarchlab/akita/v5/mem"
	"github.com/sarchlab/akita/v5/mem/acceptancetests/memaccessagent"
	"github.com/sarchlab/akita/v5/mem/cache/writeback"
	"github.com/sarchlab/akita/v5/mem/idealmemcontroller"
	"github.com/sarchlab/akita/v5/mem/memprotocol"
	"github.com/sarchlab/akita/v5/messaging"
	"github.com/sarchlab/akita/v5/modeling"
	"github.com/sarchlab/akita/v5/monitoring2"
	"github.com/sarchlab/akita/v5/noc/directconnection"
	"github.com/sarchlab/akita/v5/simulation"
	"github.com/sarchlab/akita/v5/timing"
)

// ---- the case (plain data) -------------------------------------------------

// c40Req is one monitor request. Kind names the endpoint (see c40Routes).
type c40Req struct {
	Kind   string `json:"kind"`
	Comp   string `json:"comp,omitempty"`   // component name for tick/component/field
	Field  string `json:"field,omitempty"`  // dotted field path for field
	Query  string `json:"query,omitempty"`  // raw query string (buffers, field paging)
	GapUS  int    `json:"gap_us"`           // sleep before the request (perturbation plan)
	Yields int    `json:"yields,omitempty"` // runtime.Gosched() calls before the request
}

type c40Case struct {
	Seed       int64    `json:"seed"`        // access-stream seed of the memory agent
	Accesses   int      `json:"accesses"`    // reads == writes == Accesses
	MaxAddrLog int      `json:"max_addr_lg"` // address range 2^n bytes
	CacheKB    int      `json:"cache_kb"`
	Ways       int      `json:"ways"`
	MSHR       int      `json:"mshr"`
	DRAMLat    int      `json:"dram_latency"`
	Procs      int      `json:"gomaxprocs"`
	Spin       int      `json:"spinners,omitempty"` // busy goroutines competing for the Ps during the monitored run (perturbation plan)
	Reqs       []c40Req `json:"reqs"`
}

// c40Components are the names registered with the monitor by the assembly.
var c40Components = []string{"MemAccessAgent", "Cache", "DRAM"}

// c40Fields are field paths that exist on the respective components (goseth
// entry points). A path that does not exist is answered with 404, which is
// also legitimate.
var c40Fields = map[string][]string{
	"MemAccessAgent": {"State", "State.WriteLeft", "State.PendingReadReq", "State.KnownMemValue", "Component", "LowModule"},
	"Cache":          {"State", "State.Transactions", "State.DirectoryState", "State.MSHRState", "State.EvictingList", "State.DirStageBuf"},
	"DRAM":           {"State", "State.ControlState", "TickingComponent"},
}

// c40Handler maps a request kind to the name of the Monitor method serving it
// (used to build race signatures and to steer around known findings).
var c40Handler = map[string]string{
	"pause":      "pauseEngine",
	"continue":   "continueEngine",
	"state":      "apiEngineState",
	"now":        "now",
	"tick":       "tick",
	"list":       "listComponents",
	"component":  "listComponentDetails",
	"field":      "listFieldValue",
	"buffers":    "hangDetectorBuffers",
	"progress":   "listProgressBars",
	"mode":       "apiMode",
	"is_tracing": "apiTraceIsTracing",
}

func (r c40Req) path() string {
	switch r.Kind {
	case "pause":
		return "/api/pause"
	case "continue":
		return "/api/continue"
	case "state":
		return "/api/engine/state"
	case "now":
		return "/api/now"
	case "tick":
		return "/api/tick/" + r.Comp
	case "list":
		return "/api/list_components"
	case "component":
		return "/api/component/" + r.Comp
	case "field":
		b, _ := json.Marshal(map[string]string{"comp_name": r.Comp, "field_name": r.Field})
		p := "/api/field/" + url.PathEscape(string(b))
		if r.Query != "" {
			p += "?" + r.Query
		}
		return p
	case "buffers":
		if r.Query != "" {
			return "/api/hangdetector/buffers?" + r.Query
		}
		return "/api/hangdetector/buffers"
	case "progress":
		return "/api/progress"
	case "mode":
		return "/api/mode"
	case "is_tracing":
		return "/api/trace/is_tracing"
	}
	panic("unknown request kind " + r.Kind)
}

// ---- what the child reports -------------------------------------------------

type c40Served struct {
	Kind   string `json:"kind"`
	Status int    `json:"status"`
	MidRun bool   `json:"mid_run"` // Run() had started before the request was sent and had not returned when the response arrived
	SendNS int64  `json:"send_ns"`
	RecvNS int64  `json:"recv_ns"`
	Paused bool   `json:"paused"` // the client had the engine paused (its own pause, not yet continued)
	Err    string `json:"err,omitempty"`
	Body   string `json:"body,omitempty"` // truncated
}

type c40Outcome struct {
	Finished  bool   `json:"finished"`
	Panic     string `json:"panic,omitempty"`
	FinalTime uint64 `json:"final_time"`
	Events    uint64 `json:"events"`
	EventHash string `json:"event_hash"` // hash over (time, handler) of every event in dispatch order
	MemHash   string `json:"mem_hash"`   // DRAM contents over the address range
	AgentHash string `json:"agent_hash"` // the agent's known values (address -> surviving value list)
	RspHash   string `json:"rsp_hash"`   // (simulated time, kind, data) of every response delivered to the agent, in order
	Reads     int    `json:"reads"`      // read responses delivered
	Writes    int    `json:"writes"`     // write-done responses delivered
	Pending   int    `json:"pending"`    // requests without a response at the end
	Left      int    `json:"left"`       // accesses never issued
}

type c40Result struct {
	Race       bool         `json:"race_enabled"`
	Base       c40Outcome   `json:"base"`               // unmonitored run
	Mon        c40Outcome   `json:"monitored"`          // monitored run
	Served     []c40Served  `json:"served"`             // filled in by the parent (it runs the client)
	Sections   []c40Section `json:"sections,omitempty"` // probe mode
	RunStartNS int64        `json:"run_start_ns"`
	RunEndNS   int64        `json:"run_end_ns"`
	Hang       string       `json:"hang,omitempty"` // which phase did not finish within the bounded wait
	Port       int          `json:"port"`
	BaseMS     int64        `json:"base_ms"`
	MonMS      int64        `json:"mon_ms"`
	ClientMS   int64        `json:"client_ms"`
	HTTPPanic  []string     `json:"http_panics,omitempty"`
}

// ---- the assembly --------------------------------------------------------------

type c40Sim struct {
	sim    *simulation.Simulation
	engine timing.Engine
	agent  *memaccessagent.MemAccessAgent
	cache  *writeback.Comp
	dram   *idealmemcontroller.Comp
	rec    *c40Recorder
	port   int

	probe      *c40Probe
	ownMonitor *monitoring2.Monitor
}

// c40Recorder is an engine hook (both runs carry it) hashing the dispatch
// order and the data-carrying responses seen by the agent.
//
// Nothing in it may synchronise the engine goroutine with the client while the
// run is in progress: the race detector treats an atomic read of something the
// engine goroutine wrote atomically as an acquire, and the loopback connection
// carries that edge on to the HTTP handler (internal/poll orders all I/O under
// -race), which would hide exactly the races this check looks for. Therefore
// the event counter and the hashes are plain fields owned by the engine
// goroutine and read only after Run returned.
type c40Recorder struct {
	events  uint64
	evHash  uint64
	engine  timing.Engine
	probe   *c40Probe // probe mode only: publishes the engine phase (this *does* synchronise; probe mode does not rely on the race detector)
	rspHash uint64
	reads   int
	writes  int
}

// c40RspHook hangs on the agent's Mem port and hashes every delivered response
// with the simulated time of delivery (IDs excluded).
type c40RspHook struct{ r *c40Recorder }

func (h c40RspHook) Func(ctx hooking.HookCtx) {
	if ctx.Pos != messaging.HookPosPortMsgRecvd {
		return
	}
	r := h.r
	var b [8]byte
	binary.LittleEndian.PutUint64(b[:], uint64(r.engine.CurrentTime()))
	r.rspHash = mix(r.rspHash, b[:])
	switch m := ctx.Item.(type) {
	case memprotocol.DataReadyRsp:
		r.reads++
		r.rspHash = mix(r.rspHash, []byte{'R'})
		r.rspHash = mix(r.rspHash, m.Data)
	case memprotocol.WriteDoneRsp:
		r.writes++
		r.rspHash = mix(r.rspHash, []byte{'W'})
	default:
		r.rspHash = mix(r.rspHash, []byte{'?'})
	}
}

const fnvOffset = 14695981039346656037
const fnvPrime = 1099511628211

func mix(h uint64, b []byte) uint64 {
	for _, c := range b {
		h ^= uint64(c)
		h *= fnvPrime
	}
	return h
}

func (r *c40Recorder) Func(ctx hooking.HookCtx) {
	if ctx.Pos != timing.HookPosBeforeEvent {
		if r.probe != nil && ctx.Pos == timing.HookPosAfterEvent {
			r.probe.phase.Store(2 * r.events)
		}
		return
	}
	if r.probe != nil {
		r.probe.phase.Store(2*r.events + 1)
	}
	evt := ctx.Item.(timing.Event)
	var b [8]byte
	binary.LittleEndian.PutUint64(b[:], uint64(evt.Time()))
	r.evHash = mix(r.evHash, b[:])
	r.evHash = mix(r.evHash, []byte(evt.HandlerID()))
	r.evHash = mix(r.evHash, []byte{0})
	r.events++
}

var portRe = regexp.MustCompile(`http://localhost:(\d+)`)

// c40CapturePort runs start (which starts a monitor server) and returns the
// port the monitor announced — on os.Stderr only.
func c40CapturePort(start func()) (int, error) {
	rd, wr, err := os.Pipe()
	if err != nil {
		return 0, err
	}
	saved := os.Stderr
	os.Stderr = wr
	func() {
		defer func() { os.Stderr = saved; wr.Close() }()
		start()
	}()
	txt, _ := io.ReadAll(rd)
	rd.Close()
	m := portRe.FindSubmatch(txt)
	if m == nil {
		return 0, fmt.Errorf("monitor did not announce a port: %q", txt)
	}
	port := 0
	fmt.Sscanf(string(m[1]), "%d", &port)
	return port, nil
}

// ---- quiescence probe ---------------------------------------------------------------------------

// c40Section is one Pause()…Continue() bracket made by a monitor handler.
type c40Section struct {
	Handler string `json:"handler"` // the Monitor method that called Pause
	S1      uint64 `json:"s1"`      // engine phase when Pause() returned: 2k = between events after k events, 2k+1 = inside event k+1
	S2      uint64 `json:"s2"`      // engine phase when Continue() was called
}

type c40Probe struct {
	phase    atomic.Uint64
	mu       sync.Mutex
	cur      *c40Section
	sections []c40Section
}

// c40ProbeEngine wraps the real engine for the monitor only; the components
// schedule on the real one.
type c40ProbeEngine struct {
	timing.Engine
	p *c40Probe
}

func c40CallingHandler() string {
	pcs := make([]uintptr, 24)
	n := runtime.Callers(2, pcs)
	frames := runtime.CallersFrames(pcs[:n])
	h := "unknown"
	for {
		f, more := frames.Next()
		const pfx = "github.com/sarchlab/akita/v5/monitoring2.(*Monitor)."
		if strings.HasPrefix(f.Function, pfx) {
			h = strings.TrimSuffix(strings.TrimPrefix(f.Function, pfx), "-fm")
			if i := strings.Index(h, ".func"); i >= 0 {
				h = h[:i]
			}
		}
		if !more {
			break
		}
	}
	return h
}

func (e *c40ProbeEngine) Pause() {
	e.Engine.Pause()
	s1 := e.p.phase.Load()
	h := c40CallingHandler()
	e.p.mu.Lock()
	e.p.cur = &c40Section{Handler: h, S1: s1}
	e.p.mu.Unlock()
}

func (e *c40ProbeEngine) Continue() {
	s2 := e.p.phase.Load()
	e.p.mu.Lock()
	if e.p.cur != nil {
		e.p.cur.S2 = s2
		e.p.sections = append(e.p.sections, *e.p.cur)
		e.p.cur = nil
	}
	e.p.mu.Unlock()
	e.Engine.Continue()
}

func c40AssignPorts(s *simulation.Simulation, comp messaging.Component, names ...string) {
	for _, name := range names {
		p := modeling.MakePortBuilder().
			WithRegistrar(s).
			WithComponent(comp).
			WithSpec(modeling.PortSpec{BufSize: 4}).
			Build(name)
		comp.AssignPort(name, p)
	}
}

// c40Build assembles agent -> write-back cache -> ideal memory controller, the
// shape of /repo/mem/acceptancetests/writebackcache, with or without the
// monitor. With the monitor on, the port it chose is read from the line it
// prints to stderr.
func c40Build(c c40Case, mode string, dir string) (*c40Sim, error) {
	timing.ResetIDGenerator()

	monitored := mode == "mon"
	b := simulation.MakeBuilder().WithOutputFileName(filepath.Join(dir, mode))
	if !monitored {
		b = b.WithoutMonitoring()
	}

	out := &c40Sim{rec: &c40Recorder{evHash: fnvOffset, rspHash: fnvOffset}}

	if monitored {
		port, err := c40CapturePort(func() { out.sim = b.Build() })
		if err != nil {
			return nil, err
		}
		out.port = port
	} else {
		out.sim = b.Build()
	}

	s := out.sim
	out.engine = s.GetEngine()

	conn := directconnection.MakeBuilder().WithRegistrar(s).Build("Conn")

	agentSpec := memaccessagent.DefaultSpec()
	agentSpec.MaxAddress = 1 << uint(c.MaxAddrLog)
	agentSpec.WriteLeft = c.Accesses
	agentSpec.ReadLeft = c.Accesses
	out.agent = memaccessagent.MakeBuilder().
		WithRegistrar(s).
		WithSpec(agentSpec).
		WithRandSeed(c.Seed).
		Build("MemAccessAgent")
	c40AssignPorts(s, out.agent, "Mem")
	if mon := s.GetMonitor(); mon != nil {
		out.agent.CreateProgressBars(mon.CreateProgressBar)
	}

	dramSpec := idealmemcontroller.DefaultSpec()
	dramSpec.Capacity = 1 * mem.MB
	dramSpec.Latency = c.DRAMLat
	out.dram = idealmemcontroller.MakeBuilder().WithRegistrar(s).WithSpec(dramSpec).Build("DRAM")
	c40AssignPorts(s, out.dram, "Top", "Control")

	mapper := new(mem.SinglePortMapper)
	mapper.Port = out.dram.GetPortByName("Top").AsRemote()

	cacheSpec := writeback.DefaultSpec()
	cacheSpec.TotalByteSize = uint64(c.CacheKB) * mem.KB
	cacheSpec.Log2BlockSize = 6
	cacheSpec.WayAssociativity = c.Ways
	cacheSpec.NumMSHREntry = c.MSHR
	cacheSpec.NumReqPerCycle = 4
	out.cache = writeback.MakeBuilder().
		WithRegistrar(s).
		WithSpec(cacheSpec).
		WithResources(writeback.Resources{AddressToPortMapper: mapper}).
		Build("Cache")
	c40AssignPorts(s, out.cache, "Top", "Bottom", "Control")

	out.agent.LowModule = out.cache.GetPortByName("Top")

	conn.PlugIn(out.agent.GetPortByName("Mem"))
	conn.PlugIn(out.cache.GetPortByName("Bottom"))
	conn.PlugIn(out.cache.GetPortByName("Top"))
	conn.PlugIn(out.dram.GetPortByName("Top"))

	if mode == "probe" {
		// Own monitor over a wrapper of the same engine: the wrapper notes what
		// the engine was doing when Pause() returned / Continue() was called.
		out.probe = &c40Probe{}
		out.rec.probe = out.probe
		mon := monitoring2.NewMonitor()
		mon.RegisterEngine(&c40ProbeEngine{Engine: out.engine, p: out.probe})
		mon.RegisterComponent(out.agent)
		mon.RegisterComponent(out.dram)
		mon.RegisterComponent(out.cache)
		out.agent.CreateProgressBars(mon.CreateProgressBar)
		port, err := c40CapturePort(mon.StartServer)
		if err != nil {
			return nil, err
		}
		out.port = port
		out.ownMonitor = mon
	}

	out.rec.engine = out.engine
	out.engine.(hooking.Hookable).AcceptHook(out.rec)
	out.agent.GetPortByName("Mem").AcceptHook(c40RspHook{out.rec})

	return out, nil
}

func hex64(h uint64) string { return fmt.Sprintf("%016x", h) }

// outcome is taken after Run returned (single-threaded again).
func (s *c40Sim) outcome(c c40Case, finished bool, pan string) c40Outcome {
	o := c40Outcome{Finished: finished, Panic: pan}
	if !finished {
		return o
	}
	o.FinalTime = uint64(s.engine.CurrentTime())
	o.Events = s.rec.events
	o.EventHash = hex64(s.rec.evHash)
	o.RspHash = hex64(s.rec.rspHash)
	o.Reads, o.Writes = s.rec.reads, s.rec.writes

	st := &s.agent.State
	o.Pending = len(st.PendingReadReq) + len(st.PendingWriteReq)
	o.Left = st.ReadLeft + st.WriteLeft

	addrs := make([]uint64, 0, len(st.KnownMemValue))
	for a := range st.KnownMemValue {
		addrs = append(addrs, a)
	}
	sort.Slice(addrs, func(i, j int) bool { return addrs[i] < addrs[j] })
	h := uint64(fnvOffset)
	var b [8]byte
	for _, a := range addrs {
		binary.LittleEndian.PutUint64(b[:], a)
		h = mix(h, b[:])
		for _, v := range st.KnownMemValue[a] {
			binary.LittleEndian.PutUint32(b[:4], v)
			h = mix(h, b[:4])
		}
		h = mix(h, []byte{0xff})
	}
	o.AgentHash = hex64(h)

	storage := s.dram.Resources().Storage
	data, err := storage.Read(0, 1<<uint(c.MaxAddrLog))
	if err != nil {
		o.MemHash = "error:" + err.Error()
	} else {
		o.MemHash = hex64(mix(fnvOffset, data))
	}
	return o
}

// ---- one leg ----------------------------------------------------------------------

const c40LegDeadline = 90 * time.Second

// c40Announce is what the child writes to <dir>/port right before the
// monitored run starts: the parent process runs the HTTP client. (The client
// is deliberately not a goroutine of the simulation process: under -race every
// incidental synchronisation between the engine goroutine and an in-process
// client — pooled objects, atomics — would travel over the loopback connection
// to the HTTP handler and hide the races this check looks for.)
type c40Announce struct {
	Port int `json:"port"`
}

// runLeg runs the assembled simulation to completion on a goroutine of its own
// with a bounded wait. announce (may be nil) is called right before the engine
// goroutine starts; afterRun (may be nil) is called once Run has returned and
// must return before the outcome is taken.
func (s *c40Sim) runLeg(c c40Case, announce func(), afterRun func() bool) (o c40Outcome, startNS, endNS int64, hang bool) {
	s.agent.TickLater()

	type fin struct {
		pan        string
		start, end int64
	}
	done := make(chan fin, 1)
	if announce != nil {
		announce()
	}
	go func() {
		var f fin
		func() {
			defer func() {
				if r := recover(); r != nil {
					buf := make([]byte, 1<<14)
					buf = buf[:runtime.Stack(buf, false)]
					f.pan = fmt.Sprintf("%v\n%s", r, buf)
				}
			}()
			f.start = time.Now().UnixNano()
			err := s.engine.Run()
			if err != nil {
				f.pan = "Run returned error: " + err.Error()
			}
		}()
		f.end = time.Now().UnixNano()
		done <- f
	}()

	select {
	case f := <-done:
		if afterRun != nil && !afterRun() {
			return c40Outcome{}, f.start, f.end, true
		}
		return s.outcome(c, f.pan == "", f.pan), f.start, f.end, false
	case <-time.After(c40LegDeadline):
		return c40Outcome{}, 0, 0, true
	}
}

// ---- the client (runs in the parent process) -----------------------------------------------

// c40Client issues the requests against the announced port. stop is closed when
// the child has gone away.
func c40Client(port int, reqs []c40Req, stop <-chan struct{}) []c40Served {
	var served []c40Served
	tr := &http.Transport{DisableKeepAlives: false, MaxIdleConnsPerHost: 1}
	cl := &http.Client{Transport: tr, Timeout: 60 * time.Second}
	defer tr.CloseIdleConnections()
	base := fmt.Sprintf("http://127.0.0.1:%d", port)
	paused := false
	for _, r := range reqs {
		select {
		case <-stop:
			return served
		default:
		}
		if r.GapUS > 0 {
			time.Sleep(time.Duration(r.GapUS) * time.Microsecond)
		}
		for i := 0; i < r.Yields; i++ {
			runtime.Gosched()
		}
		sv := c40Served{Kind: r.Kind, Paused: paused}
		method := http.MethodGet
		if r.Kind == "pause" || r.Kind == "continue" || r.Kind == "tick" {
			method = http.MethodPost
		}
		req, err := http.NewRequest(method, base+r.path(), nil)
		if err != nil {
			sv.Err = err.Error()
			served = append(served, sv)
			continue
		}
		sv.SendNS = time.Now().UnixNano()
		rsp, err := cl.Do(req)
		if err != nil {
			sv.Err = err.Error()
			served = append(served, sv)
			continue
		}
		body, _ := io.ReadAll(io.LimitReader(rsp.Body, 1<<20))
		rsp.Body.Close()
		sv.RecvNS = time.Now().UnixNano()
		sv.Status = rsp.StatusCode
		if len(body) > 120 {
			body = body[:120]
		}
		sv.Body = string(body)
		switch r.Kind {
		case "pause":
			paused = true
		case "continue":
			paused = false
		}
		served = append(served, sv)
	}
	return served
}

// c40ChildReq is what the parent asks a child to do with a case.
type c40ChildReq struct {
	Case  c40Case `json:"case"`
	Base  bool    `json:"base"`  // run the unmonitored leg
	Mon   bool    `json:"mon"`   // run the monitored leg (the parent runs the client)
	Probe bool    `json:"probe"` // monitored leg with the harness' own Monitor over a Pause/Continue-observing engine wrapper
}

// c40RunCase is what the child process does: the unmonitored leg and/or the
// monitored leg with the client (the ID generator is reset per leg; IDs are
// not part of the fingerprint).
func c40RunCase(rq c40ChildReq, dir string) c40Result {
	c := rq.Case
	res := c40Result{Race: raceEnabled}
	if c.Procs > 0 {
		runtime.GOMAXPROCS(c.Procs)
	}

	if rq.Base {
		base, err := c40Build(c, "base", dir)
		if err != nil {
			res.Hang = "build-base: " + err.Error()
			return res
		}
		t0 := time.Now()
		o, _, _, hang := base.runLeg(c, nil, nil)
		res.BaseMS = time.Since(t0).Milliseconds()
		if hang {
			res.Hang = "base"
			return res
		}
		res.Base = o
		base.sim.Terminate()
	}

	if rq.Mon || rq.Probe {
		mode := "mon"
		if rq.Probe {
			mode = "probe"
		}
		mon, err := c40Build(c, mode, dir)
		if err != nil {
			res.Hang = "build-mon: " + err.Error()
			return res
		}
		res.Port = mon.port
		var stopSpin atomic.Bool
		for i := 0; i < c.Spin; i++ {
			go func() {
				n := 0
				for !stopSpin.Load() {
					n++
					if n%100000 == 0 {
						runtime.Gosched()
					}
				}
			}()
		}
		defer stopSpin.Store(true)
		t0 := time.Now()
		o, st, en, hang := mon.runLeg(c, func() {
			ab, _ := json.Marshal(c40Announce{Port: mon.port})
			_ = os.WriteFile(filepath.Join(dir, "port.tmp"), ab, 0o644)
			_ = os.Rename(filepath.Join(dir, "port.tmp"), filepath.Join(dir, "port"))
		}, func() bool {
			// keep the server up until the client in the parent has finished
			deadline := time.Now().Add(c40LegDeadline)
			for time.Now().Before(deadline) {
				if _, err := os.Stat(filepath.Join(dir, "clientdone")); err == nil {
					return true
				}
				time.Sleep(2 * time.Millisecond)
			}
			return false
		})
		res.MonMS = time.Since(t0).Milliseconds()
		res.RunStartNS, res.RunEndNS = st, en
		if hang {
			res.Hang = "monitored"
			return res
		}
		res.Mon = o
		if mon.ownMonitor != nil {
			mon.ownMonitor.StopServer()
		}
		if mon.probe != nil {
			mon.probe.mu.Lock()
			res.Sections = append(res.Sections, mon.probe.sections...)
			mon.probe.mu.Unlock()
		}
		mon.sim.Terminate()
	}
	return res
}

// c40ServeCase runs one request file in this (child) process. It returns true
// when the process must not be reused.
func c40ServeCase(cf, of string) bool {
	var res c40Result
	b, err := os.ReadFile(cf)
	var rq c40ChildReq
	if err == nil {
		err = json.Unmarshal(b, &rq)
	}
	if err != nil {
		res.Hang = "harness: " + err.Error()
	} else {
		res = c40RunCase(rq, filepath.Dir(cf))
	}
	if res.Hang != "" {
		buf := make([]byte, 1<<20)
		buf = buf[:runtime.Stack(buf, true)]
		_ = os.WriteFile(cf+".goroutines", buf, 0o644)
	}
	ob, _ := json.Marshal(res)
	_ = os.WriteFile(of, ob, 0o644)
	return res.Hang != ""
}
