//go:build !race

package concchk

const raceEnabled = false
