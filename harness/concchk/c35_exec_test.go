package concchk

import (
	"bytes"
	"database/sql"
	"encoding/json"
	"fmt"
	"math"
	"os"
	"path/filepath"
	"reflect"
	"runtime"
	"strings"
	"sync"
	"sync/atomic"
	"time"

	"github.com/sarchlab/akita/v5/datarecording"

	"verif/harness/kit"
)

// ---- the case (plain data) ---------------------------------------------------

// c35Field is one struct field of a table's entry type.
type c35Field struct {
	Kind string `json:"kind"` // bool int int8 … uint64 float32 float64 string complex64 complex128, or (ignored only) slice ptr struct map
	Tag  string `json:"tag"`  // "" ignore unique index location
}

// c35Val is the value of one field, stored exactly (JSON cannot carry NaN,
// 64-bit integers as floats, or non-UTF-8 strings, hence bits and bytes).
type c35Val struct {
	I int64  `json:"i,omitempty"` // signed kinds
	U uint64 `json:"u,omitempty"` // unsigned kinds
	F uint64 `json:"f,omitempty"` // float64 bits (float32 values widened exactly); complex: real part
	G uint64 `json:"g,omitempty"` // complex: imaginary part bits
	S []byte `json:"s,omitempty"` // string bytes
	B bool   `json:"b,omitempty"`
}

type c35Table struct {
	Name   string     `json:"name"`
	Fields []c35Field `json:"fields"` // Fields[0] is the int64 row key
	Rows   [][]c35Val `json:"rows"`   // Rows[r][f]; Rows[r][0].I is unique within the table
}

// c35Op is one step of one goroutine.
type c35Op struct {
	Op    string `json:"op"` // create insert flush
	Table int    `json:"t,omitempty"`
	Row   int    `json:"r,omitempty"`
	Yield int    `json:"y,omitempty"` // runtime.Gosched() calls before the step
}

// c35Phase is a set of goroutines started together and joined before the next
// phase. A phase with one thread runs on the calling goroutine.
type c35Phase struct {
	Threads [][]c35Op `json:"threads"`
}

type c35Case struct {
	Batch  int        `json:"batch"`          // auto-flush threshold set through the verif hook (0: library default 100000)
	Open   string     `json:"open,omitempty"` // "" / "path": NewDataRecorder(path); "db": NewDataRecorderWithDB on a connection with PRAGMA synchronous=OFF, journal_mode=MEMORY (same writer; no fsync / journal file per commit)
	Procs  int        `json:"gomaxprocs,omitempty"`
	Tables []c35Table `json:"tables"`
	Phases []c35Phase `json:"phases"`
}

// ---- building the entry types -------------------------------------------------

var c35KindType = map[string]reflect.Type{
	"bool": reflect.TypeOf(false), "int": reflect.TypeOf(int(0)), "int8": reflect.TypeOf(int8(0)),
	"int16": reflect.TypeOf(int16(0)), "int32": reflect.TypeOf(int32(0)), "int64": reflect.TypeOf(int64(0)),
	"uint": reflect.TypeOf(uint(0)), "uint8": reflect.TypeOf(uint8(0)), "uint16": reflect.TypeOf(uint16(0)),
	"uint32": reflect.TypeOf(uint32(0)), "uint64": reflect.TypeOf(uint64(0)),
	"float32": reflect.TypeOf(float32(0)), "float64": reflect.TypeOf(float64(0)), "string": reflect.TypeOf(""),
	"complex64": reflect.TypeOf(complex64(0)), "complex128": reflect.TypeOf(complex128(0)),
	// only ever generated with the ignore tag:
	"slice": reflect.TypeOf([]int(nil)), "ptr": reflect.TypeOf((*int)(nil)),
	"struct": reflect.TypeOf(struct{ A int }{}), "map": reflect.TypeOf(map[string]int(nil)),
}

func c35FieldName(i int, f c35Field) string {
	if i == 0 {
		return "RowKey"
	}
	return fmt.Sprintf("F%d%s", i, strings.ToUpper(f.Kind[:1])+f.Kind[1:])
}

func c35StructType(tb c35Table) reflect.Type {
	fs := make([]reflect.StructField, len(tb.Fields))
	for i, f := range tb.Fields {
		sf := reflect.StructField{Name: c35FieldName(i, f), Type: c35KindType[f.Kind]}
		if f.Tag != "" {
			sf.Tag = reflect.StructTag(`akita_data:"` + f.Tag + `"`)
		}
		fs[i] = sf
	}
	return reflect.StructOf(fs)
}

func c35Entry(tp reflect.Type, tb c35Table, row []c35Val) any {
	v := reflect.New(tp).Elem()
	for i, f := range tb.Fields {
		fv := v.Field(i)
		x := row[i]
		switch f.Kind {
		case "bool":
			fv.SetBool(x.B)
		case "int", "int8", "int16", "int32", "int64":
			fv.SetInt(x.I)
		case "uint", "uint8", "uint16", "uint32", "uint64":
			fv.SetUint(x.U)
		case "float32", "float64":
			fv.SetFloat(math.Float64frombits(x.F))
		case "complex64", "complex128":
			fv.SetComplex(complex(math.Float64frombits(x.F), math.Float64frombits(x.G)))
		case "string":
			fv.SetString(string(x.S))
		case "slice":
			if x.B {
				fv.Set(reflect.ValueOf([]int{1, 2, 3}))
			}
		case "ptr":
			if x.B {
				n := 7
				fv.Set(reflect.ValueOf(&n))
			}
		case "map":
			if x.B {
				fv.Set(reflect.ValueOf(map[string]int{"a": 1}))
			}
		case "struct":
		}
	}
	return v.Interface()
}

// ---- execution ---------------------------------------------------------------------

// c35Fail is one judged failure (signature + message).
type c35Fail struct {
	Sig string `json:"sig"`
	Msg string `json:"msg"`
}

// c35Report is what an execution observed.
type c35Report struct {
	Fails          []c35Fail `json:"fails,omitempty"`
	Hang           string    `json:"hang,omitempty"`
	Inserted       int       `json:"inserted"`
	Flushes        int       `json:"flushes"`        // explicit Flush calls that returned
	ThresholdPoss  bool      `json:"threshold_poss"` // the batch size was reached by the number of buffered items at least once
	Overlap        int       `json:"overlap"`        // recorder calls that saw another goroutine inside a recorder call
	FlushOverlap   int       `json:"flush_overlap"`  // … where one of the two was an explicit Flush
	Interleaved    int       `json:"interleaved"`    // recorder calls of a goroutine that were not adjacent (in call order) to its previous call: another goroutine's call came in between
	Locations      int       `json:"locations"`      // rows of the location table
	TablesWithRows int       `json:"tables_with_rows"`
	Rejected       []string  `json:"rejected,omitempty"` // special classes the storage layer refused loudly
	Classes        []string  `json:"classes,omitempty"`
}

func (r *c35Report) fail(sig, format string, args ...any) {
	msg := fmt.Sprintf(format, args...)
	if len(msg) > 1500 {
		msg = msg[:1500] + "…"
	}
	r.Fails = append(r.Fails, c35Fail{Sig: sig, Msg: msg})
}

const c35JoinWait = 120 * time.Second

// c35Execute runs the case against a fresh recorder writing <dir>/db.sqlite3,
// closes it and verifies the file. special selects the judging of the
// "storage cannot carry it" classes (see TestC35Unrepresentable).
func c35Execute(c c35Case, dir string, special bool) c35Report {
	var rep c35Report
	if c.Procs > 0 {
		defer runtime.GOMAXPROCS(runtime.GOMAXPROCS(c.Procs))
	}

	path := filepath.Join(dir, "db")
	var rec datarecording.DataRecorder
	if c.Open == "db" {
		db, err := sql.Open("sqlite", "file:"+path+".sqlite3?_pragma=synchronous(0)&_pragma=journal_mode(memory)")
		if err != nil {
			rep.fail("harness-open", "sql.Open: %v", err)
			return rep
		}
		rec = datarecording.NewDataRecorderWithDB(db)
	} else if ok, sig, msg := kit.Guard(func() { rec = datarecording.NewDataRecorder(path) }); !ok {
		rep.fail(sig, "NewDataRecorder: %s", msg)
		return rep
	}
	if c.Batch > 0 {
		if !datarecording.VerifSetBatchSize(rec, c.Batch) {
			rep.fail("hook", "VerifSetBatchSize refused the recorder")
			return rep
		}
	}

	types := make([]reflect.Type, len(c.Tables))
	for i, tb := range c.Tables {
		types[i] = c35StructType(tb)
	}

	// inserted[t][r] is set once InsertData returned for that row.
	inserted := make([][]atomic.Bool, len(c.Tables))
	for i, tb := range c.Tables {
		inserted[i] = make([]atomic.Bool, len(tb.Rows))
	}
	created := make([]bool, len(c.Tables))

	var inCall, inFlush atomic.Int32
	var overlap, flushOverlap, flushes, nIns, seq, interleaved atomic.Int64
	var failMu sync.Mutex
	broken := atomic.Bool{}

	runThread := func(ops []c35Op, concurrent bool) {
		last := int64(-1)
		for _, op := range ops {
			if broken.Load() {
				return
			}
			for i := 0; i < op.Yield; i++ {
				runtime.Gosched()
			}
			if op.Op != "create" {
				tk := seq.Add(1)
				if concurrent && last >= 0 && tk != last+1 {
					interleaved.Add(1)
				}
				last = tk
			}
			var ok bool
			var sig, msg string
			switch op.Op {
			case "create":
				tb := c.Tables[op.Table]
				sample := reflect.New(types[op.Table]).Elem().Interface()
				ok, sig, msg = kit.Guard(func() { rec.CreateTable(tb.Name, sample) })
				created[op.Table] = ok
			case "insert":
				tb := c.Tables[op.Table]
				e := c35Entry(types[op.Table], tb, tb.Rows[op.Row])
				o1 := inCall.Add(1) > 1
				f1 := inFlush.Load() > 0
				ok, sig, msg = kit.Guard(func() { rec.InsertData(tb.Name, e) })
				f2 := inFlush.Load() > 0
				o2 := inCall.Add(-1) > 0
				if ok {
					inserted[op.Table][op.Row].Store(true)
					nIns.Add(1)
				}
				if o1 || o2 {
					overlap.Add(1)
				}
				if f1 || f2 {
					flushOverlap.Add(1)
				}
			case "flush":
				inFlush.Add(1)
				o1 := inCall.Add(1) > 1
				ok, sig, msg = kit.Guard(func() { rec.Flush() })
				o2 := inCall.Add(-1) > 0
				inFlush.Add(-1)
				if ok {
					flushes.Add(1)
				}
				if o1 || o2 {
					overlap.Add(1)
					flushOverlap.Add(1)
				}
			default:
				ok, sig, msg = false, "harness", "unknown op "+op.Op
			}
			if !ok {
				failMu.Lock()
				if special && strings.Contains(msg, "sql: converting argument") {
					rep.Rejected = append(rep.Rejected, firstLineOf(msg))
				} else {
					rep.fail(c35PanicSig(sig, msg, concurrent), "%s %v: %s", op.Op, op, msg)
				}
				failMu.Unlock()
				broken.Store(true)
				return
			}
		}
	}

	for pi, ph := range c.Phases {
		if broken.Load() {
			break
		}
		if len(ph.Threads) == 1 {
			runThread(ph.Threads[0], false)
			continue
		}
		var wg sync.WaitGroup
		start := make(chan struct{})
		for _, ops := range ph.Threads {
			wg.Add(1)
			go func(ops []c35Op) {
				defer wg.Done()
				<-start
				runThread(ops, true)
			}(ops)
		}
		close(start)
		done := make(chan struct{})
		go func() { wg.Wait(); close(done) }()
		select {
		case <-done:
		case <-time.After(c35JoinWait):
			rep.Hang = fmt.Sprintf("phase %d did not join", pi)
			return rep
		}
	}

	rep.Inserted = int(nIns.Load())
	rep.Flushes = int(flushes.Load())
	rep.Overlap = int(overlap.Load())
	rep.FlushOverlap = int(flushOverlap.Load())
	rep.Interleaved = int(interleaved.Load())

	type closeRes struct {
		ok       bool
		sig, msg string
	}
	closed := make(chan closeRes, 1)
	go func() {
		ok, sig, msg := kit.Guard(func() {
			if err := rec.Close(); err != nil {
				panic(err)
			}
		})
		closed <- closeRes{ok, sig, msg}
	}()
	select {
	case cr := <-closed:
		if !cr.ok {
			if special && strings.Contains(cr.msg, "sql: converting argument") {
				rep.Rejected = append(rep.Rejected, firstLineOf(cr.msg))
			} else if !broken.Load() {
				rep.fail(c35PanicSig(cr.sig, cr.msg, false), "Close: %s", cr.msg)
			}
		}
	case <-time.After(c35JoinWait):
		rep.Hang = "Close did not return"
		return rep
	}

	if len(rep.Rejected) > 0 {
		// The storage layer refused a value loudly; the recorder is unusable
		// from here on (it re-tries the refused entry on every flush). Nothing
		// further is asserted for the special classes.
		return rep
	}
	if len(rep.Fails) > 0 {
		return rep
	}

	c35Verify(c, types, created, inserted, path+".sqlite3", special, &rep)
	return rep
}

// c35PanicSig classifies a panic out of the recorder by its message so that
// the signature names the failure class rather than an address.
func c35PanicSig(sig, msg string, concurrent bool) string {
	m := firstLineOf(msg)
	cl := ""
	switch {
	case strings.Contains(m, "within a transaction"):
		cl = "nested-transaction"
	case strings.Contains(m, "no transaction is active"):
		cl = "commit-without-transaction"
	case strings.Contains(m, "database is locked") || strings.Contains(m, "SQLITE_BUSY"):
		cl = "database-locked"
	case strings.Contains(m, "UNIQUE constraint"):
		cl = "unique-constraint"
	case strings.Contains(m, "sql: converting argument"):
		cl = "unconvertible-argument"
	case strings.Contains(m, "concurrent map"):
		cl = "concurrent-map-access"
	}
	if cl == "" {
		return sig
	}
	return "panic:" + cl
}

// ---- verification of the closed database --------------------------------------------

func c35Verify(c c35Case, types []reflect.Type, created []bool, inserted [][]atomic.Bool, file string, special bool, rep *c35Report) {
	db, err := sql.Open("sqlite", file)
	if err != nil {
		rep.fail("readback-open", "open %s: %v", file, err)
		return
	}
	defer db.Close()

	// location table
	locByID := map[int64]string{}
	locByStr := map[string]int64{}
	needLoc := false
	for ti, tb := range c.Tables {
		if !created[ti] {
			continue
		}
		for _, f := range tb.Fields {
			if f.Tag == "location" {
				needLoc = true
			}
		}
	}
	if needLoc {
		rows, err := db.Query("SELECT ID, Locale FROM location")
		if err != nil {
			rep.fail("location-table-missing", "a table has a location field but the location table cannot be read: %v", err)
			return
		}
		for rows.Next() {
			var id, s any
			if err := rows.Scan(&id, &s); err != nil {
				rows.Close()
				rep.fail("readback-scan", "location: %v", err)
				return
			}
			idv, ok := id.(int64)
			if !ok {
				rows.Close()
				rep.fail("location-id-type", "location ID %v (%T) is not an integer", id, id)
				return
			}
			str := anyBytes(s)
			if str == nil {
				rows.Close()
				rep.fail("location-string-type", "location string of ID %d is %T", idv, s)
				return
			}
			if prev, dup := locByID[idv]; dup {
				rows.Close()
				rep.fail("location-id-duplicate", "location ID %d maps to both %q and %q", idv, prev, str)
				return
			}
			if prev, dup := locByStr[string(str)]; dup {
				rows.Close()
				rep.fail("location-string-duplicate", "location string %q has IDs %d and %d", str, prev, idv)
				return
			}
			locByID[idv] = string(str)
			locByStr[string(str)] = idv
		}
		rows.Close()
	}
	rep.Locations = len(locByID)

	for ti, tb := range c.Tables {
		if !created[ti] {
			continue
		}
		var wantCols []string
		var colField []int
		for fi, f := range tb.Fields {
			if f.Tag == "ignore" {
				continue
			}
			wantCols = append(wantCols, c35FieldName(fi, f))
			colField = append(colField, fi)
		}
		rows, err := db.Query("SELECT * FROM " + tb.Name)
		if err != nil {
			rep.fail("table-missing", "table %s: %v", tb.Name, err)
			return
		}
		cols, _ := rows.Columns()
		if strings.Join(cols, ",") != strings.Join(wantCols, ",") {
			rows.Close()
			rep.fail("columns", "table %s has columns %v, want %v", tb.Name, cols, wantCols)
			return
		}
		byKey := map[int64]int{}
		for ri, r := range tb.Rows {
			byKey[r[0].I] = ri
		}
		seen := map[int64]int{}
		nrows := 0
		for rows.Next() {
			vals := make([]any, len(cols))
			ptrs := make([]any, len(cols))
			for i := range vals {
				ptrs[i] = &vals[i]
			}
			if err := rows.Scan(ptrs...); err != nil {
				rows.Close()
				rep.fail("readback-scan", "table %s: %v", tb.Name, err)
				return
			}
			nrows++
			key, ok := vals[0].(int64)
			if !ok {
				rows.Close()
				rep.fail("key-changed", "table %s: key column holds %v (%T)", tb.Name, vals[0], vals[0])
				return
			}
			ri, known := byKey[key]
			if !known {
				rows.Close()
				rep.fail("phantom-row", "table %s: row with key %d was never inserted", tb.Name, key)
				return
			}
			seen[key]++
			if seen[key] > 1 {
				rows.Close()
				rep.fail(c35CountSig("duplicate-entry", c), "table %s: key %d is present %d times", tb.Name, key, seen[key])
				return
			}
			if !inserted[ti][ri].Load() {
				rows.Close()
				rep.fail("phantom-row", "table %s: key %d is in the database but its InsertData never returned", tb.Name, key)
				return
			}
			for ci, fi := range colField {
				f := tb.Fields[fi]
				want := tb.Rows[ri][fi]
				got := vals[ci]
				if f.Tag == "location" {
					id, ok := got.(int64)
					if !ok {
						rows.Close()
						rep.fail("location-ref-type", "table %s key %d field %s: location reference is %v (%T)", tb.Name, key, cols[ci], got, got)
						return
					}
					str, ok := locByID[id]
					if !ok {
						rows.Close()
						rep.fail(c35CountSig("location-dangling", c), "table %s key %d field %s: location ID %d is not in the location table (%d locations)", tb.Name, key, cols[ci], id, len(locByID))
						return
					}
					if str != string(want.S) {
						rows.Close()
						rep.fail("location-wrong", "table %s key %d field %s: location ID %d resolves to %q, inserted %q", tb.Name, key, cols[ci], id, str, want.S)
						return
					}
					continue
				}
				if why := c35ValueDiff(f, want, got, special); why != "" {
					rows.Close()
					rep.fail("value-changed:"+f.Kind, "table %s key %d field %s (%s): %s", tb.Name, key, cols[ci], f.Kind, why)
					return
				}
			}
		}
		if err := rows.Err(); err != nil {
			rows.Close()
			rep.fail("readback-scan", "table %s: %v", tb.Name, err)
			return
		}
		rows.Close()
		if nrows > 0 {
			rep.TablesWithRows++
		}
		for ri := range tb.Rows {
			if inserted[ti][ri].Load() && seen[tb.Rows[ri][0].I] == 0 {
				miss := 0
				for rj := range tb.Rows {
					if inserted[ti][rj].Load() && seen[tb.Rows[rj][0].I] == 0 {
						miss++
					}
				}
				rep.fail(c35CountSig("lost-entry", c), "table %s: %d of %d inserted entries are missing after Close (first: key %d)", tb.Name, miss, len(tb.Rows), tb.Rows[ri][0].I)
				return
			}
		}
	}
}

// c35CountSig names count failures by the class of schedule that produced them.
func c35CountSig(what string, c c35Case) string {
	conc := false
	for _, ph := range c.Phases {
		if len(ph.Threads) > 1 {
			conc = true
		}
	}
	if conc {
		return what + ":concurrent"
	}
	return what + ":sequential"
}

func anyBytes(v any) []byte {
	switch x := v.(type) {
	case string:
		return []byte(x)
	case []byte:
		if x == nil {
			return []byte{}
		}
		return x
	}
	return nil
}

// c35ValueDiff compares a stored column value with the inserted field value.
// It accepts every faithful representation (an integral float read back as an
// integer, a bool as 0/1, text as string or bytes) and nothing else.
func c35ValueDiff(f c35Field, want c35Val, got any, special bool) string {
	switch f.Kind {
	case "bool":
		switch g := got.(type) {
		case int64:
			if (g == 1) == want.B && (g == 0 || g == 1) {
				return ""
			}
		case bool:
			if g == want.B {
				return ""
			}
		}
		return fmt.Sprintf("inserted %v, stored %v (%T)", want.B, got, got)
	case "int", "int8", "int16", "int32", "int64":
		if g, ok := got.(int64); ok && g == want.I {
			return ""
		}
		return fmt.Sprintf("inserted %d, stored %v (%T)", want.I, got, got)
	case "uint", "uint8", "uint16", "uint32", "uint64":
		if g, ok := got.(int64); ok && uint64(g) == want.U && (g >= 0 || special) {
			return ""
		}
		return fmt.Sprintf("inserted %d, stored %v (%T)", want.U, got, got)
	case "float32", "float64":
		w := math.Float64frombits(want.F)
		switch g := got.(type) {
		case float64:
			if g == w || (math.IsNaN(g) && math.IsNaN(w)) {
				return ""
			}
		case int64:
			if float64(g) == w && int64(float64(g)) == g {
				return ""
			}
		case nil:
			if math.IsNaN(w) {
				return "" // SQLite has no NaN; it stores NULL
			}
		}
		return fmt.Sprintf("inserted %v, stored %v (%T)", w, got, got)
	case "string":
		g := anyBytes(got)
		if g != nil && bytes.Equal(g, want.S) {
			return ""
		}
		gs := fmt.Sprintf("%q", got)
		ws := fmt.Sprintf("%q", want.S)
		if len(gs) > 200 {
			gs = gs[:200] + "…"
		}
		if len(ws) > 200 {
			ws = ws[:200] + "…"
		}
		return fmt.Sprintf("inserted %s (%d bytes), stored %s (%T, %d bytes)", ws, len(want.S), gs, got, len(g))
	}
	return fmt.Sprintf("kind %s stored as %v (%T)", f.Kind, got, got)
}

// ---- child side ------------------------------------------------------------------------------

// c35ServeCase runs one case file in this (child) process and writes the
// report. It returns true when the process must not be reused (wedged
// goroutines were left behind).
func c35ServeCase(cf, of string) bool {
	var rep c35Report
	b, err := os.ReadFile(cf)
	var c c35Case
	if err == nil {
		err = json.Unmarshal(b, &c)
	}
	if err != nil {
		rep.Hang = "harness: " + err.Error()
	} else {
		rep = c35Execute(c, filepath.Dir(cf), false)
	}
	if rep.Hang != "" {
		buf := make([]byte, 1<<20)
		buf = buf[:runtime.Stack(buf, true)]
		_ = os.WriteFile(cf+".goroutines", buf, 0o644)
	}
	ob, _ := json.Marshal(rep)
	_ = os.WriteFile(of, ob, 0o644)
	return rep.Hang != ""
}
