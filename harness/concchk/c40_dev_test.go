package concchk

import (
	"fmt"
	"net/http"
	"os"
	"sync/atomic"
	"testing"
	"time"
)

// dev: does a /api/tick that arrives while Run() is starting race with the run loop?
func TestDevC40TickAtRunStart(t *testing.T) {
	mode := os.Getenv("C40DEV")
	if mode == "" {
		t.Skip()
	}
	for i := 0; i < 6; i++ {
		c := c40ConcPresets[0]
		c.SlowEvery = 0
		dir := t.TempDir()
		sim, err := c40Build(c, "mon", dir)
		if err != nil {
			t.Fatal(err)
		}
		var stop atomic.Bool
		done := make(chan int)
		go func() {
			n := 0
			if mode == "after" {
				time.Sleep(30 * time.Millisecond)
			}
			for !stop.Load() && n < 40 {
				rsp, err := http.Post(fmt.Sprintf("http://127.0.0.1:%d/api/tick/Cache", sim.port), "", nil)
				if err == nil {
					rsp.Body.Close()
				}
				n++
			}
			done <- n
		}()
		if mode == "before" {
			time.Sleep(time.Duration(i) * 300 * time.Microsecond)
		}
		o, _, _, hang := sim.runLeg(c, nil, nil)
		stop.Store(true)
		n := <-done
		fmt.Printf("attempt %d: ticks=%d finished=%v hang=%v reads=%d\n", i, n, o.Finished, hang, o.Reads)
		sim.sim.Terminate()
	}
}
