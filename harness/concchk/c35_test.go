package concchk

import (
	"encoding/json"
	"fmt"
	"math"
	"os"
	"path/filepath"
	"sort"
	"strings"
	"testing"
	"time"

	"pgregory.net/rapid"

	"verif/harness/kit"
)

// ---- generators ------------------------------------------------------------------------

var c35PlainKinds = []string{"bool", "int", "int8", "int16", "int32", "int64", "uint", "uint8", "uint16", "uint32", "uint64", "float32", "float64", "string", "string"}
var c35UniqueKinds = []string{"int", "int32", "int64", "uint", "uint32", "uint64", "string"}
var c35IgnoredOnlyKinds = []string{"slice", "ptr", "struct", "map", "complex128"}

func genC35Table(rt *rapid.T, idx int) c35Table {
	tb := c35Table{Name: fmt.Sprintf("t%d%s", idx, rapid.SampledFrom([]string{"", "_data", "_Trace", "_x_y", "tbl"}).Draw(rt, "suffix"))}
	keyTag := rapid.SampledFrom([]string{"", "unique", "index"}).Draw(rt, "keytag")
	tb.Fields = append(tb.Fields, c35Field{Kind: "int64", Tag: keyTag})
	n := rapid.IntRange(0, 7).Draw(rt, "nfields")
	for i := 0; i < n; i++ {
		var f c35Field
		switch rapid.IntRange(0, 9).Draw(rt, "fclass") {
		case 0:
			f = c35Field{Kind: rapid.SampledFrom(append(append([]string{}, c35PlainKinds...), c35IgnoredOnlyKinds...)).Draw(rt, "kind"), Tag: "ignore"}
		case 1:
			f = c35Field{Kind: rapid.SampledFrom(c35UniqueKinds).Draw(rt, "kind"), Tag: "unique"}
		case 2:
			f = c35Field{Kind: rapid.SampledFrom(c35PlainKinds).Draw(rt, "kind"), Tag: "index"}
		case 3, 4:
			f = c35Field{Kind: "string", Tag: "location"}
		default:
			f = c35Field{Kind: rapid.SampledFrom(c35PlainKinds).Draw(rt, "kind")}
		}
		tb.Fields = append(tb.Fields, f)
	}
	return tb
}

var c35StringAtoms = []string{
	"", "a", "'", "''", "\"", "`", "\x00", "a\x00b", "\x00\x00", "é", "日本語", "😀", " ", "\ufeff", "%", "_", "--", ";", "\\", "\n", "\r\n", "\t",
	"NULL", "null", "1", "-1", "1e5", " 1 ", "0x10", "true", "Cache.L1", "GPU[0].SA[1].L1V[2]", "); DROP TABLE t0; --", "?", "$1", ":a", "@b",
}

func genC35String(rt *rapid.T, allowLong bool) []byte {
	switch rapid.IntRange(0, 9).Draw(rt, "sclass") {
	case 0:
		return []byte(rapid.SampledFrom(c35StringAtoms).Draw(rt, "atom"))
	case 1, 2, 3:
		n := rapid.IntRange(1, 4).Draw(rt, "natoms")
		var b []byte
		for i := 0; i < n; i++ {
			b = append(b, rapid.SampledFrom(c35StringAtoms).Draw(rt, "atom")...)
		}
		return b
	case 4:
		if allowLong {
			n := rapid.SampledFrom([]int{255, 256, 4095, 4096, 65535, 65536, 70000, 200000}).Draw(rt, "len")
			unit := rapid.SampledFrom([]string{"x", "é", "'", "ab\x00"}).Draw(rt, "unit")
			return []byte(strings.Repeat(unit, n/len(unit)+1)[:n/len(unit)*len(unit)])
		}
		fallthrough
	case 5:
		return []byte(rapid.StringN(0, 12, -1).Draw(rt, "str"))
	default:
		return []byte(rapid.SampledFrom([]string{"A", "B", "C", "Cache.L1", "Cache.L2", "DRAM", ""}).Draw(rt, "common"))
	}
}

func intRange(kind string) (lo, hi int64) {
	switch kind {
	case "int8":
		return math.MinInt8, math.MaxInt8
	case "int16":
		return math.MinInt16, math.MaxInt16
	case "int32":
		return math.MinInt32, math.MaxInt32
	}
	return math.MinInt64, math.MaxInt64
}

func uintMax(kind string) uint64 {
	switch kind {
	case "uint8":
		return math.MaxUint8
	case "uint16":
		return math.MaxUint16
	case "uint32":
		return math.MaxUint32
	}
	return math.MaxInt64 // the main classes stay below 2^63 (see TestC35Unrepresentable)
}

func genC35Float(rt *rapid.T, is32 bool) uint64 {
	var v float64
	switch rapid.IntRange(0, 4).Draw(rt, "flclass") {
	case 0:
		if is32 {
			v = float64(rapid.SampledFrom([]float32{0, float32(math.Copysign(0, -1)), 1, -1, 0.1, math.MaxFloat32, -math.MaxFloat32, math.SmallestNonzeroFloat32, 16777216, 16777217, 1e10}).Draw(rt, "f32"))
		} else {
			v = rapid.SampledFrom([]float64{0, math.Copysign(0, -1), 1, -1, 0.1, 0.2 + 0.1, math.MaxFloat64, -math.MaxFloat64, math.SmallestNonzeroFloat64, 9007199254740992, 9007199254740993, 1e300, -1e-300, 9223372036854775807, -9223372036854775808, 1e19, 4.2e18}).Draw(rt, "f64")
		}
	case 1:
		v = float64(rapid.Int64Range(-1000, 1000).Draw(rt, "fint"))
	default:
		if is32 {
			f := rapid.Float32().Draw(rt, "f32")
			v = float64(f)
		} else {
			v = rapid.Float64().Draw(rt, "f64")
		}
	}
	if math.IsNaN(v) || math.IsInf(v, 0) {
		v = 0
	}
	return math.Float64bits(v)
}

// genC35Row draws one row. ordinal is the row's index in its table; keyBase
// and the per-field masks make the key and every unique-tagged field injective
// in ordinal (the caller of a recorder promises uniqueness by tagging a field
// unique: Close builds a UNIQUE index over it).
func genC35Row(rt *rapid.T, tb c35Table, ordinal int, keyBase int64, masks []uint64, allowLong bool) []c35Val {
	row := make([]c35Val, len(tb.Fields))
	row[0].I = keyBase + int64(ordinal)
	for i := 1; i < len(tb.Fields); i++ {
		f := tb.Fields[i]
		if f.Tag == "unique" {
			switch f.Kind {
			case "int", "int64":
				row[i].I = int64(uint64(ordinal) ^ masks[i])
			case "int32":
				row[i].I = int64(int32(uint32(ordinal) ^ uint32(masks[i])))
			case "uint", "uint64":
				row[i].U = (uint64(ordinal) ^ masks[i]) & math.MaxInt64
			case "uint32":
				row[i].U = uint64(uint32(ordinal) ^ uint32(masks[i]))
			case "string":
				row[i].S = append([]byte(fmt.Sprintf("%d|", ordinal)), genC35String(rt, false)...)
			}
			continue
		}
		switch f.Kind {
		case "bool":
			row[i].B = rapid.Bool().Draw(rt, "b")
		case "int", "int8", "int16", "int32", "int64":
			lo, hi := intRange(f.Kind)
			switch rapid.IntRange(0, 3).Draw(rt, "iclass") {
			case 0:
				row[i].I = rapid.SampledFrom([]int64{lo, hi, lo + 1, hi - 1, 0, 1, -1}).Draw(rt, "iext")
			case 1:
				row[i].I = rapid.Int64Range(-3, 3).Draw(rt, "ismall")
			default:
				row[i].I = rapid.Int64Range(lo, hi).Draw(rt, "i")
			}
		case "uint", "uint8", "uint16", "uint32", "uint64":
			hi := uintMax(f.Kind)
			switch rapid.IntRange(0, 2).Draw(rt, "uclass") {
			case 0:
				row[i].U = rapid.SampledFrom([]uint64{0, 1, hi, hi - 1, hi / 2, hi/2 + 1}).Draw(rt, "uext")
			default:
				row[i].U = rapid.Uint64Range(0, hi).Draw(rt, "u")
			}
		case "float32":
			row[i].F = genC35Float(rt, true)
		case "float64":
			row[i].F = genC35Float(rt, false)
		case "string":
			if f.Tag == "location" {
				// few distinct locations, so interning is exercised
				if rapid.IntRange(0, 3).Draw(rt, "locclass") == 0 {
					row[i].S = genC35String(rt, false)
				} else {
					row[i].S = []byte(rapid.SampledFrom([]string{"A", "B", "GPU[0].L1", "GPU[0].L2", "", "A ", "a", "'A'", "A\x00"}).Draw(rt, "loc"))
				}
			} else {
				row[i].S = genC35String(rt, allowLong)
			}
		case "complex128":
			row[i].F, row[i].G = math.Float64bits(1.5), math.Float64bits(-2)
		default: // ignored non-primitive kinds
			row[i].B = rapid.Bool().Draw(rt, "set")
		}
	}
	return row
}

type c35Gen struct {
	rt       *rapid.T
	c        *c35Case
	keyBase  []int64
	masks    [][]uint64
	longLeft int
}

func newC35Gen(rt *rapid.T, nTables int) *c35Gen {
	g := &c35Gen{rt: rt, c: &c35Case{}, longLeft: 2}
	for i := 0; i < nTables; i++ {
		tb := genC35Table(rt, i)
		g.c.Tables = append(g.c.Tables, tb)
		g.keyBase = append(g.keyBase, rapid.SampledFrom([]int64{0, 1, math.MinInt64, math.MaxInt64 - 100000, -50, 1 << 53, 1<<31 - 10}).Draw(rt, "keybase"))
		m := make([]uint64, len(tb.Fields))
		for j := range m {
			m[j] = rapid.Uint64().Draw(rt, "mask")
		}
		g.masks = append(g.masks, m)
	}
	return g
}

// insert appends a new row to table t and returns the op inserting it.
func (g *c35Gen) insert(t int) c35Op {
	tb := &g.c.Tables[t]
	row := genC35Row(g.rt, *tb, len(tb.Rows), g.keyBase[t], g.masks[t], g.longLeft > 0)
	for _, v := range row {
		if len(v.S) > 10000 {
			g.longLeft--
		}
	}
	tb.Rows = append(tb.Rows, row)
	return c35Op{Op: "insert", Table: t, Row: len(tb.Rows) - 1}
}

// genC35Open: most cases use a caller-supplied connection without fsync
// (SQLite-on-disk commits dominate the run time otherwise); the rest go
// through NewDataRecorder(path) as the simulation builder does.
func genC35Open(rt *rapid.T) string {
	if rapid.IntRange(0, 4).Draw(rt, "open") == 0 {
		return "path"
	}
	return "db"
}

func genC35Batch(rt *rapid.T) int {
	if rapid.IntRange(0, 7).Draw(rt, "batchclass") == 0 {
		return 0 // library default (100000): no automatic flush at these sizes
	}
	return rapid.IntRange(1, 50).Draw(rt, "batch")
}

func genC35Sequential(rt *rapid.T) c35Case {
	g := newC35Gen(rt, rapid.IntRange(1, 4).Draw(rt, "ntables"))
	g.c.Batch = genC35Batch(rt)
	g.c.Open = genC35Open(rt)
	ops := []c35Op{{Op: "create", Table: 0}}
	createdN := 1
	n := rapid.IntRange(1, 80).Draw(rt, "nops")
	for i := 0; i < n; i++ {
		k := rapid.IntRange(0, 9).Draw(rt, "op")
		switch {
		case k == 0 && createdN < len(g.c.Tables):
			ops = append(ops, c35Op{Op: "create", Table: createdN})
			createdN++
		case k <= 2:
			ops = append(ops, c35Op{Op: "flush"})
		default:
			ops = append(ops, g.insert(rapid.IntRange(0, createdN-1).Draw(rt, "table")))
		}
	}
	g.c.Tables = g.c.Tables[:createdN]
	g.c.Phases = []c35Phase{{Threads: [][]c35Op{ops}}}
	return *g.c
}

// genC35Concurrent draws: a single-threaded prologue creating the tables, then
// 1–3 concurrent phases (2–8 goroutines inserting disjoint rows, with explicit
// flushes mixed in) optionally separated by single-threaded phases.
func genC35Concurrent(rt *rapid.T) c35Case {
	g := newC35Gen(rt, rapid.IntRange(1, 3).Draw(rt, "ntables"))
	g.c.Batch = genC35Batch(rt)
	g.c.Open = genC35Open(rt)
	g.c.Procs = rapid.SampledFrom([]int{1, 2, 4, 8}).Draw(rt, "procs")
	nt := len(g.c.Tables)
	pro := []c35Op{}
	for i := 0; i < nt; i++ {
		pro = append(pro, c35Op{Op: "create", Table: i})
	}
	for i, n := 0, rapid.IntRange(0, 5).Draw(rt, "npro"); i < n; i++ {
		pro = append(pro, g.insert(rapid.IntRange(0, nt-1).Draw(rt, "table")))
	}
	g.c.Phases = append(g.c.Phases, c35Phase{Threads: [][]c35Op{pro}})
	np := rapid.IntRange(1, 3).Draw(rt, "nphases")
	for p := 0; p < np; p++ {
		ng := rapid.IntRange(2, 8).Draw(rt, "goroutines")
		flushy := rapid.IntRange(0, 2).Draw(rt, "flushy") // 0: inserts only (threshold flushes only)
		var ph c35Phase
		for gi := 0; gi < ng; gi++ {
			var ops []c35Op
			for i, n := 0, rapid.IntRange(1, 40).Draw(rt, "nops"); i < n; i++ {
				var op c35Op
				if flushy > 0 && rapid.IntRange(0, 9).Draw(rt, "op") < flushy {
					op = c35Op{Op: "flush"}
				} else {
					op = g.insert(rapid.IntRange(0, nt-1).Draw(rt, "table"))
				}
				op.Yield = rapid.SampledFrom([]int{0, 0, 0, 1, 2, 5}).Draw(rt, "yield")
				ops = append(ops, op)
			}
			ph.Threads = append(ph.Threads, ops)
		}
		g.c.Phases = append(g.c.Phases, ph)
		if rapid.Bool().Draw(rt, "interlude") {
			var ops []c35Op
			for i, n := 0, rapid.IntRange(1, 4).Draw(rt, "nint"); i < n; i++ {
				if rapid.Bool().Draw(rt, "iflush") {
					ops = append(ops, c35Op{Op: "flush"})
				} else {
					ops = append(ops, g.insert(rapid.IntRange(0, nt-1).Draw(rt, "table")))
				}
			}
			g.c.Phases = append(g.c.Phases, c35Phase{Threads: [][]c35Op{ops}})
		}
	}
	return *g.c
}

// c35Steer rewrites a concurrent case so that no flush (explicit or threshold)
// can run while another goroutine is inside the recorder: explicit flushes of
// concurrent phases move to a single-threaded phase right after, and the batch
// size is left at the library default. It reports whether anything changed.
func c35Steer(c *c35Case) bool {
	changed := false
	if c.Batch != 0 {
		c.Batch = 0
		changed = true
	}
	var out []c35Phase
	for _, ph := range c.Phases {
		if len(ph.Threads) == 1 {
			out = append(out, ph)
			continue
		}
		moved := 0
		var nph c35Phase
		for _, ops := range ph.Threads {
			var keep []c35Op
			for _, op := range ops {
				if op.Op == "flush" {
					moved++
					continue
				}
				keep = append(keep, op)
			}
			nph.Threads = append(nph.Threads, keep)
		}
		out = append(out, nph)
		if moved > 0 {
			changed = true
			out = append(out, c35Phase{Threads: [][]c35Op{{{Op: "flush"}}}})
		}
	}
	c.Phases = out
	return changed
}

// ---- classification --------------------------------------------------------------------

// c35Model replays the case's flush points for a single-threaded schedule and
// returns how many threshold flushes and how many effective explicit flushes
// the recorder performs (entryCount semantics of InsertData/Flush).
func c35Model(c c35Case) (threshold, explicit int) {
	batch := c.Batch
	if batch == 0 {
		batch = 100000
	}
	count := 0
	known := map[string]bool{}
	var pending [][]byte
	flush := func() {
		for _, s := range pending {
			known[string(s)] = true
		}
		pending = nil
		count = 0
	}
	for _, ph := range c.Phases {
		if len(ph.Threads) != 1 {
			return -1, -1
		}
		for _, op := range ph.Threads[0] {
			switch op.Op {
			case "insert":
				count++
				tb := c.Tables[op.Table]
				for fi, f := range tb.Fields {
					if f.Tag == "location" {
						pending = append(pending, tb.Rows[op.Row][fi].S)
					}
				}
				if count >= batch {
					threshold++
					flush()
				}
			case "flush":
				if count > 0 {
					explicit++
					flush()
				}
			}
		}
	}
	return
}

func c35Classes(c c35Case, rep c35Report) []string {
	set := map[string]bool{}
	if len(c.Tables) >= 2 {
		set["tables>=2"] = true
	}
	for _, tb := range c.Tables {
		for fi, f := range tb.Fields {
			if fi > 0 && f.Tag != "" {
				set["tag:"+f.Tag] = true
			}
			if f.Tag == "ignore" {
				switch f.Kind {
				case "slice", "ptr", "struct", "map", "complex128":
					set["ignored-nonprimitive"] = true
				}
			}
			for _, r := range tb.Rows {
				v := r[fi]
				switch {
				case f.Kind == "string" && len(v.S) > 10000:
					set["string:long"] = true
				case f.Kind == "string" && strings.ContainsRune(string(v.S), 0):
					set["string:nul"] = true
				case f.Kind == "string" && strings.ContainsAny(string(v.S), "'\""):
					set["string:quote"] = true
				}
				if f.Kind == "string" {
					for _, b := range v.S {
						if b >= 0x80 {
							set["string:non-ascii"] = true
							break
						}
					}
				}
				if strings.HasPrefix(f.Kind, "int") {
					lo, hi := intRange(f.Kind)
					if v.I == lo || v.I == hi {
						set["int:extreme"] = true
					}
				}
				if strings.HasPrefix(f.Kind, "uint") && v.U == uintMax(f.Kind) {
					set["uint:extreme"] = true
				}
			}
		}
	}
	if rep.Locations >= 2 {
		set["locations>=2"] = true
	}
	if c.Open == "db" {
		set["open:with-db"] = true
	} else {
		set["open:path"] = true
	}
	if c.Batch == 0 {
		set["batch:default"] = true
	} else if c.Batch == 1 {
		set["batch:1"] = true
	}
	var out []string
	for k := range set {
		out = append(out, k)
	}
	return out
}

// ---- sub-check 1: single goroutine, in process ---------------------------------------------

const c35SeqRule = "single goroutine, in-process. 1–4 tables whose entry types are built with reflect.StructOf: an int64 key (plain/unique/index) plus 0–7 fields over " +
	"bool, int/uint 8–64, float32/64, string with akita_data tags none/ignore/unique/index/location (location only on strings; unique fields get values injective in the row; " +
	"ignored fields may be of non-primitive kinds). Values: per-kind extremes and uniform values, finite floats incl. ±0/denormals/2^53±1, strings assembled from quotes, NUL, " +
	"multi-byte runes, SQL-looking fragments, numeric-looking text, up to 200 kB. One op list of ≤ 80 create/insert/flush steps, batch size 1–50 through the verif hook " +
	"(or the library default). After Close the file is read with database/sql: columns = non-ignored fields in order; per key exactly one row and no phantom rows; every stored " +
	"value equal to the inserted one (any faithful representation accepted); location IDs and strings bijective; each row's location ID resolves to its string. " +
	"uint64 ≥ 2^63, NaN/±Inf, invalid UTF-8 and complex kinds are not generated here (see sub-check unrepresentable). " +
	"Non-trivial: ≥ 2 rows inserted and the rows were written by ≥ 2 separate flushes (explicit or threshold) or a flush happened before a later table was created."

func c35WorkRoot(t *testing.T) string { return workDir(t) }

func TestC35Sequential(t *testing.T) {
	s := kit.Begin(t, "C35", "sequential", c35SeqRule)
	defer s.End()
	s.Assume("trusts database/sql + the repo's SQLite driver to read back what the file holds")
	root := c35WorkRoot(t)

	run := func(f kit.Failer, c c35Case) {
		dir := newCaseDir(t, root, "c35s")
		defer os.RemoveAll(dir)
		rep := c35Execute(c, dir, false)
		if rep.Hang != "" {
			s.Note(c, false, "hang-inconclusive")
			return
		}
		for _, fl := range rep.Fails {
			s.Fail(f, c, fl.Sig, "%s", fl.Msg)
			return
		}
		th, ex := c35Model(c)
		cl := c35Classes(c, rep)
		if th > 0 {
			cl = append(cl, "threshold-flush")
		}
		if ex > 0 {
			cl = append(cl, "explicit-flush")
		}
		late := false
		seenFlushOrInsert := false
		for _, op := range c.Phases[0].Threads[0] {
			if op.Op == "create" && seenFlushOrInsert {
				late = true
			}
			if op.Op != "create" {
				seenFlushOrInsert = true
			}
		}
		if late {
			cl = append(cl, "late-create")
		}
		// +1: Close flushes what is left
		s.Note(c, rep.Inserted >= 2 && (th+ex >= 1), cl...)
	}

	var c c35Case
	if ok, err := kit.LoadReplay("C35", "sequential", &c); ok {
		if err != nil {
			t.Fatal(err)
		}
		run(t, c)
		return
	} else if kit.ReplayMode() {
		t.Skip()
	}

	kit.SetChecks(400, 2000)
	rapid.Check(t, func(rt *rapid.T) { c := genC35Sequential(rt); run(rt, c) })
}

// ---- sub-check 2: several goroutines, child process under the race detector ---------------

const c35FlushRaceSig = "race:recorder.Flush|recorder.InsertData"

const c35ConcRule = "each case runs in a child process of the -race test binary. Tables/values as in sub-check sequential (1–3 tables). A single-threaded prologue creates the " +
	"tables; then 1–3 concurrent phases of 2–8 goroutines, each inserting its own (disjoint) rows with drawn runtime.Gosched perturbation, GOMAXPROCS 1/2/4/8, batch size 1–50 or " +
	"default; phases either insert only (flushes come from the threshold alone) or mix in explicit Flush calls; optional single-threaded interludes. Oracle, sound for every " +
	"interleaving: no recorder call panics; after the final Close every entry whose InsertData returned is in the file exactly once with equal values, locations bijective and " +
	"resolvable; and the race detector reports nothing (a report is a violation whose signature names the two recorder entry points involved). " +
	"While a listed known finding says Flush is not synchronised with InsertData, cases are steered by construction so that no flush can overlap another goroutine's " +
	"recorder call (explicit flushes move to a single-threaded phase after the concurrent one, batch size stays at the default) and counted as excluded. " +
	"Non-trivial: ≥ 2 entries inserted and the recorder calls of different goroutines were observed to interleave (a goroutine's consecutive calls were separated by another goroutine's call in the global call order) or to overlap in time (atomic in-call counter)."

// c35RaceSig builds the signature of a race report: the recorder entry point
// on each of the two stacks (Flush if the stack passes through Flush — also
// via a threshold flush inside InsertData or via Close).
func c35RaceSig(r raceReport) string {
	side := func(st []raceFrame) string {
		if hasFrame(st, "datarecording.(*sqliteWriter).Flush") {
			return "recorder.Flush"
		}
		for _, m := range []string{"InsertData", "CreateTable", "Close", "ListTables"} {
			if hasFrame(st, "datarecording.(*sqliteWriter)."+m) {
				return "recorder." + m
			}
		}
		return topRepo(st)
	}
	a, b := side(r.Stacks[0]), side(r.Stacks[1])
	if a > b {
		a, b = b, a
	}
	return "race:" + a + "|" + b
}

// c35ConsequenceSig: in a case where a flush can overlap another goroutine's
// recorder call, every non-race failure is named by that input class (the
// symptom — lost rows, duplicated rows, dangling locations, nested BEGIN,
// SQLITE_BUSY … — depends on the schedule and is kept in the message).
func c35ConsequenceSig(c c35Case, sig string) string {
	if !c35HasConcurrentFlushPotential(c) {
		return sig
	}
	if strings.HasPrefix(sig, "panic:") || strings.HasPrefix(sig, "fatal:") {
		return "overlapping-flush:panic"
	}
	return "overlapping-flush:content"
}

type c35ChildResult struct {
	Rep       c35Report
	Races     []raceReport
	Inconcl   string // non-empty: no verdict (hang, child died)
	ChildTime time.Duration
}

func c35RunChild(t *testing.T, pool *childPool, root string, c c35Case, fresh bool) c35ChildResult {
	var res c35ChildResult
	dir := newCaseDir(t, root, "c35c")
	defer os.RemoveAll(dir)
	cf := filepath.Join(dir, "case.json")
	of := filepath.Join(dir, "out.json")
	b, _ := json.Marshal(c)
	if err := os.WriteFile(cf, b, 0o644); err != nil {
		t.Fatalf("write case: %v", err)
	}
	t0 := time.Now()
	cr, err := pool.Run("C35", cf, of, 6*time.Minute, fresh)
	res.ChildTime = time.Since(t0)
	if err != nil {
		res.Inconcl = "child could not be started: " + err.Error()
		return res
	}
	res.Races = cr.Races
	ob, rerr := os.ReadFile(of)
	if i := strings.Index(cr.Stderr, "fatal error: "); i >= 0 && rerr != nil && !cr.TimedOut {
		// the Go runtime killed the child (e.g. "concurrent map writes"): a
		// crash of the code under test on a legitimate schedule
		line := firstLineOf(cr.Stderr[i:])
		res.Rep.Fails = append(res.Rep.Fails, c35Fail{Sig: "fatal:" + strings.ReplaceAll(strings.TrimPrefix(line, "fatal error: "), " ", "-"), Msg: tail(cr.Stderr[i:], 3000)})
		return res
	}
	if cr.TimedOut || rerr != nil {
		res.Inconcl = fmt.Sprintf("child gave no report (timeout=%v died=%v): %s", cr.TimedOut, cr.Died, tail(cr.Stderr, 6000))
		saveInconclusive("C35", res.Inconcl)
		return res
	}
	if err := json.Unmarshal(ob, &res.Rep); err != nil {
		res.Inconcl = "bad child report: " + err.Error()
		return res
	}
	if res.Rep.Hang != "" {
		res.Inconcl = "hang: " + res.Rep.Hang
		if g, err := os.ReadFile(cf + ".goroutines"); err == nil {
			saveInconclusive("C35", res.Inconcl+"\n"+string(g))
		}
	}
	return res
}

func c35HasConcurrentFlushPotential(c c35Case) bool {
	for _, ph := range c.Phases {
		if len(ph.Threads) < 2 {
			continue
		}
		if c.Batch != 0 {
			return true
		}
		for _, ops := range ph.Threads {
			for _, op := range ops {
				if op.Op == "flush" {
					return true
				}
			}
		}
	}
	return false
}

func TestC35Concurrent(t *testing.T) {
	s := kit.Begin(t, "C35", "concurrent", c35ConcRule)
	defer s.End()
	s.Assume("interleavings: only the schedules the Go runtime produced under the drawn GOMAXPROCS/Gosched perturbation were seen; the race detector is precise only for executed accesses")
	if !raceEnabled {
		t.Fatalf("this sub-check needs the race detector: build with -race")
	}
	root := c35WorkRoot(t)
	pool := newChildPool(root)
	defer pool.Close()
	defer func() { s.Extra("child_processes_started", pool.Started) }()
	_, steer := s.IsKnown(c35FlushRaceSig)
	s.Extra("steered_away_from_flush_overlap", steer)

	run := func(f kit.Failer, c c35Case) {
		res := c35RunChild(t, pool, root, c, false)
		if res.Inconcl != "" {
			s.AddExtra("inconclusive_runs", 1)
			s.Note(c, false, "inconclusive")
			return
		}
		s.AddExtra("child_ms_total", int(res.ChildTime.Milliseconds()))
		// Report the race first: it is the root cause; a lost entry is its
		// consequence.
		for _, r := range res.Races {
			s.Fail(f, c, c35RaceSig(r), "data race: %s\n%s", r.detail(), head(r.Raw, 3000))
		}
		for _, fl := range res.Rep.Fails {
			s.Fail(f, c, c35ConsequenceSig(c, fl.Sig), "[%s] %s", fl.Sig, fl.Msg)
		}
		if len(res.Races) > 0 || len(res.Rep.Fails) > 0 {
			// all of them were listed known findings; the history is not judged further
			s.Note(c, false, "hit-known-finding")
			return
		}
		cl := c35Classes(c, res.Rep)
		if res.Rep.FlushOverlap > 0 {
			cl = append(cl, "explicit-flush-overlapped-call")
		}
		if c35HasConcurrentFlushPotential(c) {
			cl = append(cl, "flush-possible-in-concurrent-phase")
		}
		if res.Rep.Overlap > 0 {
			cl = append(cl, "calls-overlapped-in-time")
		}
		if res.Rep.Interleaved > 0 {
			cl = append(cl, "calls-interleaved")
		}
		cl = append(cl, fmt.Sprintf("procs:%d", c.Procs))
		s.Note(c, res.Rep.Inserted >= 2 && (res.Rep.Interleaved > 0 || res.Rep.Overlap > 0), cl...)
	}

	var c c35Case
	if ok, err := kit.LoadReplay("C35", "concurrent", &c); ok {
		if err != nil {
			t.Fatal(err)
		}
		// schedule-dependent: a replay is attempted several times
		for i := 0; i < 5 && !t.Failed(); i++ {
			run(t, c)
		}
		return
	} else if kit.ReplayMode() {
		t.Skip()
	}

	kit.SetChecks(100, 500)
	rapid.Check(t, func(rt *rapid.T) {
		c := genC35Concurrent(rt)
		if steer && c35HasConcurrentFlushPotential(c) {
			if c35Steer(&c) {
				s.Excluded(1)
			}
		}
		run(rt, c)
	})
}

// ---- dedicated reproduction of the Flush/InsertData finding ------------------------------------

// c35KnownCase: four goroutines insert 150 rows each into one table with a
// location column while the batch size is 7, i.e. InsertData alone, from
// several goroutines, with the recorder's own threshold flushes.
func c35KnownCase() c35Case {
	tb := c35Table{Name: "t0", Fields: []c35Field{{Kind: "int64"}, {Kind: "string", Tag: "location"}, {Kind: "int32"}}}
	c := c35Case{Batch: 7, Procs: 4}
	c.Phases = append(c.Phases, c35Phase{Threads: [][]c35Op{{{Op: "create", Table: 0}}}})
	var ph c35Phase
	for g := 0; g < 4; g++ {
		var ops []c35Op
		for i := 0; i < 150; i++ {
			tb.Rows = append(tb.Rows, []c35Val{{I: int64(len(tb.Rows))}, {S: []byte(fmt.Sprintf("L%d", i%5))}, {I: int64(g)}})
			ops = append(ops, c35Op{Op: "insert", Table: 0, Row: len(tb.Rows) - 1})
		}
		ph.Threads = append(ph.Threads, ops)
	}
	c.Phases = append(c.Phases, ph)
	c.Tables = []c35Table{tb}
	return c
}

// c35KnownCase2: one goroutine inserts, another one calls Flush; default batch
// size, so there is never more than one flush at a time (no transaction
// nesting): what is left is Flush clearing table.entries behind InsertData.
func c35KnownCase2() c35Case {
	tb := c35Table{Name: "t0", Fields: []c35Field{{Kind: "int64"}, {Kind: "int32"}}}
	c := c35Case{Batch: 0, Procs: 4, Open: "db"}
	c.Phases = append(c.Phases, c35Phase{Threads: [][]c35Op{{{Op: "create", Table: 0}}}})
	var ins, fl []c35Op
	for i := 0; i < 600; i++ {
		tb.Rows = append(tb.Rows, []c35Val{{I: int64(i)}, {I: 1}})
		ins = append(ins, c35Op{Op: "insert", Table: 0, Row: i})
		fl = append(fl, c35Op{Op: "flush"})
	}
	c.Phases = append(c.Phases, c35Phase{Threads: [][]c35Op{ins, fl}})
	c.Tables = []c35Table{tb}
	return c
}

func c35Known(t *testing.T, sub, what, want string, c c35Case, attempts int) {
	s := kit.Begin(t, "C35", sub, "fixed case: "+what+fmt.Sprintf("; up to %d child runs; reports a listed finding only when it reproduced", attempts))
	defer s.End()
	if kit.ReplayMode() {
		t.Skip()
	}
	if !raceEnabled {
		t.Skip("needs -race")
	}
	root := c35WorkRoot(t)
	pool := newChildPool(root)
	defer pool.Close()
	// union over the attempts, until the signature this reproduction is about showed
	seen := map[string]string{}
	for attempt := 0; attempt < attempts; attempt++ {
		res := c35RunChild(t, pool, root, c, true)
		if res.Inconcl != "" {
			continue
		}
		for _, r := range res.Races {
			sig := c35RaceSig(r)
			if _, dup := seen[sig]; !dup {
				seen[sig] = fmt.Sprintf("(attempt %d) data race %s", attempt+1, r.detail())
			}
		}
		for _, fl := range res.Rep.Fails {
			sig := c35ConsequenceSig(c, fl.Sig)
			if _, dup := seen[sig]; !dup {
				seen[sig] = fmt.Sprintf("(attempt %d) [%s] %s", attempt+1, fl.Sig, firstLineOf(fl.Msg))
			}
		}
		if _, ok := seen[want]; ok {
			break
		}
	}
	sigs := make([]string, 0, len(seen))
	for sig := range seen {
		sigs = append(sigs, sig)
	}
	sort.Strings(sigs)
	for _, sig := range sigs {
		s.KnownStillFails(t, c, sig, what+" "+seen[sig])
	}
}

func TestC35Known_ThresholdFlushFromSeveralGoroutines(t *testing.T) {
	c35Known(t, "known-threshold-flush", "4 goroutines x 150 InsertData into one table (location column), batch size 7, no explicit Flush", "overlapping-flush:panic", c35KnownCase(), 4)
}

func TestC35Known_FlushDropsConcurrentInsert(t *testing.T) {
	c35Known(t, "known-flush-vs-insert", "1 goroutine x 600 InsertData, 1 goroutine x 600 Flush, default batch size", "overlapping-flush:content", c35KnownCase2(), 6)
}

// ---- sub-check 3: classes the storage layer may be unable to carry ------------------------------

const c35SpecialRule = "single goroutine, one table, 1–6 rows of which at least one holds a value of a class that SQLite or database/sql may be unable to represent: uint/uint64 ≥ 2^63, " +
	"NaN (several payloads), ±Inf (float32 and float64), strings that are not valid UTF-8, complex64/128 columns. Judged on their own: when the storage layer refuses the value loudly " +
	"(database/sql 'converting argument' error surfacing as a panic from Flush/Close) nothing is asserted and the case is labelled rejected:<class>; when it accepts the value, " +
	"the row must read back equal (uint64 compared modulo 2^64, NaN accepted as NaN or SQLite NULL). Non-trivial: the special value reached Flush (always)."

type c35SpecialCase struct {
	Class string  `json:"class"`
	Case  c35Case `json:"case"`
}

func genC35Special(rt *rapid.T) c35SpecialCase {
	class := rapid.SampledFrom([]string{"uint64-high", "uint-high", "nan", "nan32", "inf", "inf32", "invalid-utf8", "invalid-utf8-location", "complex64", "complex128"}).Draw(rt, "class")
	var f c35Field
	var v c35Val
	switch class {
	case "uint64-high":
		f = c35Field{Kind: "uint64"}
		v.U = rapid.SampledFrom([]uint64{1 << 63, math.MaxUint64, 1<<63 + 1}).Draw(rt, "u")
	case "uint-high":
		f = c35Field{Kind: "uint"}
		v.U = rapid.Uint64Range(1<<63, math.MaxUint64).Draw(rt, "u")
	case "nan":
		f = c35Field{Kind: "float64"}
		v.F = rapid.SampledFrom([]uint64{math.Float64bits(math.NaN()), 0x7ff0000000000001, 0xfff8000000000000}).Draw(rt, "nan")
	case "nan32":
		f = c35Field{Kind: "float32"}
		v.F = math.Float64bits(math.NaN())
	case "inf":
		f = c35Field{Kind: "float64"}
		v.F = math.Float64bits(math.Inf(rapid.SampledFrom([]int{1, -1}).Draw(rt, "sign")))
	case "inf32":
		f = c35Field{Kind: "float32"}
		v.F = math.Float64bits(math.Inf(rapid.SampledFrom([]int{1, -1}).Draw(rt, "sign")))
	case "invalid-utf8", "invalid-utf8-location":
		f = c35Field{Kind: "string"}
		if class == "invalid-utf8-location" {
			f.Tag = "location"
		}
		v.S = []byte(rapid.SampledFrom([]string{"\xff", "\xc3", "a\xf0\x28\x8c\x28b", "\xed\xa0\x80", "\xfe\xfe\xff\xff", "ok\x80"}).Draw(rt, "bad"))
	case "complex64":
		f = c35Field{Kind: "complex64"}
		v.F, v.G = math.Float64bits(1), math.Float64bits(2)
	case "complex128":
		f = c35Field{Kind: "complex128"}
		v.F, v.G = math.Float64bits(rapid.Float64Range(-10, 10).Draw(rt, "re")), math.Float64bits(0)
	}
	tb := c35Table{Name: "t0", Fields: []c35Field{{Kind: "int64"}, f, {Kind: "string"}}}
	n := rapid.IntRange(1, 6).Draw(rt, "rows")
	special := rapid.IntRange(0, n-1).Draw(rt, "which")
	ops := []c35Op{{Op: "create", Table: 0}}
	for i := 0; i < n; i++ {
		row := []c35Val{{I: int64(i)}, {}, {S: []byte("x")}}
		if i == special {
			row[1] = v
		} else if f.Kind == "string" {
			row[1].S = []byte("plain")
		}
		tb.Rows = append(tb.Rows, row)
		ops = append(ops, c35Op{Op: "insert", Table: 0, Row: i})
		if rapid.IntRange(0, 3).Draw(rt, "fl") == 0 {
			ops = append(ops, c35Op{Op: "flush"})
		}
	}
	return c35SpecialCase{Class: class, Case: c35Case{Batch: rapid.SampledFrom([]int{0, 1, 3}).Draw(rt, "batch"), Tables: []c35Table{tb}, Phases: []c35Phase{{Threads: [][]c35Op{ops}}}}}
}

func TestC35Unrepresentable(t *testing.T) {
	s := kit.Begin(t, "C35", "unrepresentable", c35SpecialRule)
	defer s.End()
	root := c35WorkRoot(t)

	run := func(f kit.Failer, sc c35SpecialCase) {
		dir := newCaseDir(t, root, "c35u")
		defer os.RemoveAll(dir)
		rep := c35Execute(sc.Case, dir, true)
		if rep.Hang != "" {
			s.Note(sc, false, "hang-inconclusive")
			return
		}
		if len(rep.Rejected) > 0 {
			s.Note(sc, true, "rejected:"+sc.Class)
			return
		}
		for _, fl := range rep.Fails {
			s.Fail(f, sc, "special:"+sc.Class+":"+fl.Sig, "%s", fl.Msg)
			return
		}
		s.Note(sc, true, "carried:"+sc.Class)
	}

	var sc c35SpecialCase
	if ok, err := kit.LoadReplay("C35", "unrepresentable", &sc); ok {
		if err != nil {
			t.Fatal(err)
		}
		run(t, sc)
		return
	} else if kit.ReplayMode() {
		t.Skip()
	}

	kit.SetChecks(80, 400)
	rapid.Check(t, func(rt *rapid.T) { sc := genC35Special(rt); run(rt, sc) })
}
