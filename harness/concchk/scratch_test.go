package concchk

import (
	"fmt"
	"sort"
	"testing"

	"pgregory.net/rapid"
)

func TestScratch35(t *testing.T) {
	root := t.TempDir()
	hist := map[string]int{}
	ex := map[string]string{}
	add := func(res c35ChildResult) {
		if res.Inconcl != "" {
			hist["INCONCLUSIVE"]++
			ex["INCONCLUSIVE"] = res.Inconcl
		}
		for _, r := range res.Races {
			s := c35RaceSig(r)
			hist[s]++
			ex[s+" :: "+r.detail()] = ""
		}
		for _, f := range res.Rep.Fails {
			hist[f.Sig]++
			ex[f.Sig] = firstLineOf(f.Msg)
		}
	}
	for i := 0; i < 4; i++ {
		add(c35RunChild(t, root, c35KnownCase()))
	}
	n := 0
	rapid.Check(t, func(rt *rapid.T) {
		c := genC35Concurrent(rt)
		n++
		if n > 25 {
			return
		}
		add(c35RunChild(t, root, c))
	})
	var ks []string
	for k := range hist {
		ks = append(ks, k)
	}
	sort.Strings(ks)
	for _, k := range ks {
		fmt.Printf("SIG %4d %s\n", hist[k], k)
	}
	ks = ks[:0]
	for k := range ex {
		ks = append(ks, k)
	}
	sort.Strings(ks)
	for _, k := range ks {
		fmt.Printf("EX %s %s\n", k, ex[k])
	}
}
