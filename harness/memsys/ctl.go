package memsys

import (
	"fmt"

	"github.com/sarchlab/akita/v5/mem/memcontrolprotocol"
	"github.com/sarchlab/akita/v5/mem/vm"
	"github.com/sarchlab/akita/v5/messaging"
	"github.com/sarchlab/akita/v5/modeling"
	"github.com/sarchlab/akita/v5/timing"
)

// CtlStep is one control request issued by the control agent. Steps are issued
// strictly one at a time: the next is sent after the previous was answered.
type CtlStep struct {
	Target    string   `json:"target"` // remote name of a Control port
	Cmd       int      `json:"cmd"`
	Addresses []uint64 `json:"addresses,omitempty"`
	PID       uint32   `json:"pid,omitempty"`
}

// CtlRsp is one control response as seen by the agent.
type CtlRsp struct {
	Time    uint64 `json:"t"`
	Step    int    `json:"step"`
	Cmd     int    `json:"cmd"`
	Success bool   `json:"success"`
	Error   string `json:"error,omitempty"`
}

type CtlSpec struct {
	Freq timing.Freq `json:"freq"`
}

type CtlState struct {
	Steps     []CtlStep `json:"steps"`
	Next      int       `json:"next"`
	Waiting   bool      `json:"waiting"`
	WaitingID uint64    `json:"waiting_id"`
	Log       []CtlRsp  `json:"log"`
	Errors    []string  `json:"errors"`
}

// Ctl is a scripted control-protocol requester.
type Ctl struct {
	*modeling.Component[CtlSpec, CtlState, modeling.None]
}

type ctlMW struct{ c *Ctl }

func (m *ctlMW) Tick() bool {
	port := m.c.GetPortByName("Out")
	st := &m.c.State
	progress := false
	if msg := port.RetrieveIncoming(); msg != nil {
		progress = true
		rsp, ok := msg.(memcontrolprotocol.Rsp)
		switch {
		case !ok:
			st.Errors = append(st.Errors, fmt.Sprintf("unexpected message %T on control port", msg))
		case !st.Waiting || rsp.RspTo != st.WaitingID:
			st.Errors = append(st.Errors, fmt.Sprintf("control response RspTo=%d while waiting=%v id=%d", rsp.RspTo, st.Waiting, st.WaitingID))
		default:
			st.Waiting = false
			st.Log = append(st.Log, CtlRsp{Time: uint64(m.c.CurrentTime()), Step: st.Next - 1, Cmd: int(rsp.Command), Success: rsp.Success, Error: rsp.Error})
		}
	}
	if !st.Waiting && st.Next < len(st.Steps) && port.CanSend() {
		step := st.Steps[st.Next]
		req := memcontrolprotocol.Req{}
		req.ID = timing.GetIDGenerator().Generate()
		req.Src = port.AsRemote()
		req.Dst = messaging.RemotePort(step.Target)
		req.Command = memcontrolprotocol.Command(step.Cmd)
		req.Addresses = append([]uint64(nil), step.Addresses...)
		req.PID = vm.PID(step.PID)
		req.TrafficBytes = 8
		req.TrafficClass = "memcontrolprotocol.Req"
		port.Send(req)
		st.Waiting = true
		st.WaitingID = req.ID
		st.Next++
		progress = true
	}
	return progress
}

// BuildCtl builds and registers the control agent with one port "Out".
func BuildCtl(reg modeling.Registrar, name string, freq timing.Freq) *Ctl {
	comp := modeling.NewBuilder[CtlSpec, CtlState, modeling.None]().
		WithEngine(reg.GetEngine()).WithFreq(freq).WithSpec(CtlSpec{Freq: freq}).Build(name)
	comp.DeclarePort("Out", memcontrolprotocol.Requester)
	c := &Ctl{Component: comp}
	comp.AddMiddleware(&ctlMW{c: c})
	reg.RegisterComponent(c)
	p := modeling.MakePortBuilder().WithRegistrar(reg).WithComponent(c).
		WithSpec(modeling.PortSpec{BufSize: 2}).Build("Out")
	c.AssignPort("Out", p)
	return c
}

// Done reports whether every step has been answered.
func (c *Ctl) Done() bool { return c.State.Next == len(c.State.Steps) && !c.State.Waiting }
