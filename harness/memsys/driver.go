// Package memsys builds generated memory-hierarchy assemblies out of the real
// library components (write-back / write-through caches, ROBs, ideal memory
// controllers, simple banked memories, DRAM) plus checkpointable scripted
// requesters, and provides the oracles shared by C03, C06, C07, C16, C17, C19,
// C32 and C33.
package memsys

import (
	"encoding/json"
	"fmt"

	"github.com/sarchlab/akita/v5/mem/memprotocol"
	"github.com/sarchlab/akita/v5/mem/vm"
	"github.com/sarchlab/akita/v5/messaging"
	"github.com/sarchlab/akita/v5/modeling"
	"github.com/sarchlab/akita/v5/timing"
)

// Op is one scripted request.
type Op struct {
	Write bool   `json:"w,omitempty"`
	Addr  uint64 `json:"a"`
	Size  int    `json:"n"`
	Data  []byte `json:"d,omitempty"`
	Mask  []bool `json:"m,omitempty"` // nil = every byte written
	Gap   int    `json:"g,omitempty"` // idle cycles before this op may issue
}

// PIDOf makes the PID a function of the address region so that one byte is
// never reached under two PIDs (the caches tag by PID; the flat reference does
// not).
func PIDOf(addr uint64) vm.PID { return vm.PID(1 + (addr>>12)&1) }

// DriverSpec is the immutable part of a requester. The whole script lives in
// the Spec so that a rebuilt simulation is identical by construction.
type DriverSpec struct {
	Freq   timing.Freq `json:"freq"`
	MaxOut int         `json:"max_out"`
	// ScriptJSON is the JSON form of the []Op script (a Spec may not contain
	// nested structs, so the script travels as one string; the spec hash still
	// pins it).
	ScriptJSON string   `json:"script_json"`
	Targets    []string `json:"targets"`    // remote port names of the level below
	Interleave uint64   `json:"interleave"` // address interleaving across Targets
	RspPerTick int      `json:"rsp_per_tick"`
	// LineExcl > 0 additionally keeps a read and a write (or two writes) of one
	// LineExcl-sized line from being in flight together (used to steer around a
	// listed finding; 0 = only byte overlap stalls).
	LineExcl uint64 `json:"line_excl"`
}

// RspRec is one response as the requester saw it.
type RspRec struct {
	Time  uint64 `json:"t"`
	Op    int    `json:"op"`
	Write bool   `json:"w,omitempty"`
	Data  []byte `json:"d,omitempty"`
}

// DriverState is fully serialisable; there is no hidden runtime field.
type DriverState struct {
	Next        int            `json:"next"`
	GapLeft     int            `json:"gap_left"`
	GapArmed    bool           `json:"gap_armed"`
	Outstanding map[uint64]int `json:"outstanding"`
	IssueTime   []uint64       `json:"issue_time"`
	Log         []RspRec       `json:"log"`
	Errors      []string       `json:"errors"`
	Stalls      int            `json:"stalls"` // ticks on which CanSend was false with work to send
}

// Driver is a scripted requester.
type Driver struct {
	*modeling.Component[DriverSpec, DriverState, modeling.None]
	Script []Op // decoded from Spec().ScriptJSON at build time; immutable
}

type driverMW struct{ d *Driver }

func (m *driverMW) port() messaging.Port { return m.d.GetPortByName("Mem") }

func (m *driverMW) Tick() bool {
	progress := false
	n := m.d.Spec().RspPerTick
	if n < 1 {
		n = 1
	}
	for i := 0; i < n; i++ {
		if !m.processResponse() {
			break
		}
		progress = true
	}
	for {
		sent, waited := m.sendNext()
		if waited {
			progress = true
		}
		if !sent {
			break
		}
		progress = true
	}
	return progress
}

func (m *driverMW) now() uint64 { return uint64(m.d.CurrentTime()) }

func (m *driverMW) processResponse() bool {
	msg := m.port().RetrieveIncoming()
	if msg == nil {
		return false
	}
	st := &m.d.State
	switch rsp := msg.(type) {
	case memprotocol.WriteDoneRsp:
		idx, ok := st.Outstanding[rsp.RspTo]
		if !ok {
			st.Errors = append(st.Errors, fmt.Sprintf("t=%d: WriteDoneRsp for unknown or already answered request id %d", m.now(), rsp.RspTo))
			return true
		}
		delete(st.Outstanding, rsp.RspTo)
		if !m.d.Script[idx].Write {
			st.Errors = append(st.Errors, fmt.Sprintf("t=%d: op %d is a read but got WriteDoneRsp", m.now(), idx))
		}
		if rsp.Dst != m.port().AsRemote() {
			st.Errors = append(st.Errors, fmt.Sprintf("t=%d: op %d response Dst=%s, want %s", m.now(), idx, rsp.Dst, m.port().AsRemote()))
		}
		st.Log = append(st.Log, RspRec{Time: m.now(), Op: idx, Write: true})
	case memprotocol.DataReadyRsp:
		idx, ok := st.Outstanding[rsp.RspTo]
		if !ok {
			st.Errors = append(st.Errors, fmt.Sprintf("t=%d: DataReadyRsp for unknown or already answered request id %d", m.now(), rsp.RspTo))
			return true
		}
		delete(st.Outstanding, rsp.RspTo)
		if m.d.Script[idx].Write {
			st.Errors = append(st.Errors, fmt.Sprintf("t=%d: op %d is a write but got DataReadyRsp", m.now(), idx))
		}
		if rsp.Dst != m.port().AsRemote() {
			st.Errors = append(st.Errors, fmt.Sprintf("t=%d: op %d response Dst=%s, want %s", m.now(), idx, rsp.Dst, m.port().AsRemote()))
		}
		st.Log = append(st.Log, RspRec{Time: m.now(), Op: idx, Data: append([]byte(nil), rsp.Data...)})
	default:
		st.Errors = append(st.Errors, fmt.Sprintf("t=%d: unexpected message %T", m.now(), msg))
	}
	return true
}

func overlaps(a, b Op) bool {
	aEnd, bEnd := a.Addr+uint64(a.Size), b.Addr+uint64(b.Size)
	return a.Addr < bEnd && b.Addr < aEnd
}

func (m *driverMW) sendNext() (sent, waited bool) {
	st := &m.d.State
	spec := m.d.Spec()
	if st.Next >= len(m.d.Script) {
		return false, false
	}
	op := m.d.Script[st.Next]
	if !st.GapArmed {
		st.GapArmed = true
		st.GapLeft = op.Gap
	}
	if st.GapLeft > 0 {
		st.GapLeft--
		return false, true
	}
	if len(st.Outstanding) >= spec.MaxOut {
		return false, false
	}
	// Never have two in-flight requests that touch the same byte (C16's
	// precondition): stall in script order instead.
	for _, idx := range st.Outstanding {
		o := m.d.Script[idx]
		if overlaps(o, op) {
			return false, false
		}
		if spec.LineExcl > 0 && (o.Write || op.Write) && o.Addr/spec.LineExcl == op.Addr/spec.LineExcl {
			return false, false
		}
	}
	port := m.port()
	if !port.CanSend() {
		st.Stalls++
		return false, false
	}
	dst := messaging.RemotePort(spec.Targets[0])
	if len(spec.Targets) > 1 {
		dst = messaging.RemotePort(spec.Targets[(op.Addr/spec.Interleave)%uint64(len(spec.Targets))])
	}
	id := timing.GetIDGenerator().Generate()
	if op.Write {
		req := memprotocol.WriteReq{}
		req.ID = id
		req.Src = port.AsRemote()
		req.Dst = dst
		req.Address = op.Addr
		req.PID = PIDOf(op.Addr)
		req.Data = append([]byte(nil), op.Data...)
		if op.Mask != nil {
			req.DirtyMask = append([]bool(nil), op.Mask...)
		}
		req.TrafficBytes = len(req.Data) + 12
		req.TrafficClass = "memprotocol.WriteReq"
		port.Send(req)
	} else {
		req := memprotocol.ReadReq{}
		req.ID = id
		req.Src = port.AsRemote()
		req.Dst = dst
		req.Address = op.Addr
		req.AccessByteSize = uint64(op.Size)
		req.PID = PIDOf(op.Addr)
		req.TrafficBytes = 12
		req.TrafficClass = "memprotocol.ReadReq"
		port.Send(req)
	}
	st.Outstanding[id] = st.Next
	st.IssueTime = append(st.IssueTime, m.now())
	st.Next++
	st.GapArmed = false
	return true, false
}

// BuildDriver builds and registers a requester named name with one port "Mem".
func BuildDriver(reg modeling.Registrar, name string, spec DriverSpec, script []Op, portBuf int) *Driver {
	sj, err := json.Marshal(script)
	if err != nil {
		panic(err)
	}
	spec.ScriptJSON = string(sj)
	comp := modeling.NewBuilder[DriverSpec, DriverState, modeling.None]().
		WithEngine(reg.GetEngine()).
		WithFreq(spec.Freq).
		WithSpec(spec).
		Build(name)
	comp.State = DriverState{Outstanding: map[uint64]int{}}
	comp.DeclarePort("Mem", memprotocol.Requester)
	d := &Driver{Component: comp, Script: script}
	comp.AddMiddleware(&driverMW{d: d})
	reg.RegisterComponent(d)
	p := modeling.MakePortBuilder().WithRegistrar(reg).WithComponent(d).
		WithSpec(modeling.PortSpec{BufSize: portBuf}).Build("Mem")
	d.AssignPort("Mem", p)
	return d
}

// Done reports whether the script is complete with nothing outstanding.
func (d *Driver) Done() bool {
	return d.State.Next == len(d.Script) && len(d.State.Outstanding) == 0
}
