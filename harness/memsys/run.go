package memsys

import (
	"fmt"
	"sort"

	"github.com/sarchlab/akita/v5/hooking"
	"github.com/sarchlab/akita/v5/mem/cache"
	"github.com/sarchlab/akita/v5/timing"
)

// Stats are measured from what an execution did (never from what was asked).
type Stats struct {
	Events          int    `json:"events"`
	Requests        int    `json:"requests"`
	MaskedWrites    int    `json:"masked_writes"`
	PartialWrites   int    `json:"partial_writes"`
	DirtyEvictions  int    `json:"dirty_evictions"` // distinct moments with an eviction in flight / dirty victim chosen
	MSHRCoalesce    int    `json:"mshr_coalesce"`   // moments at which some MSHR entry held >1 transaction
	Backpressure    int    `json:"backpressure"`    // requester ticks blocked by a full port + full incoming buffers seen
	LockedOrReading int    `json:"locked_or_reading"`
	Observed        bool   `json:"observed"`
	EndTime         uint64 `json:"end_time"`
}

// Failure is an oracle verdict.
type Failure struct {
	Sig string
	Msg string
}

func (f *Failure) Error() string { return f.Sig + ": " + f.Msg }

// Ref is the flat reference memory (zero default).
type Ref map[uint64]byte

// CheckDrivers judges C16 on a finished run: every script complete, every
// request answered exactly once by the matching kind, read data equal to what a
// flat memory holds after the acknowledged writes (dirty masks honoured).
// Because no two in-flight requests of the whole system touch the same byte
// (per-requester stall + byte ownership between requesters), applying each
// requester's log in its own order is exact.
func CheckDrivers(a *Assembly) (Ref, *Failure) {
	ref := Ref{}
	for di, d := range a.Drivers {
		st := &d.State
		if len(st.Errors) > 0 {
			return ref, &Failure{"protocol:" + classifyErr(st.Errors[0]), fmt.Sprintf("Drv%d: %s", di, st.Errors[0])}
		}
		if !d.Done() {
			outs := make([]int, 0, len(st.Outstanding))
			for _, idx := range st.Outstanding {
				outs = append(outs, idx)
			}
			sort.Ints(outs)
			return ref, &Failure{"unanswered", fmt.Sprintf("run ended (event queue empty) with Drv%d at op %d/%d, unanswered ops %v", di, st.Next, len(d.Script), outs)}
		}
		answered := make([]int, len(d.Script))
		for _, r := range st.Log {
			answered[r.Op]++
			op := d.Script[r.Op]
			if r.Write {
				for i := 0; i < op.Size; i++ {
					if op.Mask == nil || op.Mask[i] {
						ref[op.Addr+uint64(i)] = op.Data[i]
					}
				}
				continue
			}
			if len(r.Data) != op.Size {
				return ref, &Failure{"read-size", fmt.Sprintf("Drv%d op %d read %d bytes at %#x, response carries %d bytes", di, r.Op, op.Size, op.Addr, len(r.Data))}
			}
			for i := 0; i < op.Size; i++ {
				if want := ref[op.Addr+uint64(i)]; r.Data[i] != want {
					return ref, &Failure{"read-data", fmt.Sprintf("Drv%d op %d read %#x+%d at t=%d: byte %d is %#02x, flat memory holds %#02x", di, r.Op, op.Addr, op.Size, r.Time, i, r.Data[i], want)}
				}
			}
		}
		for i, n := range answered {
			if n != 1 {
				return ref, &Failure{"response-count", fmt.Sprintf("Drv%d op %d answered %d times", di, i, n)}
			}
		}
	}
	return ref, nil
}

func classifyErr(e string) string {
	switch {
	case contains(e, "unknown or already answered"):
		return "unknown-rspto"
	case contains(e, "is a read but got"), contains(e, "is a write but got"):
		return "wrong-kind"
	case contains(e, "response Dst"):
		return "wrong-dst"
	}
	return "other"
}

func contains(s, sub string) bool {
	for i := 0; i+len(sub) <= len(s); i++ {
		if s[i:i+len(sub)] == sub {
			return true
		}
	}
	return false
}

// CheckDirectory checks C19's invariants on one directory.
func CheckDirectory(name string, ds *cache.DirectoryState, numSets, ways, blockSize int) *Failure {
	type key struct {
		pid uint32
		tag uint64
	}
	seen := map[key]bool{}
	if len(ds.Sets) != numSets {
		return &Failure{"dir-shape", fmt.Sprintf("%s: %d sets, want %d", name, len(ds.Sets), numSets)}
	}
	for si := range ds.Sets {
		set := &ds.Sets[si]
		if len(set.Blocks) != ways || len(set.LRUOrder) != ways {
			return &Failure{"dir-lru-permutation", fmt.Sprintf("%s set %d: %d blocks, LRU order %v, want %d ways", name, si, len(set.Blocks), set.LRUOrder, ways)}
		}
		cnt := make([]int, ways)
		for _, w := range set.LRUOrder {
			if w < 0 || w >= ways {
				return &Failure{"dir-lru-permutation", fmt.Sprintf("%s set %d: LRU order %v has way out of range", name, si, set.LRUOrder)}
			}
			cnt[w]++
		}
		for w, c := range cnt {
			if c != 1 {
				return &Failure{"dir-lru-permutation", fmt.Sprintf("%s set %d: way %d appears %d times in LRU order %v", name, si, w, c, set.LRUOrder)}
			}
		}
		for wi := range set.Blocks {
			b := &set.Blocks[wi]
			if b.SetID != si || b.WayID != wi {
				return &Failure{"dir-block-position", fmt.Sprintf("%s block at set %d way %d says SetID=%d WayID=%d", name, si, wi, b.SetID, b.WayID)}
			}
			if b.ReadCount < 0 {
				return &Failure{"dir-negative-readcount", fmt.Sprintf("%s set %d way %d: ReadCount=%d", name, si, wi, b.ReadCount)}
			}
			if !b.IsValid {
				continue
			}
			k := key{b.PID, b.Tag}
			if seen[k] {
				return &Failure{"dir-duplicate-line", fmt.Sprintf("%s: two valid blocks hold line %#x of pid %d", name, b.Tag, b.PID)}
			}
			seen[k] = true
			if want := cache.DirectorySetID(b.Tag, blockSize, numSets); want != si {
				return &Failure{"dir-wrong-set", fmt.Sprintf("%s: valid block tag %#x sits in set %d but maps to set %d", name, b.Tag, si, want)}
			}
		}
	}
	return nil
}

// CheckAllDirectories runs CheckDirectory on every cache of the assembly.
func (a *Assembly) CheckAllDirectories() *Failure {
	for _, c := range a.WB {
		s := c.Spec()
		if f := CheckDirectory(c.Name(), &c.State.DirectoryState, s.NumSets, s.WayAssociativity, 1<<s.Log2BlockSize); f != nil {
			return f
		}
	}
	for _, c := range a.WT {
		s := c.Spec()
		if f := CheckDirectory(c.Name(), &c.State.DirectoryState, s.NumSets, s.WayAssociativity, 1<<s.Log2BlockSize); f != nil {
			return f
		}
	}
	return nil
}

// Observer is an engine hook that checks C19 after every event and gathers the
// non-triviality statistics from exported State.
type Observer struct {
	A     *Assembly
	Stats *Stats
	Fail  *Failure
	FailT uint64
}

func (o *Observer) Func(ctx hooking.HookCtx) {
	if ctx.Pos != timing.HookPosAfterEvent {
		return
	}
	o.Stats.Events++
	if o.Fail == nil {
		if f := o.A.CheckAllDirectories(); f != nil {
			o.Fail = f
			if e, ok := ctx.Item.(timing.Event); ok {
				o.FailT = uint64(e.Time())
			}
		}
	}
	for _, c := range o.A.WB {
		for i := range c.State.MSHRState.Entries {
			if len(c.State.MSHRState.Entries[i].TransactionIndices) > 1 {
				o.Stats.MSHRCoalesce++
				break
			}
		}
		if len(c.State.EvictingList) > 0 || len(c.State.InflightEvictionIndices) > 0 || len(c.State.PendingEvictionIndices) > 0 {
			o.Stats.DirtyEvictions++
		}
		o.countBusy(&c.State.DirectoryState)
	}
	for _, c := range o.A.WT {
		for i := range c.State.MSHRState.Entries {
			if len(c.State.MSHRState.Entries[i].TransactionIndices) > 1 {
				o.Stats.MSHRCoalesce++
				break
			}
		}
		o.countBusy(&c.State.DirectoryState)
	}
	for _, p := range o.A.AllPorts {
		_ = p
	}
}

func (o *Observer) countBusy(ds *cache.DirectoryState) {
	for si := range ds.Sets {
		for wi := range ds.Sets[si].Blocks {
			b := &ds.Sets[si].Blocks[wi]
			if b.IsLocked || b.ReadCount > 0 {
				o.Stats.LockedOrReading++
				return
			}
		}
	}
}

// RunOpts selects how an assembly is executed.
type RunOpts struct {
	Observe bool // attach the engine-hook observer (C19 + statistics)
}

// Run builds spec on a fresh serial engine with the capturing registrar, runs
// the workload to quiescence and returns the assembly, the statistics and the
// first directory failure seen (if observed).
func Run(spec AssemblySpec, opts RunOpts) (*Assembly, *Stats, *Failure) {
	timing.ResetIDGenerator()
	engine := timing.NewSerialEngine()
	reg := NewReg(engine)
	a := Build(reg, spec)
	st := &Stats{Observed: opts.Observe}
	var obs *Observer
	if opts.Observe {
		obs = &Observer{A: a, Stats: st}
		engine.AcceptHook(obs)
	}
	a.Kick()
	_ = engine.Run()
	st.EndTime = uint64(engine.CurrentTime())
	for _, d := range a.Drivers {
		st.Requests += len(d.Script)
		st.Backpressure += d.State.Stalls
		for _, op := range d.Script {
			if op.Write && op.Mask != nil {
				st.MaskedWrites++
			}
			if op.Write && uint64(op.Size) < spec.TopLine() {
				st.PartialWrites++
			}
		}
	}
	if obs != nil && obs.Fail != nil {
		return a, st, &Failure{obs.Fail.Sig, fmt.Sprintf("after the event at t=%d: %s", obs.FailT, obs.Fail.Msg)}
	}
	return a, st, nil
}
