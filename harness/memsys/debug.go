package memsys

import (
	"fmt"
	"io"

	"github.com/sarchlab/akita/v5/hooking"
	"github.com/sarchlab/akita/v5/mem/memprotocol"
	"github.com/sarchlab/akita/v5/messaging"
	"github.com/sarchlab/akita/v5/timing"
)

type msgPrinter struct {
	w      io.Writer
	engine timing.Engine
	port   string
}

func (p *msgPrinter) Func(ctx hooking.HookCtx) {
	if ctx.Pos != messaging.HookPosPortMsgSend {
		return
	}
	m, ok := ctx.Item.(messaging.Msg)
	if !ok {
		return
	}
	meta := m.Meta()
	desc := fmt.Sprintf("%T", m)
	switch x := m.(type) {
	case memprotocol.ReadReq:
		desc = fmt.Sprintf("Read  %#x+%d", x.Address, x.AccessByteSize)
	case memprotocol.WriteReq:
		desc = fmt.Sprintf("Write %#x+%d data=%x mask=%v", x.Address, len(x.Data), x.Data, maskStr(x.DirtyMask))
	case memprotocol.DataReadyRsp:
		desc = fmt.Sprintf("Data  rspTo=%d %x", x.RspTo, x.Data)
	case memprotocol.WriteDoneRsp:
		desc = fmt.Sprintf("WDone rspTo=%d", x.RspTo)
	}
	fmt.Fprintf(p.w, "%8d %-12s -> %-12s id=%-4d %s\n", p.engine.CurrentTime(), meta.Src, meta.Dst, meta.ID, desc)
}

func maskStr(m []bool) string {
	if m == nil {
		return "nil"
	}
	b := make([]byte, len(m))
	for i, v := range m {
		b[i] = '.'
		if v {
			b[i] = 'X'
		}
	}
	return string(b)
}

// TraceMessages prints every message sent on every port of the assembly.
func (a *Assembly) TraceMessages(w io.Writer) {
	for _, p := range a.AllPorts {
		p.AcceptHook(&msgPrinter{w: w, engine: a.Reg.GetEngine(), port: p.Name()})
	}
}
