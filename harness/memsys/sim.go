package memsys

import (
	"crypto/sha256"
	"encoding/hex"
	"encoding/json"
	"fmt"
	"io"
	"os"
	"path/filepath"
	"reflect"

	"github.com/sarchlab/akita/v5/hooking"
	"github.com/sarchlab/akita/v5/mem/memcontrolprotocol"
	"github.com/sarchlab/akita/v5/messaging"
	"github.com/sarchlab/akita/v5/modeling"
	"github.com/sarchlab/akita/v5/naming"
	"github.com/sarchlab/akita/v5/simulation"
	"github.com/sarchlab/akita/v5/timing"
)

// BuildSim builds spec in a real simulation.Simulation (monitor off; the SQLite
// output goes to dir and is removed by CloseSim). With noTraceHooks the
// components are registered through a wrapper that hides their Hookable side,
// so the simulation does not attach its (idle) DBTracer hook to them and the
// tracing task-ID side tables stay untouched ("tracing off" in the strict
// sense); checkpointing is unaffected because the wrapper forwards
// Name/SaveCheckpoint/LoadCheckpoint.
func BuildSim(spec AssemblySpec, dir string, noTraceHooks bool) (*simulation.Simulation, *Assembly) {
	timing.ResetIDGenerator()
	sim := simulation.MakeBuilder().WithoutMonitoring().
		WithOutputFileName(filepath.Join(dir, "out")).Build()
	var reg modeling.Registrar = sim
	if noTraceHooks {
		reg = &plainRegistrar{sim: sim}
	}
	a := Build(reg, spec)
	return sim, a
}

type checkpointable interface {
	SaveCheckpoint(w io.Writer) error
	LoadCheckpoint(r io.Reader) error
}

// plainEntity exposes only the name and the checkpoint methods of a component.
type plainEntity struct {
	inner naming.Named
}

func (p plainEntity) Name() string { return p.inner.Name() }
func (p plainEntity) SaveCheckpoint(w io.Writer) error {
	return p.inner.(checkpointable).SaveCheckpoint(w)
}
func (p plainEntity) LoadCheckpoint(r io.Reader) error {
	return p.inner.(checkpointable).LoadCheckpoint(r)
}

type plainRegistrar struct{ sim *simulation.Simulation }

func (r *plainRegistrar) GetEngine() timing.Engine { return r.sim.GetEngine() }
func (r *plainRegistrar) RegisterComponent(c naming.Named) {
	if _, ok := c.(checkpointable); ok {
		r.sim.RegisterComponent(plainEntity{inner: c})
		return
	}
	r.sim.RegisterComponent(c)
}
func (r *plainRegistrar) RegisterConnection(c naming.Named) { r.sim.RegisterConnection(c) }
func (r *plainRegistrar) RegisterResource(c naming.Named)   { r.sim.RegisterResource(c) }
func (r *plainRegistrar) RegisterPort(p naming.Named)       { r.sim.RegisterPort(p) }

// CloseSim terminates the simulation and removes its output file.
func CloseSim(sim *simulation.Simulation, dir string) {
	sim.Terminate()
	m, _ := filepath.Glob(filepath.Join(dir, "out*"))
	for _, f := range m {
		_ = os.Remove(f)
	}
}

// EvRec is one handled event.
type EvRec struct {
	Time      uint64 `json:"t"`
	Handler   string `json:"h"`
	Type      string `json:"ty"`
	Secondary bool   `json:"s,omitempty"`
	Body      string `json:"b"` // JSON form of the event (includes its ID)
}

// TraceRecorder records every handled event.
type TraceRecorder struct {
	Events []EvRec
}

func (r *TraceRecorder) Func(ctx hooking.HookCtx) {
	if ctx.Pos != timing.HookPosBeforeEvent {
		return
	}
	e, ok := ctx.Item.(timing.Event)
	if !ok {
		return
	}
	b, _ := json.Marshal(e)
	r.Events = append(r.Events, EvRec{Time: uint64(e.Time()), Handler: e.HandlerID(),
		Type: reflect.TypeOf(e).String(), Secondary: e.IsSecondary(), Body: string(b)})
}

// Job is what a child process is asked to do.
type Job struct {
	Spec    AssemblySpec `json:"spec"`
	Dir     string       `json:"dir"`      // scratch directory of this job
	BuildID string       `json:"build_id"` // explicit build identity
	// NoTraceHooks: register components so that the simulation's idle tracer
	// hook is not attached (see BuildSim).
	NoTraceHooks bool    `json:"no_trace_hooks"`
	LoadFrom     string  `json:"load_from"` // checkpoint to load before running ("" = fresh start)
	CutAt        *uint64 `json:"cut_at"`    // RunUntil(*CutAt) then save to SaveCut and stop
	SaveCut      string  `json:"save_cut"`
	// Resave: right after loading, save again to this path (canonical-form check).
	Resave    string `json:"resave"`
	SaveFinal string `json:"save_final"` // archive written after Run returns
	Result    string `json:"result"`     // where the Result JSON goes
	// Mid-run control: at CtlAt, these steps are handed to the control agent.
	CtlAt    *uint64   `json:"ctl_at"`
	CtlSteps []CtlStep `json:"ctl_steps"`
	// EndSteps are handed to the control agent after the workload has run to
	// quiescence, followed by another Run.
	EndSteps []CtlStep `json:"end_steps"`
	// TraceAll attaches one recording tracer to every component and connection
	// and returns the trace stream. ResetAt > 0 additionally resets every bottom
	// and level (bottom-up, one acknowledged Reset at a time) at ResetAt/16 of the
	// uninterrupted run's length.
	TraceAll bool `json:"trace_all"`
	ResetAt  int  `json:"reset_at"`
	// Repeat > 1: run the whole job that many times in THIS process (fresh
	// simulation and reset ID generator each time) and report every run's
	// event list in Result.Repeats (two simulations in one process must not
	// influence each other).
	Repeat int `json:"repeat"`
}

// Result is what a child reports.
type Result struct {
	Error         string              `json:"error,omitempty"`
	Events        []EvRec             `json:"events"`
	EndTime       uint64              `json:"end_time"`
	NextID        uint64              `json:"next_id"`
	DriverState   []DriverState       `json:"driver_state"`
	CtlState      CtlState            `json:"ctl_state"`
	Stats         map[string]int      `json:"stats"`
	Repeats       [][]EvRec           `json:"repeats,omitempty"`
	Trace         []TraceEv           `json:"trace,omitempty"`
	Resets        map[string][]uint64 `json:"resets,omitempty"` // component -> instants at which it acknowledged a Reset
	OpenAtReset   int                 `json:"open_at_reset"`
	InFlightAtCut int                 `json:"in_flight_at_cut"`
	BufferedAtCut int                 `json:"buffered_at_cut"`
	FinalSHA      string              `json:"final_sha"`
}

// RunJob executes a job in this process.
func RunJob(j Job) (res Result) {
	defer func() {
		if r := recover(); r != nil {
			res.Error = fmt.Sprintf("panic: %v", r)
		}
	}()
	_ = os.MkdirAll(j.Dir, 0o755)
	sim, a := BuildSim(j.Spec, j.Dir, j.NoTraceHooks)
	defer CloseSim(sim, j.Dir)
	engine := sim.GetEngine().(*timing.SerialEngine)
	if j.LoadFrom != "" {
		if err := sim.LoadCheckpoint(j.LoadFrom, j.BuildID); err != nil {
			res.Error = "LoadCheckpoint: " + err.Error()
			return
		}
		if j.Resave != "" {
			if err := sim.SaveCheckpoint(j.Resave, j.BuildID); err != nil {
				res.Error = "SaveCheckpoint(resave): " + err.Error()
				return
			}
		}
	} else {
		a.Kick()
	}
	rec := &TraceRecorder{}
	engine.AcceptHook(rec)
	if j.TraceAll {
		runTraced(j, a, engine, &res)
		return
	}
	if j.CtlAt != nil && j.LoadFrom == "" {
		_ = engine.RunUntil(timing.VTimeInPicoSec(*j.CtlAt))
		a.Ctl.State.Steps = append(a.Ctl.State.Steps, j.CtlSteps...)
		a.Ctl.TickLater()
	}
	if j.CutAt != nil {
		_ = engine.RunUntil(timing.VTimeInPicoSec(*j.CutAt))
		for _, d := range a.Drivers {
			res.InFlightAtCut += len(d.State.Outstanding)
		}
		for _, p := range a.AllPorts {
			res.BufferedAtCut += p.NumIncoming() + p.NumOutgoing()
		}
		if err := sim.SaveCheckpoint(j.SaveCut, j.BuildID); err != nil {
			res.Error = "SaveCheckpoint: " + err.Error()
			return
		}
	} else {
		_ = engine.Run()
		if len(j.EndSteps) > 0 {
			a.Ctl.State.Steps = append(a.Ctl.State.Steps, j.EndSteps...)
			a.Ctl.TickLater()
			_ = engine.Run()
		}
		if j.SaveFinal != "" {
			if err := sim.SaveCheckpoint(j.SaveFinal, j.BuildID); err != nil {
				res.Error = "SaveCheckpoint(final): " + err.Error()
				return
			}
			if b, err := os.ReadFile(j.SaveFinal); err == nil {
				h := sha256.Sum256(b)
				res.FinalSHA = hex.EncodeToString(h[:])
			}
		}
	}
	res.Events = rec.Events
	res.EndTime = uint64(engine.CurrentTime())
	res.NextID = timing.GetIDGeneratorNextID()
	for _, d := range a.Drivers {
		res.DriverState = append(res.DriverState, d.State)
	}
	res.CtlState = a.Ctl.State
	return
}

// ChildMain is called from TestMain: when VERIF_CHILD names a job file the
// process runs that job, writes the result and exits.
func ChildMain() {
	p := os.Getenv("VERIF_CHILD")
	if p == "" {
		return
	}
	b, err := os.ReadFile(p)
	if err != nil {
		fmt.Fprintln(os.Stderr, err)
		os.Exit(3)
	}
	var j Job
	if err := json.Unmarshal(b, &j); err != nil {
		fmt.Fprintln(os.Stderr, err)
		os.Exit(3)
	}
	res := RunJob(j)
	if j.Repeat > 1 {
		res.Repeats = append(res.Repeats, res.Events)
		for i := 1; i < j.Repeat; i++ {
			r := RunJob(j)
			if r.Error != "" && res.Error == "" {
				res.Error = fmt.Sprintf("repeat %d: %s", i, r.Error)
			}
			res.Repeats = append(res.Repeats, r.Events)
		}
	}
	out, _ := json.Marshal(res)
	if err := os.WriteFile(j.Result, out, 0o644); err != nil {
		fmt.Fprintln(os.Stderr, err)
		os.Exit(3)
	}
	os.Exit(0)
}

type resetWatch struct {
	name   string
	engine *timing.SerialEngine
	out    map[string][]uint64
}

func (w *resetWatch) Func(ctx hooking.HookCtx) {
	if ctx.Pos != messaging.HookPosPortMsgSend {
		return
	}
	if rsp, ok := ctx.Item.(memcontrolprotocol.Rsp); ok && rsp.Command == memcontrolprotocol.CmdReset {
		w.out[w.name] = append(w.out[w.name], uint64(w.engine.CurrentTime()))
	}
}

func runTraced(j Job, a *Assembly, engine *timing.SerialEngine, res *Result) {
	var endT timing.VTimeInPicoSec
	if j.ResetAt > 0 {
		// length of the uninterrupted run, measured without any hook so the
		// tracing side tables of this process stay untouched
		ids := timing.GetIDGeneratorNextID()
		e0 := timing.NewSerialEngine()
		a0 := Build(NewReg(e0), j.Spec)
		a0.Kick()
		_ = e0.Run()
		endT = e0.CurrentTime()
		timing.SetIDGeneratorNextID(ids)
	}
	tr := &RecTracer{}
	a.AttachTracer(tr)
	res.Resets = map[string][]uint64{}
	watch := func(comp messaging.Component) {
		name := comp.(interface{ Name() string }).Name()
		comp.GetPortByName("Control").AcceptHook(&resetWatch{name: name, engine: engine, out: res.Resets})
	}
	for _, lc := range a.LevelComps {
		watch(lc)
	}
	for _, b := range a.Bottoms {
		watch(b)
	}
	if j.ResetAt > 0 {
		_ = engine.RunUntil(endT * timing.VTimeInPicoSec(j.ResetAt) / 16)
		open := map[uint64]bool{}
		for _, e := range tr.Events {
			if e.Op == "start" {
				open[e.ID] = true
			} else if e.Op == "end" {
				delete(open, e.ID)
			}
		}
		res.OpenAtReset = len(open)
		var steps []CtlStep
		for _, b := range a.Bottoms {
			steps = append(steps, CtlStep{Target: string(b.GetPortByName("Control").AsRemote()), Cmd: int(memcontrolprotocol.CmdReset)})
		}
		for i := len(a.LevelComps) - 1; i >= 0; i-- {
			steps = append(steps, CtlStep{Target: string(a.LevelComps[i].GetPortByName("Control").AsRemote()), Cmd: int(memcontrolprotocol.CmdReset)})
		}
		a.Ctl.State.Steps = append(a.Ctl.State.Steps, steps...)
		a.Ctl.TickLater()
	}
	_ = engine.Run()
	res.Trace = tr.Events
	res.EndTime = uint64(engine.CurrentTime())
	res.CtlState = a.Ctl.State
}
