package memsys

import (
	"fmt"

	"github.com/sarchlab/akita/v5/mem"
	"github.com/sarchlab/akita/v5/mem/cache/writeback"
	"github.com/sarchlab/akita/v5/mem/cache/writethroughcache"
	"github.com/sarchlab/akita/v5/mem/dram"
	"github.com/sarchlab/akita/v5/mem/idealmemcontroller"
	"github.com/sarchlab/akita/v5/mem/rob"
	"github.com/sarchlab/akita/v5/mem/simplebankedmemory"
	"github.com/sarchlab/akita/v5/mem/vm"
	"github.com/sarchlab/akita/v5/messaging"
	"github.com/sarchlab/akita/v5/modeling"
	"github.com/sarchlab/akita/v5/naming"
	"github.com/sarchlab/akita/v5/noc/directconnection"
	"github.com/sarchlab/akita/v5/timing"
)

// Reg is a capturing modeling.Registrar: it keeps every entity it is handed,
// in registration order, so assemblies can be built without a
// simulation.Simulation (≈50 ms and one SQLite file per build).
type Reg struct {
	Engine      timing.Engine
	Components  []naming.Named
	Ports       []naming.Named
	Connections []naming.Named
	Resources   []naming.Named
}

func NewReg(engine timing.Engine) *Reg { return &Reg{Engine: engine} }

func (r *Reg) GetEngine() timing.Engine          { return r.Engine }
func (r *Reg) RegisterComponent(c naming.Named)  { r.Components = append(r.Components, c) }
func (r *Reg) RegisterConnection(c naming.Named) { r.Connections = append(r.Connections, c) }
func (r *Reg) RegisterResource(c naming.Named)   { r.Resources = append(r.Resources, c) }
func (r *Reg) RegisterPort(p naming.Named)       { r.Ports = append(r.Ports, p) }

// LevelSpec is one level between the requesters and the bottom memories.
type LevelSpec struct {
	Kind string `json:"kind"` // "rob" | "wb" | "wt"
	Freq uint64 `json:"freq"`

	// rob
	BufferSize int `json:"buffer_size,omitempty"`

	NumReqPerCycle int `json:"num_req_per_cycle"`

	// caches
	Log2Block   uint64 `json:"log2_block,omitempty"`
	Ways        int    `json:"ways,omitempty"`
	Sets        int    `json:"sets,omitempty"`
	Banks       int    `json:"banks,omitempty"`
	MSHR        int    `json:"mshr,omitempty"`
	BankLatency int    `json:"bank_latency,omitempty"`
	DirLatency  int    `json:"dir_latency,omitempty"`
	WritePolicy string `json:"write_policy,omitempty"` // wt only
	MaxTrans    int    `json:"max_trans,omitempty"`    // wt only
	WriteBufCap int    `json:"write_buf_cap,omitempty"`
	MaxFetch    int    `json:"max_fetch,omitempty"`
	MaxEvict    int    `json:"max_evict,omitempty"`

	PortBuf int `json:"port_buf"`
}

// BottomSpec describes the 1..N memories at the bottom. All of them work on
// global addresses over one shared storage (none of the library memories
// converts addresses), interleaved by Interleave bytes.
type BottomSpec struct {
	Kind       string `json:"kind"` // "ideal" | "banked" | "dram"
	N          int    `json:"n"`
	Interleave uint64 `json:"interleave"`
	Freq       uint64 `json:"freq"`
	PortBuf    int    `json:"port_buf"`

	// ideal
	Latency int `json:"latency,omitempty"`
	Width   int `json:"width,omitempty"`

	// banked
	NumBanks      int    `json:"num_banks,omitempty"`
	PipeWidth     int    `json:"pipe_width,omitempty"`
	PipeDepth     int    `json:"pipe_depth,omitempty"`
	StageLatency  int    `json:"stage_latency,omitempty"`
	PostBuf       int    `json:"post_buf,omitempty"`
	Log2BankIntlv uint64 `json:"log2_bank_intlv,omitempty"`

	// dram
	Preset     string `json:"preset,omitempty"`
	PagePolicy string `json:"page_policy,omitempty"`
	TransQ     int    `json:"trans_q,omitempty"`
	CmdQ       int    `json:"cmd_q,omitempty"`
}

// DriverCfg is the per-requester configuration (the script is attached later).
type DriverCfg struct {
	Freq       uint64 `json:"freq"`
	MaxOut     int    `json:"max_out"`
	PortBuf    int    `json:"port_buf"`
	RspPerTick int    `json:"rsp_per_tick"`
	Script     []Op   `json:"script"`
}

// AssemblySpec fully determines one assembly + workload.
type AssemblySpec struct {
	Drivers  []DriverCfg `json:"drivers"`
	Levels   []LevelSpec `json:"levels"`
	Bottom   BottomSpec  `json:"bottom"`
	ConnMode string      `json:"conn_mode"` // "single" | "perlink"
	ConnFreq uint64      `json:"conn_freq"`
	Capacity uint64      `json:"capacity"`
	// LineExcl: requesters keep same-line read/write pairs from being in flight
	// together and own whole lines instead of byte chunks (see DriverSpec).
	LineExcl bool `json:"line_excl,omitempty"`
	// PTLog2 > 0 adds a page table resource "PT" with that page size and a few
	// pages (used by the checkpoint checks; no component consults it).
	PTLog2  uint64 `json:"pt_log2,omitempty"`
	PTPages int    `json:"pt_pages,omitempty"`
	// StorageUnit > 0 sets the allocation unit of the backing storage.
	StorageUnit uint64 `json:"storage_unit,omitempty"`
}

// Assembly is a built AssemblySpec.
type Assembly struct {
	Spec    AssemblySpec
	Reg     modeling.Registrar
	Drivers []*Driver
	WB      []*writeback.Comp
	WT      []*writethroughcache.Comp
	ROB     []*rob.Comp
	Ideal   []*idealmemcontroller.Comp
	Banked  []*simplebankedmemory.Comp
	DRAM    []*dram.Comp
	// LevelComps[i] is the component of level i (messaging.Component).
	LevelComps []messaging.Component
	Bottoms    []messaging.Component
	Storage    *mem.Storage // backing storage shared by the bottoms
	// CacheStorages[name] is the data array of each cache.
	CacheStorages map[string]*mem.Storage
	Conns         []*directconnection.Comp
	AllPorts      []messaging.Port
	Ctl           *Ctl
	PT            vm.PageTable
}

func mkPort(reg modeling.Registrar, comp messaging.Component, name string, buf int, a *Assembly) messaging.Port {
	p := modeling.MakePortBuilder().WithRegistrar(reg).WithComponent(comp).
		WithSpec(modeling.PortSpec{BufSize: buf}).Build(name)
	comp.AssignPort(name, p)
	a.AllPorts = append(a.AllPorts, p)
	return p
}

// TopLine returns the line size that every request must stay inside: the block
// size of the first cache from the top, or 64 when there is no cache.
func (s AssemblySpec) TopLine() uint64 {
	for _, l := range s.Levels {
		if l.Kind == "wb" || l.Kind == "wt" {
			return 1 << l.Log2Block
		}
	}
	return 64
}

// MaxLine is the largest block size in the hierarchy (64 when no cache).
func (s AssemblySpec) MaxLine() uint64 {
	m := uint64(0)
	for _, l := range s.Levels {
		if l.Kind == "wb" || l.Kind == "wt" {
			if b := uint64(1) << l.Log2Block; b > m {
				m = b
			}
		}
	}
	if m == 0 {
		return 64
	}
	return m
}

// WTOverReordering reports whether some write-through-family cache sits above
// anything other than ROBs over ideal (in-order) memory controllers.
func (s AssemblySpec) WTOverReordering() bool {
	for i, l := range s.Levels {
		if l.Kind != "wt" {
			continue
		}
		inOrder := s.Bottom.Kind == "ideal"
		for _, b := range s.Levels[i+1:] {
			if b.Kind != "rob" {
				inOrder = false
			}
		}
		if !inOrder {
			return true
		}
	}
	return false
}

// Build constructs the assembly on reg (a *Reg or a *simulation.Simulation).
// Construction order is fixed so that two builds of one spec are identical.
func Build(reg modeling.Registrar, spec AssemblySpec) *Assembly {
	a := &Assembly{Spec: spec, Reg: reg, CacheStorages: map[string]*mem.Storage{}}

	sb := mem.MakeStorageBuilder().WithCapacity(spec.Capacity).WithSimulation(reg)
	if spec.StorageUnit > 0 {
		sb = sb.WithUnitSize(spec.StorageUnit)
	}
	a.Storage = sb.Build("Backing.Storage")
	if spec.PTLog2 > 0 {
		a.PT = vm.MakePageTableBuilder().WithLog2PageSize(spec.PTLog2).WithSimulation(reg).Build("PT")
		for i := 0; i < spec.PTPages; i++ {
			a.PT.Insert(vm.Page{PID: vm.PID(1 + i%3), VAddr: uint64(i) << spec.PTLog2, PAddr: uint64(i+7) << spec.PTLog2,
				PageSize: 1 << spec.PTLog2, Valid: true})
		}
	}

	// Bottom memories.
	var bottomTops []messaging.RemotePort
	for i := 0; i < spec.Bottom.N; i++ {
		name := fmt.Sprintf("Mem%d", i)
		var comp messaging.Component
		switch spec.Bottom.Kind {
		case "ideal":
			s := idealmemcontroller.DefaultSpec()
			s.Freq = timing.Freq(spec.Bottom.Freq)
			s.Latency = spec.Bottom.Latency
			s.Width = spec.Bottom.Width
			s.Capacity = spec.Capacity
			c := idealmemcontroller.MakeBuilder().WithRegistrar(reg).WithSpec(s).
				WithResources(idealmemcontroller.Resources{Storage: a.Storage}).Build(name)
			a.Ideal = append(a.Ideal, c)
			comp = c
		case "banked":
			s := simplebankedmemory.DefaultSpec()
			s.Freq = timing.Freq(spec.Bottom.Freq)
			s.NumBanks = spec.Bottom.NumBanks
			s.BankPipelineWidth = spec.Bottom.PipeWidth
			s.BankPipelineDepth = spec.Bottom.PipeDepth
			s.StageLatency = spec.Bottom.StageLatency
			s.PostPipelineBufSize = spec.Bottom.PostBuf
			s.Capacity = spec.Capacity
			s.BankSelectorLog2InterleaveSize = spec.Bottom.Log2BankIntlv
			c := simplebankedmemory.MakeBuilder().WithRegistrar(reg).WithSpec(s).
				WithResources(simplebankedmemory.Resources{Storage: a.Storage}).Build(name)
			a.Banked = append(a.Banked, c)
			comp = c
		case "dram":
			s := DRAMPreset(spec.Bottom.Preset)
			if spec.Bottom.Freq != 0 {
				s.Freq = timing.Freq(spec.Bottom.Freq)
			}
			if spec.Bottom.PagePolicy == "open" {
				s.PagePolicy = dram.PagePolicyOpen
			} else if spec.Bottom.PagePolicy == "close" {
				s.PagePolicy = dram.PagePolicyClose
			}
			if spec.Bottom.TransQ > 0 {
				s.TransactionQueueSize = spec.Bottom.TransQ
			}
			if spec.Bottom.CmdQ > 0 {
				s.CommandQueueCapacity = spec.Bottom.CmdQ
			}
			c := dram.MakeBuilder().WithRegistrar(reg).WithSpec(s).
				WithResources(dram.Resources{Storage: a.Storage}).Build(name)
			a.DRAM = append(a.DRAM, c)
			comp = c
		default:
			panic("unknown bottom kind " + spec.Bottom.Kind)
		}
		top := mkPort(reg, comp, "Top", spec.Bottom.PortBuf, a)
		mkPort(reg, comp, "Control", 4, a)
		bottomTops = append(bottomTops, top.AsRemote())
		a.Bottoms = append(a.Bottoms, comp)
	}

	mapperFor := func(below []messaging.RemotePort) mem.AddressToPortMapper {
		if len(below) == 1 {
			return &mem.SinglePortMapper{Port: below[0]}
		}
		m := mem.NewInterleavedAddressPortMapper(spec.Bottom.Interleave)
		m.LowModules = append(m.LowModules, below...)
		return m
	}

	// Levels, built bottom-up so each knows the Top port(s) below it.
	below := bottomTops
	a.LevelComps = make([]messaging.Component, len(spec.Levels))
	for i := len(spec.Levels) - 1; i >= 0; i-- {
		l := spec.Levels[i]
		name := fmt.Sprintf("L%d", i)
		var comp messaging.Component
		switch l.Kind {
		case "rob":
			if len(below) != 1 {
				panic("rob needs exactly one unit below")
			}
			s := rob.DefaultSpec()
			s.Freq = timing.Freq(l.Freq)
			s.BufferSize = l.BufferSize
			s.NumReqPerCycle = l.NumReqPerCycle
			s.BottomUnit = below[0]
			c := rob.MakeBuilder().WithRegistrar(reg).WithSpec(s).Build(name)
			a.ROB = append(a.ROB, c)
			comp = c
		case "wb":
			s := writeback.DefaultSpec()
			s.Freq = timing.Freq(l.Freq)
			s.NumReqPerCycle = l.NumReqPerCycle
			s.Log2BlockSize = l.Log2Block
			s.WayAssociativity = l.Ways
			s.NumBanks = l.Banks
			s.NumMSHREntry = l.MSHR
			s.BankLatency = l.BankLatency
			s.DirLatency = l.DirLatency
			s.TotalByteSize = uint64(l.Sets*l.Ways) << l.Log2Block
			s.WriteBufferCapacity = l.WriteBufCap
			s.MaxInflightFetch = l.MaxFetch
			s.MaxInflightEviction = l.MaxEvict
			st := mem.MakeStorageBuilder().WithCapacity(s.TotalByteSize).WithSimulation(reg).Build(name + ".Storage")
			a.CacheStorages[name] = st
			c := writeback.MakeBuilder().WithRegistrar(reg).WithSpec(s).
				WithResources(writeback.Resources{Storage: st, AddressToPortMapper: mapperFor(below)}).Build(name)
			a.WB = append(a.WB, c)
			comp = c
		case "wt":
			s := writethroughcache.DefaultSpec()
			s.Freq = timing.Freq(l.Freq)
			s.NumReqPerCycle = l.NumReqPerCycle
			s.Log2BlockSize = l.Log2Block
			s.WayAssociativity = l.Ways
			s.NumBanks = l.Banks
			s.NumMSHREntry = l.MSHR
			s.BankLatency = l.BankLatency
			s.DirLatency = l.DirLatency
			s.MaxNumConcurrentTrans = l.MaxTrans
			s.TotalByteSize = uint64(l.Sets*l.Ways) << l.Log2Block
			s.WritePolicyType = l.WritePolicy
			st := mem.MakeStorageBuilder().WithCapacity(s.TotalByteSize).WithSimulation(reg).Build(name + ".Storage")
			a.CacheStorages[name] = st
			c := writethroughcache.MakeBuilder().WithRegistrar(reg).WithSpec(s).
				WithResources(writethroughcache.Resources{Storage: st, AddressMapper: mapperFor(below)}).Build(name)
			a.WT = append(a.WT, c)
			comp = c
		default:
			panic("unknown level kind " + l.Kind)
		}
		top := mkPort(reg, comp, "Top", l.PortBuf, a)
		mkPort(reg, comp, "Bottom", l.PortBuf, a)
		mkPort(reg, comp, "Control", 4, a)
		a.LevelComps[i] = comp
		below = []messaging.RemotePort{top.AsRemote()}
	}

	// Requesters.
	targets := make([]string, len(below))
	for i, b := range below {
		targets[i] = string(b)
	}
	for i, dc := range spec.Drivers {
		ds := DriverSpec{Freq: timing.Freq(dc.Freq), MaxOut: dc.MaxOut,
			Targets: targets, Interleave: spec.Bottom.Interleave, RspPerTick: dc.RspPerTick}
		if spec.LineExcl {
			ds.LineExcl = spec.MaxLine()
		}
		d := BuildDriver(reg, fmt.Sprintf("Drv%d", i), ds, dc.Script, dc.PortBuf)
		a.Drivers = append(a.Drivers, d)
		a.AllPorts = append(a.AllPorts, d.GetPortByName("Mem"))
	}

	// Control agent (one port per controllable component, own connection).
	a.Ctl = BuildCtl(reg, "Ctl", timing.Freq(spec.ConnFreq))
	a.AllPorts = append(a.AllPorts, a.Ctl.GetPortByName("Out"))

	// Connections.
	newConn := func(name string) *directconnection.Comp {
		c := directconnection.MakeBuilder().WithRegistrar(reg).WithSpec(directconnection.Spec{Freq: timing.Freq(spec.ConnFreq)}).Build(name)
		a.Conns = append(a.Conns, c)
		return c
	}
	if spec.ConnMode == "single" {
		c := newConn("Conn")
		for _, d := range a.Drivers {
			c.PlugIn(d.GetPortByName("Mem"))
		}
		for _, lc := range a.LevelComps {
			c.PlugIn(lc.GetPortByName("Top"))
			c.PlugIn(lc.GetPortByName("Bottom"))
		}
		for _, b := range a.Bottoms {
			c.PlugIn(b.GetPortByName("Top"))
		}
	} else {
		// boundary k sits between level k-1 (or the drivers) and level k (or the bottoms)
		for k := 0; k <= len(a.LevelComps); k++ {
			c := newConn(fmt.Sprintf("Conn%d", k))
			if k == 0 {
				for _, d := range a.Drivers {
					c.PlugIn(d.GetPortByName("Mem"))
				}
			} else {
				c.PlugIn(a.LevelComps[k-1].GetPortByName("Bottom"))
			}
			if k == len(a.LevelComps) {
				for _, b := range a.Bottoms {
					c.PlugIn(b.GetPortByName("Top"))
				}
			} else {
				c.PlugIn(a.LevelComps[k].GetPortByName("Top"))
			}
		}
	}
	cc := newConn("CtlConn")
	cc.PlugIn(a.Ctl.GetPortByName("Out"))
	for _, lc := range a.LevelComps {
		cc.PlugIn(lc.GetPortByName("Control"))
	}
	for _, b := range a.Bottoms {
		cc.PlugIn(b.GetPortByName("Control"))
	}

	return a
}

// DRAMPreset returns the exported preset spec by name.
func DRAMPreset(name string) dram.Spec {
	switch name {
	case "", "DDR3":
		return dram.DefaultSpec()
	case "DDR4":
		return dram.DDR4Spec
	case "DDR5":
		return dram.DDR5Spec
	case "HBM2":
		return dram.HBM2Spec
	case "HBM3":
		return dram.HBM3Spec
	case "GDDR6":
		return dram.GDDR6Spec
	}
	panic("unknown dram preset " + name)
}

// Kick schedules the first tick of every requester.
func (a *Assembly) Kick() {
	for _, d := range a.Drivers {
		d.TickLater()
	}
}

// AllDone reports whether every requester finished its script.
func (a *Assembly) AllDone() bool {
	for _, d := range a.Drivers {
		if !d.Done() {
			return false
		}
	}
	return true
}
