package memsys

import (
	"pgregory.net/rapid"
)

// GenOpts steers the assembly generator.
type GenOpts struct {
	NeedWB       bool     // at least one write-back cache
	Bottoms      []string // allowed bottom kinds (default ideal, banked)
	MaxOps       int      // per requester (default 60)
	SingleDriver bool
	SingleLevel  bool // exactly one level
	NoROB        bool
	MinLatency   int  // minimum pipeline latency drawn for write-back caches
	WTMinLatency int  // minimum pipeline latency drawn for write-through caches (steering around a listed finding)
	Steered      *int // incremented for every draw that was steered by WTMinLatency / WTLineExcl
	WTLineExcl   bool // assemblies with a write-through-family cache above a reordering unit get LineExcl requesters
}

var freqs = []uint64{1_000_000_000, 2_000_000_000, 800_000_000, 1_500_000_000, 500_000_000}

func genFreq(rt *rapid.T, label string) uint64 {
	// mostly 1 GHz (so that components interact every cycle), sometimes others
	if rapid.IntRange(0, 9).Draw(rt, label+"Sel") < 6 {
		return 1_000_000_000
	}
	return rapid.SampledFrom(freqs).Draw(rt, label)
}

// GenAssembly draws an assembly and its workload.
func GenAssembly(rt *rapid.T, o GenOpts) AssemblySpec {
	if o.MaxOps == 0 {
		o.MaxOps = 60
	}
	if len(o.Bottoms) == 0 {
		o.Bottoms = []string{"ideal", "banked"}
	}
	spec := AssemblySpec{Capacity: 1 << 20}
	spec.ConnMode = rapid.SampledFrom([]string{"single", "perlink"}).Draw(rt, "connMode")
	spec.ConnFreq = genFreq(rt, "connFreq")

	// Levels: block sizes must not shrink toward the bottom.
	nLevels := rapid.IntRange(0, 3).Draw(rt, "nLevels")
	if o.NeedWB && nLevels == 0 {
		nLevels = 1
	}
	if o.SingleLevel {
		nLevels = 1
	}
	log2 := uint64(rapid.IntRange(4, 6).Draw(rt, "log2Top"))
	wbAt := -1
	if o.NeedWB {
		wbAt = rapid.IntRange(0, nLevels-1).Draw(rt, "wbAt")
	}
	for i := 0; i < nLevels; i++ {
		kinds := []string{"wb", "wt", "wt", "rob"}
		if o.NoROB {
			kinds = []string{"wb", "wt", "wt"}
		}
		kind := rapid.SampledFrom(kinds).Draw(rt, "kind")
		if i == wbAt {
			kind = "wb"
		}
		l := LevelSpec{Kind: kind, Freq: genFreq(rt, "lfreq"), PortBuf: rapid.IntRange(1, 8).Draw(rt, "portBuf")}
		l.NumReqPerCycle = rapid.IntRange(1, 4).Draw(rt, "reqPerCycle")
		if kind == "rob" {
			l.BufferSize = rapid.IntRange(1, 16).Draw(rt, "robSize")
		} else {
			l.Log2Block = log2
			l.Ways = rapid.IntRange(1, 4).Draw(rt, "ways")
			l.Sets = rapid.SampledFrom([]int{1, 2, 3, 4, 8}).Draw(rt, "sets")
			l.Banks = rapid.IntRange(1, 2).Draw(rt, "banks")
			l.MSHR = rapid.IntRange(1, 4).Draw(rt, "mshr")
			l.BankLatency = rapid.IntRange(max(o.MinLatency, 0), 5).Draw(rt, "bankLat")
			l.DirLatency = rapid.IntRange(max(o.MinLatency, 0), 3).Draw(rt, "dirLat")
			if kind == "wt" && o.WTMinLatency > 0 {
				if l.BankLatency < o.WTMinLatency || l.DirLatency < o.WTMinLatency {
					if o.Steered != nil {
						*o.Steered++
					}
				}
				l.BankLatency = max(l.BankLatency, o.WTMinLatency)
				l.DirLatency = max(l.DirLatency, o.WTMinLatency)
			}
			if kind == "wt" {
				l.WritePolicy = rapid.SampledFrom([]string{"write-around", "write-evict", "write-through"}).Draw(rt, "policy")
				l.MaxTrans = rapid.IntRange(1, 16).Draw(rt, "maxTrans")
			} else {
				l.WriteBufCap = rapid.IntRange(1, 8).Draw(rt, "wbufCap")
				l.MaxFetch = rapid.IntRange(1, 8).Draw(rt, "maxFetch")
				l.MaxEvict = rapid.IntRange(1, 8).Draw(rt, "maxEvict")
			}
			// the next cache below may use the same or a larger block
			if log2 < 7 && rapid.IntRange(0, 2).Draw(rt, "grow") == 0 {
				log2++
			}
		}
		spec.Levels = append(spec.Levels, l)
	}

	// Bottom.
	b := BottomSpec{Kind: rapid.SampledFrom(o.Bottoms).Draw(rt, "bottomKind"), PortBuf: rapid.IntRange(1, 8).Draw(rt, "bPortBuf")}
	b.Freq = genFreq(rt, "bfreq")
	b.N = 1
	lastIsROB := len(spec.Levels) > 0 && spec.Levels[len(spec.Levels)-1].Kind == "rob"
	if !lastIsROB && rapid.IntRange(0, 2).Draw(rt, "multiBottom") == 0 {
		b.N = rapid.IntRange(2, 4).Draw(rt, "nBottom")
	}
	b.Interleave = spec.MaxLine() << uint(rapid.IntRange(0, 2).Draw(rt, "intlvShift"))
	switch b.Kind {
	case "ideal":
		b.Latency = rapid.IntRange(0, 5).Draw(rt, "latency")
		b.Width = rapid.IntRange(1, 4).Draw(rt, "width")
	case "banked":
		b.NumBanks = rapid.IntRange(1, 4).Draw(rt, "numBanks")
		b.PipeWidth = rapid.IntRange(1, 2).Draw(rt, "pipeWidth")
		b.PipeDepth = rapid.IntRange(0, 3).Draw(rt, "pipeDepth") // 0: requests go straight to the post-pipeline buffer
		b.StageLatency = rapid.IntRange(1, 3).Draw(rt, "stageLat")
		b.PostBuf = rapid.IntRange(1, 3).Draw(rt, "postBuf")
		b.Log2BankIntlv = uint64(rapid.IntRange(4, 8).Draw(rt, "bankIntlv"))
	case "dram":
		b.Preset = rapid.SampledFrom([]string{"DDR3", "DDR4", "DDR5", "HBM2", "HBM3", "GDDR6"}).Draw(rt, "preset")
		b.Freq = 0
		b.PagePolicy = rapid.SampledFrom([]string{"open", "close"}).Draw(rt, "pagePolicy")
		b.TransQ = rapid.SampledFrom([]int{4, 8, 32}).Draw(rt, "transQ")
		b.CmdQ = rapid.SampledFrom([]int{2, 4, 8}).Draw(rt, "cmdQ")
	}
	spec.Bottom = b

	if o.WTLineExcl && spec.WTOverReordering() {
		spec.LineExcl = true
		if o.Steered != nil {
			*o.Steered++
		}
	}

	// Requesters and workload.
	nDrv := 1
	if !o.SingleDriver {
		nDrv = rapid.SampledFrom([]int{1, 1, 2, 3}).Draw(rt, "nDrivers")
	}
	line := spec.TopLine()
	nLines := rapid.IntRange(1, 12).Draw(rt, "nLines")
	lineIdx := make([]uint64, nLines)
	for i := range lineIdx {
		lineIdx[i] = uint64(rapid.IntRange(0, 63).Draw(rt, "lineIdx"))
	}
	chunk := 8
	if line < 32 {
		chunk = 4
	}
	for d := 0; d < nDrv; d++ {
		dc := DriverCfg{Freq: genFreq(rt, "dfreq"), MaxOut: rapid.IntRange(1, 16).Draw(rt, "maxOut"),
			PortBuf: rapid.IntRange(1, 8).Draw(rt, "dPortBuf"), RspPerTick: rapid.IntRange(1, 4).Draw(rt, "rspPerTick")}
		nOps := rapid.IntRange(1, o.MaxOps).Draw(rt, "nOps")
		for k := 0; k < nOps; k++ {
			li := rapid.IntRange(0, nLines-1).Draw(rt, "line")
			base := lineIdx[li] * line
			op := Op{}
			if spec.LineExcl && nDrv > 1 {
				// whole lines of the largest block size in the hierarchy are
				// owned: big line k belongs to requester k % nDrv
				big := spec.MaxLine()
				per := big / line // top lines per big line
				bigIdx := lineIdx[li]/per/uint64(nDrv)*uint64(nDrv) + uint64(d)
				base = bigIdx*big + (lineIdx[li]%per)*line
			}
			if rapid.IntRange(0, 7).Draw(rt, "gapSel") == 0 {
				op.Gap = rapid.IntRange(1, 20).Draw(rt, "gap")
			}
			op.Write = rapid.Bool().Draw(rt, "write")
			if nDrv == 1 || spec.LineExcl {
				switch rapid.IntRange(0, 3).Draw(rt, "shape") {
				case 0: // full line
					op.Addr, op.Size = base, int(line)
				case 1: // aligned word(s)
					words := int(line / 4)
					w := rapid.IntRange(0, words-1).Draw(rt, "word")
					n := rapid.IntRange(1, min(4, words-w)).Draw(rt, "nWords")
					op.Addr, op.Size = base+uint64(4*w), 4*n
				default: // arbitrary sub-range
					off := rapid.IntRange(0, int(line)-1).Draw(rt, "off")
					op.Size = rapid.IntRange(1, int(line)-off).Draw(rt, "size")
					op.Addr = base + uint64(off)
				}
				if op.Write {
					op.Data = rapid.SliceOfN(rapid.Byte(), op.Size, op.Size).Draw(rt, "data")
					if rapid.IntRange(0, 2).Draw(rt, "masked") == 0 {
						op.Mask = rapid.SliceOfN(rapid.Bool(), op.Size, op.Size).Draw(rt, "mask")
					}
				}
			} else {
				// byte ownership: chunk c of a line belongs to requester c % nDrv
				nChunks := int(line) / chunk
				var own []int
				for c := 0; c < nChunks; c++ {
					if c%nDrv == d {
						own = append(own, c)
					}
				}
				c := own[rapid.IntRange(0, len(own)-1).Draw(rt, "chunk")]
				if op.Write && rapid.IntRange(0, 3).Draw(rt, "wideMasked") == 0 {
					// a wider write whose mask only selects this requester's bytes
					op.Addr, op.Size = base, int(line)
					op.Data = rapid.SliceOfN(rapid.Byte(), op.Size, op.Size).Draw(rt, "data")
					op.Mask = make([]bool, op.Size)
					for i := range op.Mask {
						if (i/chunk)%nDrv == d {
							op.Mask[i] = rapid.Bool().Draw(rt, "m")
						}
					}
				} else {
					off := rapid.IntRange(0, chunk-1).Draw(rt, "off")
					op.Size = rapid.IntRange(1, chunk-off).Draw(rt, "size")
					op.Addr = base + uint64(c*chunk+off)
					if op.Write {
						op.Data = rapid.SliceOfN(rapid.Byte(), op.Size, op.Size).Draw(rt, "data")
						if rapid.IntRange(0, 3).Draw(rt, "masked") == 0 {
							op.Mask = rapid.SliceOfN(rapid.Bool(), op.Size, op.Size).Draw(rt, "mask")
						}
					}
				}
			}
			dc.Script = append(dc.Script, op)
		}
		spec.Drivers = append(spec.Drivers, dc)
	}
	return spec
}
