package memsys

import (
	"fmt"
	"io"
	"path/filepath"
	"reflect"
	"sort"

	"github.com/sarchlab/akita/v5/hooking"
	"github.com/sarchlab/akita/v5/mem/memcontrolprotocol"
	"github.com/sarchlab/akita/v5/modeling"
	"github.com/sarchlab/akita/v5/simulation"
	"github.com/sarchlab/akita/v5/timing"
	"github.com/sarchlab/akita/v5/tracing"
)

// TraceEv is one tracing event in emission order.
type TraceEv struct {
	Op       string `json:"op"` // start | end | tag | milestone
	ID       uint64 `json:"id"`
	Parent   uint64 `json:"parent,omitempty"`
	Kind     string `json:"kind,omitempty"`
	What     string `json:"what,omitempty"`
	Location string `json:"loc,omitempty"`
	Time     uint64 `json:"t"`
	Seq      int    `json:"seq"`
	Domain   string `json:"domain,omitempty"` // component the event was emitted on
}

// RecTracer records the full trace stream.
type RecTracer struct {
	Events []TraceEv
}

func (r *RecTracer) StartTask(t tracing.TaskStart) {
	r.Events = append(r.Events, TraceEv{Op: "start", ID: t.ID, Parent: t.ParentID, Kind: t.Kind, What: t.What, Location: t.Location, Time: uint64(t.Time), Seq: len(r.Events)})
}
func (r *RecTracer) EndTask(t tracing.TaskEnd) {
	r.Events = append(r.Events, TraceEv{Op: "end", ID: t.ID, Time: uint64(t.Time), Seq: len(r.Events)})
}
func (r *RecTracer) AddTaskTag(t tracing.TaskTag) {
	r.Events = append(r.Events, TraceEv{Op: "tag", ID: t.TaskID, What: t.What, Time: uint64(t.Time), Seq: len(r.Events)})
}
func (r *RecTracer) AddMilestone(m tracing.Milestone) {
	r.Events = append(r.Events, TraceEv{Op: "milestone", ID: m.TaskID, Kind: string(m.Kind), What: m.What, Time: uint64(m.Time), Seq: len(r.Events)})
}

// domainTracer stamps the emitting component on every event.
type domainTracer struct {
	name string
	rec  *RecTracer
}

func (d *domainTracer) stamp()                           { d.rec.Events[len(d.rec.Events)-1].Domain = d.name }
func (d *domainTracer) StartTask(t tracing.TaskStart)    { d.rec.StartTask(t); d.stamp() }
func (d *domainTracer) EndTask(t tracing.TaskEnd)        { d.rec.EndTask(t); d.stamp() }
func (d *domainTracer) AddTaskTag(t tracing.TaskTag)     { d.rec.AddTaskTag(t); d.stamp() }
func (d *domainTracer) AddMilestone(m tracing.Milestone) { d.rec.AddMilestone(m); d.stamp() }

// AttachTracer attaches tr to every component of the assembly that can be
// traced (levels, bottoms, connections are NamedHookable).
func (a *Assembly) AttachTracer(tr tracing.Tracer) int {
	n := 0
	var comps []any
	for _, c := range a.LevelComps {
		comps = append(comps, c)
	}
	for _, c := range a.Bottoms {
		comps = append(comps, c)
	}
	for _, c := range a.Drivers {
		comps = append(comps, c)
	}
	for _, c := range a.Conns {
		comps = append(comps, c)
	}
	for _, c := range comps {
		if nh, ok := c.(tracing.NamedHookable); ok {
			if rec, isRec := tr.(*RecTracer); isRec {
				tracing.CollectTrace(nh, &domainTracer{name: nh.Name(), rec: rec})
			} else {
				tracing.CollectTrace(nh, tr)
			}
			n++
		}
	}
	return n
}

// Observers selects what is attached to a run for C33.
type Observers struct {
	Sim        bool `json:"sim"`         // build in a real simulation.Simulation (idle DBTracer + port buffer tracers attached)
	VisTracing bool `json:"vis_tracing"` // Sim only: WithVisTracingOnStart (DBTracer recording into SQLite)
	RecTracer  bool `json:"rec_tracer"`  // recording tracer on every component
	Aggregate  bool `json:"aggregate"`   // total/average/busy/tag-count tracers on every component
	EngineHook bool `json:"engine_hook"` // a hook on the engine
	PortHooks  bool `json:"port_hooks"`  // a hook on every port
	BufHooks   bool `json:"buf_hooks"`   // a hook on every hookable buffer/pipeline inside the State of every level and bottom
	Monitor    bool `json:"monitor"`     // reserved
}

type nopHook struct{ n int }

func (h *nopHook) Func(hooking.HookCtx) { h.n++ }

// Outcome is what C33 compares: per requester the ordered list of responses
// (simulated time, request index, kind, data) and the final backing bytes of
// every address that was written. Generated IDs do not appear.
type Outcome struct {
	Logs    [][]RspRec        `json:"logs"`
	Backing map[uint64][]byte `json:"backing"`
	EndTime uint64            `json:"end_time"`
	Tasks   int               `json:"tasks"`
	Err     string            `json:"err,omitempty"`
	CtlLog  []CtlRsp          `json:"ctl_log,omitempty"` // control acknowledgements (time, step, success)
	// BufHooked is how many in-State buffers got a hook (not compared).
	BufHooked int `json:"buf_hooked,omitempty"`
}

// hookable is what queueing.Buffer (and anything else that can be observed
// inside a State) offers.
type hookable interface {
	AcceptHook(hooking.Hook)
}

// attachStateHooks walks v (a pointer to a component's State) and attaches h to
// every addressable value whose pointer type is hookable (queueing.Buffer
// fields, slices of them, nested structs). It returns how many were attached.
func attachStateHooks(v reflect.Value, h hooking.Hook) int {
	n := 0
	switch v.Kind() {
	case reflect.Pointer:
		if !v.IsNil() {
			n += attachStateHooks(v.Elem(), h)
		}
	case reflect.Struct:
		if v.CanAddr() && v.Addr().CanInterface() {
			if hk, ok := v.Addr().Interface().(hookable); ok {
				hk.AcceptHook(h)
				return 1
			}
		}
		for i := 0; i < v.NumField(); i++ {
			if v.Type().Field(i).IsExported() {
				n += attachStateHooks(v.Field(i), h)
			}
		}
	case reflect.Slice, reflect.Array:
		for i := 0; i < v.Len(); i++ {
			n += attachStateHooks(v.Index(i), h)
		}
	}
	return n
}

// AttachBufferHooks attaches h to every hookable buffer in the State of every
// level and bottom component.
func (a *Assembly) AttachBufferHooks(h hooking.Hook) int {
	n := 0
	var comps []any
	for _, c := range a.LevelComps {
		comps = append(comps, c)
	}
	for _, c := range a.Bottoms {
		comps = append(comps, c)
	}
	for _, c := range comps {
		v := reflect.ValueOf(c)
		for v.Kind() == reflect.Pointer || v.Kind() == reflect.Interface {
			if v.IsNil() {
				break
			}
			v = v.Elem()
		}
		if v.Kind() != reflect.Struct {
			continue
		}
		st := v.FieldByName("State")
		if st.IsValid() && st.CanAddr() {
			n += attachStateHooks(st, h)
		}
	}
	return n
}

// RunObserved runs spec with the given observers attached.
func RunObserved(spec AssemblySpec, o Observers, dir string) (out Outcome, rec *RecTracer) {
	return RunObservedCtl(spec, o, dir, 0, nil)
}

// ResetSteps is the bottom-up list of control Resets of every bottom and level
// of a (one acknowledged Reset at a time, lower units first).
func (a *Assembly) ResetSteps() []CtlStep {
	var steps []CtlStep
	for _, b := range a.Bottoms {
		steps = append(steps, CtlStep{Target: string(b.GetPortByName("Control").AsRemote()), Cmd: int(memcontrolprotocol.CmdReset)})
	}
	for i := len(a.LevelComps) - 1; i >= 0; i-- {
		steps = append(steps, CtlStep{Target: string(a.LevelComps[i].GetPortByName("Control").AsRemote()), Cmd: int(memcontrolprotocol.CmdReset)})
	}
	return steps
}

// RunObservedCtl is RunObserved with an optional mid-run control phase: when
// ctlAt > 0 the run is taken to that instant, the steps (nil: ResetSteps) are
// handed to the control agent, and the run continues to quiescence.
func RunObservedCtl(spec AssemblySpec, o Observers, dir string, ctlAt uint64, steps []CtlStep) (out Outcome, rec *RecTracer) {
	timing.ResetIDGenerator()
	var a *Assembly
	var engine *timing.SerialEngine
	var sim *simulation.Simulation
	if o.Sim {
		b := simulation.MakeBuilder().WithoutMonitoring().WithOutputFileName(filepath.Join(dir, "out"))
		if o.VisTracing {
			b = b.WithVisTracingOnStart().WithoutSourceRecording()
		}
		sim = b.Build()
		defer CloseSim(sim, dir)
		a = Build(sim, spec)
		engine = sim.GetEngine().(*timing.SerialEngine)
	} else {
		engine = timing.NewSerialEngine()
		var reg modeling.Registrar = NewReg(engine)
		a = Build(reg, spec)
	}
	if o.RecTracer {
		rec = &RecTracer{}
		a.AttachTracer(rec)
	}
	if o.Aggregate {
		all := func(tracing.TaskStart) bool { return true }
		a.AttachTracer(tracing.NewTotalTimeTracer(all))
		a.AttachTracer(tracing.NewAverageTimeTracer(all))
		a.AttachTracer(tracing.NewBusyTimeTracer(all))
		a.AttachTracer(tracing.NewTagCountTracer(all))
	}
	if o.EngineHook {
		engine.AcceptHook(&nopHook{})
	}
	if o.PortHooks {
		for _, p := range a.AllPorts {
			p.AcceptHook(&nopHook{})
		}
	}
	if o.BufHooks {
		out.BufHooked = a.AttachBufferHooks(&nopHook{})
	}
	a.Kick()
	if ctlAt > 0 {
		_ = engine.RunUntil(timing.VTimeInPicoSec(ctlAt))
		if steps == nil {
			steps = a.ResetSteps()
		}
		a.Ctl.State.Steps = append(a.Ctl.State.Steps, steps...)
		a.Ctl.TickLater()
	}
	_ = engine.Run()
	out.EndTime = uint64(engine.CurrentTime())
	out.CtlLog = append([]CtlRsp(nil), a.Ctl.State.Log...)
	out.Backing = map[uint64][]byte{}
	for _, d := range a.Drivers {
		out.Logs = append(out.Logs, append([]RspRec(nil), d.State.Log...))
		if len(d.State.Errors) > 0 {
			out.Err = d.State.Errors[0]
		}
		if !d.Done() {
			out.Err = fmt.Sprintf("requester did not finish (%d/%d)", d.State.Next, len(d.Script))
		}
		for _, op := range d.Script {
			if op.Write {
				line := op.Addr / 64 * 64
				if _, ok := out.Backing[line]; !ok {
					b, _ := a.Storage.Read(line, 128)
					out.Backing[line] = b
				}
			}
		}
	}
	if rec != nil {
		for _, e := range rec.Events {
			if e.Op == "start" {
				out.Tasks++
			}
		}
	}
	return out, rec
}

// DiffOutcome returns "" when two outcomes are equal.
func DiffOutcome(a, b Outcome) string {
	if a.Err != b.Err {
		return fmt.Sprintf("completion differs: %q vs %q", a.Err, b.Err)
	}
	if a.EndTime != b.EndTime {
		return fmt.Sprintf("end time %d vs %d", a.EndTime, b.EndTime)
	}
	if len(a.CtlLog) != len(b.CtlLog) {
		return fmt.Sprintf("%d vs %d control acknowledgements", len(a.CtlLog), len(b.CtlLog))
	}
	for i := range a.CtlLog {
		if a.CtlLog[i] != b.CtlLog[i] {
			return fmt.Sprintf("control acknowledgement %d: %+v vs %+v", i, a.CtlLog[i], b.CtlLog[i])
		}
	}
	for d := range a.Logs {
		if len(a.Logs[d]) != len(b.Logs[d]) {
			return fmt.Sprintf("requester %d got %d vs %d responses", d, len(a.Logs[d]), len(b.Logs[d]))
		}
		for i := range a.Logs[d] {
			x, y := a.Logs[d][i], b.Logs[d][i]
			if x.Time != y.Time || x.Op != y.Op || x.Write != y.Write || string(x.Data) != string(y.Data) {
				return fmt.Sprintf("requester %d response %d: (t=%d op=%d data=%x) vs (t=%d op=%d data=%x)", d, i, x.Time, x.Op, x.Data, y.Time, y.Op, y.Data)
			}
		}
	}
	var lines []uint64
	for l := range a.Backing {
		lines = append(lines, l)
	}
	sort.Slice(lines, func(i, j int) bool { return lines[i] < lines[j] })
	for _, l := range lines {
		if string(a.Backing[l]) != string(b.Backing[l]) {
			return fmt.Sprintf("final backing memory at %#x differs", l)
		}
	}
	return ""
}

var _ = io.Discard
