package memsys

import (
	"encoding/json"
	"fmt"
	"os"
	"os/exec"
	"path/filepath"
)

// RunChild runs the job in a fresh process (re-exec of the test binary).
func RunChild(j Job) (Result, error) {
	_ = os.MkdirAll(j.Dir, 0o755)
	jobFile := filepath.Join(j.Dir, "job.json")
	j.Result = filepath.Join(j.Dir, "result.json")
	b, _ := json.Marshal(j)
	if err := os.WriteFile(jobFile, b, 0o644); err != nil {
		return Result{}, err
	}
	cmd := exec.Command(os.Args[0], "-test.run", "^$")
	cmd.Env = append(os.Environ(), "VERIF_CHILD="+jobFile, "VERIF_EVIDENCE_OUT=")
	out, err := cmd.CombinedOutput()
	if err != nil {
		return Result{}, fmt.Errorf("child failed: %v\n%s", err, tail(string(out), 3000))
	}
	rb, err := os.ReadFile(j.Result)
	if err != nil {
		return Result{}, fmt.Errorf("child wrote no result: %v\n%s", err, tail(string(out), 3000))
	}
	var res Result
	if err := json.Unmarshal(rb, &res); err != nil {
		return Result{}, err
	}
	return res, nil
}

func tail(s string, n int) string {
	if len(s) > n {
		return s[len(s)-n:]
	}
	return s
}
