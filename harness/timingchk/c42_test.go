package timingchk

import (
	"math/big"
	"testing"

	"github.com/sarchlab/akita/v5/timing"
	"pgregory.net/rapid"

	"verif/harness/kit"
)

type c42Case struct {
	Freq uint64 `json:"freq"`
	T    uint64 `json:"t"`
	N    int    `json:"n"`
}

var two64 = new(big.Int).Lsh(big.NewInt(1), 64)

func genFreq(rt *rapid.T) uint64 {
	switch rapid.IntRange(0, 5).Draw(rt, "fclass") {
	case 0:
		return rapid.SampledFrom([]uint64{1, 2, 3, 7, 10, 1000, 1e6, 1e9, 1e12, 999999999999, 500000000000, 333333333333, 1500000000, 3000000000, 800000000, 7000000}).Draw(rt, "f")
	case 1:
		return rapid.Uint64Range(1, 1000).Draw(rt, "f")
	case 2: // divisors of 1e12: 2^a*5^b
		a := rapid.IntRange(0, 12).Draw(rt, "a")
		b := rapid.IntRange(0, 12).Draw(rt, "b")
		f := uint64(1)
		for i := 0; i < a; i++ {
			f *= 2
		}
		for i := 0; i < b; i++ {
			f *= 5
		}
		return f
	default:
		return rapid.Uint64Range(1, 1_000_000_000_000).Draw(rt, "f")
	}
}

func TestC42(t *testing.T) {
	s := kit.Begin(t, "C42", "freq",
		"f in [1,1e12] (extremes, divisors 2^a5^b of 1e12, small, uniform); t from {small, k*period+{-1,0,1}, within a few periods of the largest multiple of the period below 2^64, 2^64-k}; n>=0 with the exact result < 2^64; cases whose exact result does not fit 64 bits are constructed out per operation (the operation is skipped, not the case). Oracle math/big. Non-trivial: t not a multiple of the period and (period does not divide 1e12 exactly or t within 4 periods of 2^64)")
	defer s.End()

	check := func(f kit.Failer, c c42Case) {
		fr := timing.Freq(c.Freq)
		period := new(big.Int).Div(big.NewInt(1_000_000_000_000), new(big.Int).SetUint64(c.Freq))
		if got := uint64(fr.Period()); new(big.Int).SetUint64(got).Cmp(period) != 0 {
			s.Fail(f, c, "period", "Period()=%d want %s", got, period)
		}
		tb := new(big.Int).SetUint64(c.T)
		q, r := new(big.Int).QuoRem(tb, period, new(big.Int))
		// cycle
		if got := fr.Cycle(timing.VTimeInPicoSec(c.T)); new(big.Int).SetUint64(got).Cmp(q) != 0 {
			s.Fail(f, c, "cycle", "Cycle(%d)=%d want %s", c.T, got, q)
		}
		this := new(big.Int).Mul(q, period)
		if r.Sign() != 0 {
			this.Add(this, period)
		}
		next := new(big.Int).Add(new(big.Int).Mul(q, period), period)
		if this.Cmp(two64) < 0 {
			if got := uint64(fr.ThisTick(timing.VTimeInPicoSec(c.T))); new(big.Int).SetUint64(got).Cmp(this) != 0 {
				sig := "thistick"
				if new(big.Int).Add(tb, period).Cmp(two64) >= 0 {
					sig = "thistick-near-2^64"
				}
				s.Fail(f, c, sig, "Freq(%d).ThisTick(%d)=%d want %s", c.Freq, c.T, got, this)
			}
			if got := uint64(fr.NoEarlierThan(timing.VTimeInPicoSec(c.T))); new(big.Int).SetUint64(got).Cmp(this) != 0 {
				sig := "noearlierthan"
				if new(big.Int).Add(tb, period).Cmp(two64) >= 0 {
					sig = "thistick-near-2^64"
				}
				s.Fail(f, c, sig, "Freq(%d).NoEarlierThan(%d)=%d want %s", c.Freq, c.T, got, this)
			}
			nl := new(big.Int).Add(this, new(big.Int).Mul(big.NewInt(int64(c.N)), period))
			if nl.Cmp(two64) < 0 {
				if got := uint64(fr.NCyclesLater(c.N, timing.VTimeInPicoSec(c.T))); new(big.Int).SetUint64(got).Cmp(nl) != 0 {
					sig := "ncycleslater"
					if new(big.Int).Add(tb, period).Cmp(two64) >= 0 {
						sig = "thistick-near-2^64"
					}
					s.Fail(f, c, sig, "Freq(%d).NCyclesLater(%d,%d)=%d want %s", c.Freq, c.N, c.T, got, nl)
				}
			}
		}
		if next.Cmp(two64) < 0 {
			if got := uint64(fr.NextTick(timing.VTimeInPicoSec(c.T))); new(big.Int).SetUint64(got).Cmp(next) != 0 {
				s.Fail(f, c, "nexttick", "Freq(%d).NextTick(%d)=%d want %s", c.Freq, c.T, got, next)
			}
		}
		divides := new(big.Int).Mul(period, new(big.Int).SetUint64(c.Freq)).Cmp(big.NewInt(1_000_000_000_000)) == 0
		nearTop := new(big.Int).Add(tb, new(big.Int).Mul(period, big.NewInt(4))).Cmp(two64) >= 0
		cl := "mid"
		if nearTop {
			cl = "near-2^64"
		}
		s.Note(c, r.Sign() != 0 && (!divides || nearTop), cl)
	}

	var c c42Case
	if ok, err := kit.LoadReplay("C42", "freq", &c); ok {
		if err != nil {
			t.Fatal(err)
		}
		check(t, c)
		return
	} else if kit.ReplayMode() {
		t.Skip()
	}

	kit.SetChecks(100_000, 1_000_000)
	rapid.Check(t, func(rt *rapid.T) {
		c := c42Case{Freq: genFreq(rt)}
		period := 1_000_000_000_000 / c.Freq
		maxMul := (^uint64(0) / period) * period
		switch rapid.IntRange(0, 5).Draw(rt, "tclass") {
		case 0:
			c.T = rapid.Uint64Range(0, 5000).Draw(rt, "t")
		case 1:
			k := rapid.Uint64Range(0, 1_000_000).Draw(rt, "k")
			d := rapid.Int64Range(-2, 2).Draw(rt, "d")
			c.T = k*period + uint64(d)
		case 2:
			k := rapid.Uint64Range(0, 4).Draw(rt, "k")
			d := rapid.Int64Range(-3, 3).Draw(rt, "d")
			c.T = maxMul - k*period + uint64(d)
		case 3:
			c.T = ^uint64(0) - rapid.Uint64Range(0, 5000).Draw(rt, "k")
		default:
			c.T = rapid.Uint64().Draw(rt, "t")
		}
		// n such that ThisTick + n*period fits
		room := (^uint64(0) - c.T) / period
		if room > 1<<40 {
			room = 1 << 40
		}
		c.N = int(rapid.Uint64Range(0, room).Draw(rt, "n"))
		check(rt, c)
	})
}
