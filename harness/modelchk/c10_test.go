package modelchk

import (
	"fmt"
	"testing"

	"pgregory.net/rapid"

	"verif/harness/kit"
)

var c10ConnFreqs = []uint64{1_000_000_000, 1_000_000_000, 2_000_000_000, 500_000_000, 1_500_000_000, 3_000_000_000, 800_000_000, 7_000_000}

// genC10: one direct connection, 2-6 plugged ports owned by 2-6 agents,
// bursty refilling senders and receivers that stall / drain slowly.
func genC10(rt *rapid.T) netCase {
	c, byConn := genNetTopology(rt, 1, 1, 2, 6, 6, c10ConnFreqs)
	per := period(c.ConnFreq[0])
	for ai := range c.Agents {
		a := &c.Agents[ai]
		if len(a.Ports) == 0 {
			continue
		}
		if rapid.IntRange(0, 11).Draw(rt, "nodrain") == 0 {
			a.Drain = false
		}
		ns := rapid.IntRange(0, 4).Draw(rt, "nsends")
		for i := 0; i < ns; i++ {
			port, da, dp, ok := genRoute(rt, c, byConn, ai)
			if !ok {
				continue
			}
			n := rapid.IntRange(1, 4).Draw(rt, "n")
			if rapid.IntRange(0, 3).Draw(rt, "bigburst") == 0 {
				n = rapid.IntRange(5, 12).Draw(rt, "nbig")
			}
			a.Sends = append(a.Sends, netSend{At: genTime(rt, per, 8), Port: port, DstA: da, DstP: dp, N: n})
		}
		nf := rapid.IntRange(0, 2).Draw(rt, "nfwds")
		for i := 0; i < nf; i++ {
			port, da, dp, ok := genRoute(rt, c, byConn, ai)
			if !ok {
				continue
			}
			a.Fwds = append(a.Fwds, netFwd{On: rapid.IntRange(0, 6).Draw(rt, "on"), Port: port, DstA: da, DstP: dp, N: rapid.IntRange(1, 3).Draw(rt, "fn")})
		}
		if a.Drain {
			nst := rapid.IntRange(0, 2).Draw(rt, "nstalls")
			for i := 0; i < nst; i++ {
				from := genTime(rt, per, 10)
				ln := uint64(rapid.IntRange(1, 6).Draw(rt, "stalllen"))
				if rapid.IntRange(0, 2).Draw(rt, "longstall") == 0 {
					ln = uint64(rapid.IntRange(10, 60).Draw(rt, "stalllong"))
				}
				a.Stalls = append(a.Stalls, netStall{From: from, To: from + ln*per + uint64(rapid.IntRange(0, 1).Draw(rt, "stalloff"))})
			}
		}
	}
	return c
}

func c10Classes(c netCase, r *netRun) (classes []string, nontrivial bool) {
	srcs := map[string]bool{}
	pairs := map[string]bool{}
	for _, d := range r.rec.delivered {
		srcs[string(d.Msg.Meta().Src)] = true
		pairs[string(d.Msg.Meta().Src)+">"+d.Port] = true
	}
	nports := 0
	for _, a := range c.Agents {
		nports += len(a.Ports)
	}
	classes = append(classes, fmt.Sprintf("ports=%d", nports))
	if len(srcs) >= 3 {
		classes = append(classes, "sources>=3")
	}
	if r.rec.fullWhileOtherDelivered {
		classes = append(classes, "receiver-full-while-other-port-served")
	}
	if r.rec.sendBlocked > 0 {
		classes = append(classes, "sender-saw-full-port(refill-on-NotifyPortFree)")
	}
	classes = append(classes, asymClasses(c, r)...)
	full := false
	for p, m := range r.rec.maxInOcc {
		if m >= r.rec.capOfPort[p] {
			full = true
		}
	}
	if full {
		classes = append(classes, "some-incoming-buffer-filled")
	}
	long := false
	for _, a := range c.Agents {
		for _, s := range a.Stalls {
			if s.To-s.From >= 10*period(c.ConnFreq[0]) {
				long = true
			}
		}
	}
	if long {
		classes = append(classes, "long-stall(>=10 periods)")
	}
	if r.allDrain() {
		classes = append(classes, "all-drain(exactly-once-at-quiescence)")
	} else {
		classes = append(classes, "has-non-draining-agent")
	}
	if len(r.rec.sent) == 0 {
		classes = append(classes, "no-traffic")
	}
	if len(r.rec.sent) >= 20 {
		classes = append(classes, "messages>=20")
	}
	mix := map[int]bool{}
	for _, a := range c.Agents {
		if len(a.Ports) > 0 {
			mix[a.Kind] = true
		}
	}
	if len(mix) == 2 {
		classes = append(classes, "mixed-ticking+event-driven")
	}
	return classes, r.rec.fullWhileOtherDelivered && len(srcs) >= 3
}

func TestC10DirectConnection(t *testing.T) {
	s := kit.Begin(t, "C10", "oneconn",
		"one direct connection (1/2/0.5/1.5/3 GHz, 800 MHz, 7 MHz), 2-6 plugged ports (caps 1-4; 19% with different incoming/outgoing capacities via messaging.NewPort) owned by 2-6 ticking/event-driven agents; per agent 0-4 timer bursts of 1-12 messages (times k*period, k<=8, 40% off-edge), 0-2 receipt-driven forwards, senders keep the backlog in State and refill on NotifyPortFree; receivers: 0-2 read stalls of 1-60 periods, ticking receivers read at most 0(all)/1/2/3 messages per port per tick, 8% never read. Oracle from port hooks: every Recvd is a sent message, at most once, at the port named by Dst, DeepEqual to what was sent, not before it was sent; per (src,dst) deliveries are a prefix of the sends in order; what the owner reads = what was delivered, in order; modelled incoming occupancy never exceeds the capacity; at Run's return no outgoing head is deliverable and, when all receivers drain, every sent message was delivered exactly once and consumed. Non-trivial: a delivery happened while another port of the connection was full with traffic pending for it, and >=3 distinct source ports had messages delivered")
	defer s.End()
	s.Assume("message identity = unique MsgMeta.ID assigned by the harness; 'unmodified' = reflect.DeepEqual of the message value seen by the Recvd hook / RetrieveIncoming and the value passed to Send")

	run := func(f kit.Failer, c netCase) {
		r, ok, sig, msg := runNet(c, false)
		if !ok {
			s.Fail(f, c, sig, "%s", msg)
			return
		}
		probs := r.deliveryProblems()
		if len(probs) == 0 {
			probs = r.quiescenceProblems()
		}
		if len(probs) == 0 && r.allDrain() {
			probs = r.undeliveredProblems()
			if len(probs) == 0 {
				probs = r.conservationProblems()
			}
		}
		if len(probs) > 0 {
			s.Fail(f, c, probs[0].sig, "%s", probs[0].msg)
			return
		}
		classes, nt := c10Classes(c, r)
		s.AddExtra("messages", len(r.rec.sent))
		s.AddExtra("events", r.rec.events)
		s.Note(c, nt, classes...)
	}

	var c netCase
	if ok, err := kit.LoadReplay("C10", "oneconn", &c); ok {
		if err != nil {
			t.Fatal(err)
		}
		if err := validNetCase(c); err != nil {
			t.Fatal(err)
		}
		run(t, c)
		return
	} else if kit.ReplayMode() {
		t.Skip()
	}

	kit.SetChecks(25_000, 300_000)
	rapid.Check(t, func(rt *rapid.T) { run(rt, genC10(rt)) })
}
