package modelchk

import (
	"fmt"
	"testing"

	"pgregory.net/rapid"

	"verif/harness/kit"
)

var c10ConnFreqs = []uint64{1_000_000_000, 1_000_000_000, 2_000_000_000, 500_000_000, 1_500_000_000, 3_000_000_000, 800_000_000, 7_000_000}

// genC10: one direct connection, 2-6 plugged ports owned by 2-6 agents,
// bursty refilling senders and receivers that stall / drain slowly.
func genC10(rt *rapid.T) netCase {
	c, byConn := genNetTopology(rt, 1, 1, 2, 6, 6, c10ConnFreqs)
	per := period(c.ConnFreq[0])
	for ai := range c.Agents {
		a := &c.Agents[ai]
		if len(a.Ports) == 0 {
			continue
		}
		if rapid.IntRange(0, 11).Draw(rt, "nodrain") == 0 {
			a.Drain = false
		}
		ns := rapid.IntRange(0, 4).Draw(rt, "nsends")
		for i := 0; i < ns; i++ {
			port, da, dp, ok := genRoute(rt, c, byConn, ai)
			if !ok {
				continue
			}
			n := rapid.IntRange(1, 4).Draw(rt, "n")
			if rapid.IntRange(0, 3).Draw(rt, "bigburst") == 0 {
				n = rapid.IntRange(5, 12).Draw(rt, "nbig")
			}
			a.Sends = append(a.Sends, netSend{At: genTime(rt, per, 8), Port: port, DstA: da, DstP: dp, N: n})
		}
		nf := rapid.IntRange(0, 2).Draw(rt, "nfwds")
		for i := 0; i < nf; i++ {
			port, da, dp, ok := genRoute(rt, c, byConn, ai)
			if !ok {
				continue
			}
			a.Fwds = append(a.Fwds, netFwd{On: rapid.IntRange(0, 6).Draw(rt, "on"), Port: port, DstA: da, DstP: dp, N: rapid.IntRange(1, 3).Draw(rt, "fn")})
		}
		if a.Drain {
			nst := rapid.IntRange(0, 2).Draw(rt, "nstalls")
			for i := 0; i < nst; i++ {
				from := genTime(rt, per, 10)
				ln := uint64(rapid.IntRange(1, 6).Draw(rt, "stalllen"))
				if rapid.IntRange(0, 2).Draw(rt, "longstall") == 0 {
					ln = uint64(rapid.IntRange(10, 60).Draw(rt, "stalllong"))
				}
				a.Stalls = append(a.Stalls, netStall{From: from, To: from + ln*per + uint64(rapid.IntRange(0, 1).Draw(rt, "stalloff"))})
			}
		}
	}
	return c
}

// genManyPorts: one direct connection with 65-200 plugged ports. Most ports
// are idle receivers owned by one or two bulk agents; a few active agents own
// the sender ports. The receiver plugged in as port #k fills up and is not
// read (never, or for 20-80 periods) while a sender keeps a backlog for it;
// later, when the connection has gone quiet, single messages are sent from
// other source ports to idle receivers at drawn plug-in indices: k+64j for
// about half of them (construction, not hope, makes index arithmetic modulo
// the machine word size reachable), any other index for the rest.
func genManyPorts(rt *rapid.T, connFreqs []uint64) netCase {
	var c netCase
	c.ConnFreq = []uint64{rapid.SampledFrom(connFreqs).Draw(rt, "connfreq")}
	per := period(c.ConnFreq[0])
	n := rapid.IntRange(65, 200).Draw(rt, "nports")
	k := rapid.IntRange(0, n-65).Draw(rt, "stalledidx")

	newAgent := func(label string) netAgent {
		a := netAgent{Drain: true, Kind: kindEvent}
		if rapid.IntRange(0, 9).Draw(rt, label+"kind") >= 6 {
			a.Kind = kindTicking
			a.Freq = rapid.SampledFrom(c09AgentFreqs).Draw(rt, label+"freq")
			a.PerAct = rapid.IntRange(0, 3).Draw(rt, label+"peract")
		}
		return a
	}
	// agent 0: owner of the stalled receiver
	stalled := newAgent("stalled")
	if rapid.IntRange(0, 2).Draw(rt, "stallforever") != 0 {
		stalled.Drain = false
	} else {
		stalled.Stalls = []netStall{{From: 0, To: uint64(rapid.IntRange(20, 80).Draw(rt, "stallperiods")) * per}}
	}
	c.Agents = append(c.Agents, stalled)
	nActive := rapid.IntRange(2, 4).Draw(rt, "nactive")
	for i := 0; i < nActive; i++ {
		c.Agents = append(c.Agents, newAgent("active"))
	}
	nBulk := rapid.IntRange(1, 2).Draw(rt, "nbulk")
	for i := 0; i < nBulk; i++ {
		c.Agents = append(c.Agents, newAgent("bulk"))
	}
	firstBulk := 1 + nActive

	// owners by plug-in index
	owner := make([]int, n)
	for i := range owner {
		owner[i] = -1
	}
	owner[k] = 0
	ns := rapid.IntRange(2, 5).Draw(rt, "nsenders")
	var senders []int
	for len(senders) < ns {
		i := rapid.IntRange(0, n-1).Draw(rt, "senderidx")
		if owner[i] != -1 {
			continue
		}
		owner[i] = 1 + rapid.IntRange(0, nActive-1).Draw(rt, "senderowner")
		senders = append(senders, i)
	}
	for i := range owner {
		if owner[i] != -1 {
			continue
		}
		if rapid.IntRange(0, 9).Draw(rt, "fillowner") == 0 {
			owner[i] = 1 + rapid.IntRange(0, nActive-1).Draw(rt, "fillactive")
		} else {
			owner[i] = firstBulk + rapid.IntRange(0, nBulk-1).Draw(rt, "fillbulk")
		}
	}
	slot := make([]netSlot, n)
	for i, o := range owner {
		cp := rapid.IntRange(1, 4).Draw(rt, "cap")
		if i == k {
			cp = rapid.IntRange(1, 2).Draw(rt, "stalledcap")
		}
		pt := netPort{Conn: 0, Cap: cp}
		if rapid.IntRange(0, 5).Draw(rt, "asym") == 0 {
			if oc := rapid.IntRange(1, 4).Draw(rt, "outcap"); oc != cp {
				pt.OutCap = oc
			}
		}
		c.Agents[o].Ports = append(c.Agents[o].Ports, pt)
		slot[i] = netSlot{A: o, P: len(c.Agents[o].Ports) - 1}
	}
	c.Plug = slot
	portAt := func(i int) netPort { return c.Agents[slot[i].A].Ports[slot[i].P] }
	send := func(from, to int, at uint64, cnt int) {
		a := &c.Agents[slot[from].A]
		a.Sends = append(a.Sends, netSend{At: at, Port: slot[from].P, DstA: slot[to].A, DstP: slot[to].P, N: cnt})
	}

	// the blocker(s): fill receiver #k and keep a backlog for it
	nb := rapid.IntRange(1, 2).Draw(rt, "nblockers")
	for b := 0; b < nb; b++ {
		x := senders[b]
		cnt := portAt(k).Cap + portAt(x).outCap() + rapid.IntRange(0, 3).Draw(rt, "backlog")
		send(x, k, genTime(rt, per, 2), cnt)
	}
	// quiet single sends afterwards
	nq := rapid.IntRange(2, 7).Draw(rt, "nquiet")
	for q := 0; q < nq; q++ {
		from := senders[rapid.IntRange(0, len(senders)-1).Draw(rt, "quietfrom")]
		var to int
		if rapid.IntRange(0, 1).Draw(rt, "congruent") == 0 {
			jmax := (n - 1 - k) / 64
			to = k + 64*rapid.IntRange(1, jmax).Draw(rt, "j")
		} else {
			to = rapid.IntRange(0, n-1).Draw(rt, "quietto")
		}
		if to == from {
			continue
		}
		at := uint64(rapid.IntRange(4, 30).Draw(rt, "quietk")) * per
		if rapid.IntRange(0, 3).Draw(rt, "quietoffq") == 0 {
			at += rapid.Uint64Range(0, per-1).Draw(rt, "quietoff")
		}
		send(from, to, at, rapid.IntRange(1, 2).Draw(rt, "quietn"))
	}
	// some ordinary traffic between arbitrary ports
	nn := rapid.IntRange(0, 3).Draw(rt, "nnoise")
	for q := 0; q < nn; q++ {
		from := rapid.IntRange(0, n-1).Draw(rt, "noisefrom")
		to := rapid.IntRange(0, n-1).Draw(rt, "noiseto")
		if from == to {
			continue
		}
		send(from, to, genTime(rt, per, 12), rapid.IntRange(1, 4).Draw(rt, "noisen"))
	}
	return c
}

// manyPortClasses labels what the many-ports machinery actually reached.
func manyPortClasses(c netCase, r *netRun) []string {
	var cl []string
	for _, ps := range r.rec.portsOfConn {
		if len(ps) > 64 {
			cl = append(cl, "ports>64")
			break
		}
	}
	if r.rec.stalledFullBlocked {
		cl = append(cl, "stalled-full-receiver-with-blocked-sender")
	}
	if r.rec.quietCongruentSend > 0 {
		cl = append(cl, "quiet-send-to-index-congruent-mod-64")
	}
	if r.rec.congruentSend > 0 {
		cl = append(cl, "send-to-index-congruent-mod-64-of-stalled-full-receiver")
	}
	if r.rec.nonCongruentSendBlocked > 0 {
		cl = append(cl, "send-to-other-index-while-receiver-stalled-full")
	}
	return cl
}

func c10Classes(c netCase, r *netRun) (classes []string, nontrivial bool) {
	srcs := map[string]bool{}
	pairs := map[string]bool{}
	for _, d := range r.rec.delivered {
		srcs[string(d.Msg.Meta().Src)] = true
		pairs[string(d.Msg.Meta().Src)+">"+d.Port] = true
	}
	nports := 0
	for _, a := range c.Agents {
		nports += len(a.Ports)
	}
	if nports <= 6 {
		classes = append(classes, fmt.Sprintf("ports=%d", nports))
	}
	if len(srcs) >= 3 {
		classes = append(classes, "sources>=3")
	}
	if r.rec.fullWhileOtherDelivered {
		classes = append(classes, "receiver-full-while-other-port-served")
	}
	if r.rec.sendBlocked > 0 {
		classes = append(classes, "sender-saw-full-port(refill-on-NotifyPortFree)")
	}
	classes = append(classes, asymClasses(c, r)...)
	classes = append(classes, manyPortClasses(c, r)...)
	full := false
	for p, m := range r.rec.maxInOcc {
		if m >= r.rec.capOfPort[p] {
			full = true
		}
	}
	if full {
		classes = append(classes, "some-incoming-buffer-filled")
	}
	long := false
	for _, a := range c.Agents {
		for _, s := range a.Stalls {
			if s.To-s.From >= 10*period(c.ConnFreq[0]) {
				long = true
			}
		}
	}
	if long {
		classes = append(classes, "long-stall(>=10 periods)")
	}
	if r.allDrain() {
		classes = append(classes, "all-drain(exactly-once-at-quiescence)")
	} else {
		classes = append(classes, "has-non-draining-agent")
	}
	if len(r.rec.sent) == 0 {
		classes = append(classes, "no-traffic")
	}
	if len(r.rec.sent) >= 20 {
		classes = append(classes, "messages>=20")
	}
	mix := map[int]bool{}
	for _, a := range c.Agents {
		if len(a.Ports) > 0 {
			mix[a.Kind] = true
		}
	}
	if len(mix) == 2 {
		classes = append(classes, "mixed-ticking+event-driven")
	}
	return classes, r.rec.fullWhileOtherDelivered && len(srcs) >= 3
}

func TestC10DirectConnection(t *testing.T) {
	s := kit.Begin(t, "C10", "oneconn",
		"one direct connection (1/2/0.5/1.5/3 GHz, 800 MHz, 7 MHz), 2-6 plugged ports (caps 1-4; 19% with different incoming/outgoing capacities via messaging.NewPort), or in about 1 of 6 cases 65-200 plugged ports in a drawn plug-in order (most of them idle receivers of 1-2 bulk agents, 2-5 sender ports of 2-4 active agents, the receiver at drawn index k filled by a sender with a backlog and never read (2/3) or not read for 20-80 periods, then 2-7 single messages at 4-30 periods from other source ports to receivers at index k+64j (half) or any index (half), plus 0-3 ordinary bursts) owned by 2-6 ticking/event-driven agents; per agent 0-4 timer bursts of 1-12 messages (times k*period, k<=8, 40% off-edge), 0-2 receipt-driven forwards, senders keep the backlog in State and refill on NotifyPortFree; receivers: 0-2 read stalls of 1-60 periods, ticking receivers read at most 0(all)/1/2/3 messages per port per tick, 8% never read. Oracle from port hooks: every Recvd is a sent message, at most once, at the port named by Dst, DeepEqual to what was sent, not before it was sent; per (src,dst) deliveries are a prefix of the sends in order; what the owner reads = what was delivered, in order; modelled incoming occupancy never exceeds the capacity; at Run's return no outgoing head is deliverable and, when all receivers drain, every sent message was delivered exactly once and consumed. Non-trivial: a delivery happened while another port of the connection was full with traffic pending for it, and >=3 distinct source ports had messages delivered")
	defer s.End()
	s.Assume("message identity = unique MsgMeta.ID assigned by the harness; 'unmodified' = reflect.DeepEqual of the message value seen by the Recvd hook / RetrieveIncoming and the value passed to Send")

	run := func(f kit.Failer, c netCase) {
		r, ok, sig, msg := runNet(c, false)
		if !ok {
			s.Fail(f, c, sig, "%s", msg)
			return
		}
		probs := r.deliveryProblems()
		if len(probs) == 0 {
			probs = r.quiescenceProblems()
		}
		if len(probs) == 0 && r.allDrain() {
			probs = r.undeliveredProblems()
			if len(probs) == 0 {
				probs = r.conservationProblems()
			}
		}
		if len(probs) > 0 {
			s.Fail(f, c, probs[0].sig, "%s", probs[0].msg)
			return
		}
		classes, nt := c10Classes(c, r)
		s.AddExtra("messages", len(r.rec.sent))
		s.AddExtra("events", r.rec.events)
		s.Note(c, nt, classes...)
	}

	var c netCase
	if ok, err := kit.LoadReplay("C10", "oneconn", &c); ok {
		if err != nil {
			t.Fatal(err)
		}
		if err := validNetCase(c); err != nil {
			t.Fatal(err)
		}
		run(t, c)
		return
	} else if kit.ReplayMode() {
		t.Skip()
	}

	kit.SetChecks(20_000, 300_000)
	rapid.Check(t, func(rt *rapid.T) {
		if rapid.IntRange(0, 7).Draw(rt, "manyports") == 0 {
			run(rt, genManyPorts(rt, c10ConnFreqs))
			return
		}
		run(rt, genC10(rt))
	})
}
