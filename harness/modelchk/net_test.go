package modelchk

// Shared machinery of the C09 / C10 checks: a small network of harness agents
// (ticking modeling.Component + middleware, or EventDrivenComponent +
// processor) wired through real direct connections, executed on a real
// SerialEngine, with every port and the engine instrumented by hooks.
//
// The agents follow the documented idioms of examples/ping and
// examples/tickingping only:
//   - check CanSend before Send, keep unsent work in State and rely on
//     NotifyPortFree / NotifyRecv (delivered by the library) to be woken;
//   - a ticking agent returns true from Tick exactly when it did something;
//   - an event-driven agent re-requests ScheduleWakeAt for every timer that is
//     not due yet each time its processor runs (ping's sendScheduledPings);
//   - a ticking agent with timed work is kicked from outside with TickLater()
//     at that time (tickingping's `agentA.TickLater()` start-up call).
// So a stall at an empty event queue is never caused by the harness.

import (
	"fmt"
	"reflect"
	"sort"

	"github.com/sarchlab/akita/v5/hooking"
	"github.com/sarchlab/akita/v5/messaging"
	"github.com/sarchlab/akita/v5/modeling"
	"github.com/sarchlab/akita/v5/noc/directconnection"
	"github.com/sarchlab/akita/v5/timing"

	"verif/harness/kit"
)

// ---------------------------------------------------------------- the case

type netPort struct {
	Conn int `json:"conn"`
	Cap  int `json:"cap"` // incoming (and, when OutCap==0, outgoing) buffer capacity
	// OutCap != 0: the port is built with messaging.NewPort(comp, Cap, OutCap,
	// name) (public API; modeling.PortBuilder only builds symmetric ports).
	OutCap int `json:"out_cap,omitempty"`
}

func (p netPort) outCap() int {
	if p.OutCap != 0 {
		return p.OutCap
	}
	return p.Cap
}

// netSend is a timer-driven burst: at time At put N messages for (DstA,DstP)
// into the work queue of local port Port.
type netSend struct {
	At   uint64 `json:"at"`
	Port int    `json:"port"`
	DstA int    `json:"dst_a"`
	DstP int    `json:"dst_p"`
	N    int    `json:"n"`
}

// netFwd is a receipt-driven forward: when the agent retrieves its On-th
// message (0-based, over all its ports) it queues N messages in that very
// activation.
type netFwd struct {
	On   int `json:"on"`
	Port int `json:"port"`
	DstA int `json:"dst_a"`
	DstP int `json:"dst_p"`
	N    int `json:"n"`
}

// netStall: the agent does not read its inputs during [From,To).
type netStall struct {
	From uint64 `json:"from"`
	To   uint64 `json:"to"`
}

const (
	kindTicking = 0
	kindEvent   = 1
)

type netAgent struct {
	Kind   int        `json:"kind"`
	Freq   uint64     `json:"freq,omitempty"` // ticking only
	Drain  bool       `json:"drain"`
	PerAct int        `json:"per_act,omitempty"` // ticking only: max retrieves and max sends per port per tick (0 = no limit)
	Ports  []netPort  `json:"ports"`
	Sends  []netSend  `json:"sends,omitempty"`
	Fwds   []netFwd   `json:"fwds,omitempty"`
	Stalls []netStall `json:"stalls,omitempty"`
}

// netSlot names one port of one agent.
type netSlot struct {
	A int `json:"a"`
	P int `json:"p"`
}

type netCase struct {
	ConnFreq []uint64   `json:"conn_freq"`
	Agents   []netAgent `json:"agents"`
	// Plug, when present, is the order in which the ports are plugged into
	// their connections (a permutation of all ports); otherwise agent order.
	Plug []netSlot `json:"plug,omitempty"`
}

// ------------------------------------------------- harness component types

// netMsg is the message exchanged by the agents (a value type, like the
// examples' pingReq).
type netMsg struct {
	messaging.MsgMeta
	Payload uint64
	Tag     string
}

func makeNetMsg(id uint64, src, dst messaging.RemotePort) netMsg {
	return netMsg{
		MsgMeta: messaging.MsgMeta{ID: id, Src: src, Dst: dst, TrafficBytes: int(id%61) + 1, TrafficClass: "netMsg"},
		Payload: id*0x9E3779B97F4A7C15 + 12345,
		Tag:     fmt.Sprintf("m%d", id),
	}
}

type agTimed struct {
	At   uint64 `json:"at"`
	Port int    `json:"port"`
	Dst  string `json:"dst"`
	N    int    `json:"n"`
}

type agWork struct {
	Dst string `json:"dst"`
	ID  uint64 `json:"id"`
}

type agFwd struct {
	On   int    `json:"on"`
	Port int    `json:"port"`
	Dst  string `json:"dst"`
	N    int    `json:"n"`
}

type agStall struct {
	From uint64 `json:"from"`
	To   uint64 `json:"to"`
}

type agPortQueue struct {
	Work []agWork `json:"work"`
}

// agState is the State of both agent flavours: plain exported JSON-able
// fields, all unsent work lives here.
type agState struct {
	Timed  []agTimed     `json:"timed"`
	Queues []agPortQueue `json:"queues"`
	Fwds   []agFwd       `json:"fwds"`
	Stalls []agStall     `json:"stalls"`
	Recvd  int           `json:"recvd"`
	NextID uint64        `json:"next_id"`
}

type tickAgentSpec struct {
	Index  int    `json:"index"`
	Freq   uint64 `json:"freq"`
	Drain  bool   `json:"drain"`
	PerAct int    `json:"per_act"`
}

type evAgentSpec struct {
	Index int  `json:"index"`
	Drain bool `json:"drain"`
}

type tickAgent = modeling.Component[tickAgentSpec, agState, modeling.None]
type evAgent = modeling.EventDrivenComponent[evAgentSpec, agState, modeling.None]

// agentCore is the behaviour shared by both flavours.
type agentCore struct {
	idx    int
	drain  bool
	perAct int
	ports  []messaging.Port
	st     *agState
	rec    *netRec
	wakeAt func(t timing.VTimeInPicoSec) // event-driven only
}

func (a *agentCore) inStall(now uint64) bool {
	for _, s := range a.st.Stalls {
		if s.From <= now && now < s.To {
			return true
		}
	}
	return false
}

func (a *agentCore) enqueue(port int, dst string, n int) {
	for i := 0; i < n; i++ {
		a.st.NextID++
		id := uint64(a.idx+1)<<32 | a.st.NextID
		a.st.Queues[port].Work = append(a.st.Queues[port].Work, agWork{Dst: dst, ID: id})
	}
}

// activate is one tick / one processor invocation. Returns whether anything
// was done.
func (a *agentCore) activate(now uint64) bool {
	progress := false
	a.rec.activations++

	// 1. read inputs
	if a.drain && !a.inStall(now) {
		for pi, p := range a.ports {
			n := 0
			for a.perAct == 0 || n < a.perAct {
				m := p.RetrieveIncoming()
				if m == nil {
					break
				}
				n++
				progress = true
				a.rec.onConsumed(a.idx, pi, m)
				k := a.st.Recvd
				a.st.Recvd++
				for _, f := range a.st.Fwds {
					if f.On == k {
						a.rec.forwardsFired++
						a.enqueue(f.Port, f.Dst, f.N)
					}
				}
			}
		}
	}

	// 2. timers that are due become work; the others are re-requested
	if len(a.st.Timed) > 0 {
		remaining := make([]agTimed, 0, len(a.st.Timed))
		for _, t := range a.st.Timed {
			if t.At <= now {
				a.enqueue(t.Port, t.Dst, t.N)
				progress = true
				continue
			}
			remaining = append(remaining, t)
			if a.wakeAt != nil {
				a.wakeAt(timing.VTimeInPicoSec(t.At))
			}
		}
		a.st.Timed = remaining
	}
	if a.wakeAt != nil {
		for _, s := range a.st.Stalls {
			if s.To > now {
				a.wakeAt(timing.VTimeInPicoSec(s.To))
			}
		}
	}

	// 3. send what the ports accept; the rest stays in State
	for pi, p := range a.ports {
		q := &a.st.Queues[pi]
		n := 0
		for len(q.Work) > 0 && (a.perAct == 0 || n < a.perAct) {
			if !p.CanSend() {
				a.rec.sendBlocked++
				break
			}
			w := q.Work[0]
			p.Send(makeNetMsg(w.ID, p.AsRemote(), messaging.RemotePort(w.Dst)))
			q.Work = q.Work[1:]
			n++
			progress = true
		}
	}

	return progress
}

type tickAgentMW struct {
	comp *tickAgent
	core *agentCore
}

func (m *tickAgentMW) Tick() bool {
	return m.core.activate(uint64(m.comp.CurrentTime()))
}

type evAgentProc struct {
	core *agentCore
}

func (p *evAgentProc) Process(comp *evAgent, now timing.VTimeInPicoSec) bool {
	return p.core.activate(uint64(now))
}

// kicker delivers the external TickLater() kicks of ticking agents.
type kickEvent struct {
	timing.EventBase
	Agent int
}

type kicker struct {
	agents []*tickAgent
}

func (k *kicker) Handle(e timing.Event) error {
	k.agents[e.(kickEvent).Agent].TickLater()
	return nil
}

// ------------------------------------------------------------ the recorder

type sentRec struct {
	ID   uint64
	Src  string
	Dst  string
	Time uint64
	Seq  int
	Msg  netMsg
}

type delivRec struct {
	Port string
	Time uint64
	Seq  int
	Msg  messaging.Msg
}

type tickRec struct {
	time      uint64
	seq       int
	valid     bool
	delivered int
}

type netRec struct {
	eng *timing.SerialEngine

	seq           int
	events        int
	activations   int
	forwardsFired int
	sendBlocked   int

	connOfHandler map[string]int
	connOfPort    map[string]int
	capOfPort     map[string]int // incoming capacity
	outCapOfPort  map[string]int
	conns         []*directconnection.Comp
	lastTick      []tickRec
	ticks         []int

	sent      []sentRec
	delivered []delivRec
	consumed  []delivRec // what the agents got from RetrieveIncoming
	inOcc     map[string]int
	outOcc    map[string]int
	maxInOcc  map[string]int
	pendingTo map[string]int // sent, not yet delivered, per destination port

	overCap []string

	// same-instant bookkeeping (C09)
	sendAfterTick    int   // sends on a connection that already ticked at that instant
	swallowedWake    []int // per connection: wake causes (NotifySend / NotifyAvailable) at T after the connection's idle tick at T
	swallowedAtLast  []bool
	compensate       bool
	compensations    int
	chainFromDeliver int // sends made in an event-driven activation at the instant of a delivery

	// plug-in index of each port on its connection, and the owner's script
	c           netCase
	plugIdx     map[string]int
	ownerOfPort map[string]int
	portsOfConn [][]messaging.Port
	// per connection: full ports whose owner is not reading (by its script)
	// and on which some outgoing head was blocked at the connection's latest tick
	blockedOn               []map[string]bool
	stalledFullBlocked      bool // ... this happened at some connection tick
	congruentSend           int  // sends to a port with room whose plug-in index is congruent mod 64 to such a port
	quietCongruentSend      int  // ... while the connection was asleep (its last tick delivered nothing)
	nonCongruentSendBlocked int  // sends to a non-congruent port with room in the same situation

	// C10 non-triviality
	fullWhileOtherDelivered bool
	blockedDeliveries       int
}

type netHook struct {
	f func(ctx hooking.HookCtx)
}

func (h *netHook) Func(ctx hooking.HookCtx) { h.f(ctx) }

func (r *netRec) now() uint64 { return uint64(r.eng.CurrentTime()) }

func (r *netRec) engineHook(ctx hooking.HookCtx) {
	if ctx.Pos != timing.HookPosBeforeEvent {
		return
	}
	r.seq++
	r.events++
	evt := ctx.Item.(timing.Event)
	if ci, ok := r.connOfHandler[evt.HandlerID()]; ok {
		r.lastTick[ci] = tickRec{time: uint64(evt.Time()), seq: r.seq, valid: true}
		r.swallowedAtLast[ci] = false
		r.ticks[ci]++
		r.observeBlocked(ci, uint64(evt.Time()))
	}
}

func (r *netRec) ownerReads(port string, now uint64) bool {
	a := r.c.Agents[r.ownerOfPort[port]]
	if !a.Drain {
		return false
	}
	for _, s := range a.Stalls {
		if s.From <= now && now < s.To {
			return false
		}
	}
	return true
}

// observeBlocked runs just before a connection tick (no port lock is held):
// which full, not-being-read ports have an outgoing head waiting for them?
func (r *netRec) observeBlocked(ci int, now uint64) {
	r.blockedOn[ci] = nil
	for _, p := range r.portsOfConn[ci] {
		if r.outOcc[p.Name()] == 0 {
			continue
		}
		head := p.PeekOutgoing()
		if head == nil {
			continue
		}
		d := string(head.Meta().Dst)
		if r.inOcc[d] >= r.capOfPort[d] && !r.ownerReads(d, now) {
			if r.blockedOn[ci] == nil {
				r.blockedOn[ci] = map[string]bool{}
			}
			r.blockedOn[ci][d] = true
			r.stalledFullBlocked = true
		}
	}
}

// wakeCause is called when a port operation makes the library call
// TickNow() on connection ci (NotifySend / NotifyAvailable).
func (r *netRec) wakeCause(ci int) {
	lt := r.lastTick[ci]
	if !lt.valid || lt.time != r.now() || lt.seq == r.seq {
		return
	}
	// The connection already handled its tick at this instant.
	if lt.delivered == 0 {
		// ... and that tick made no progress, so no later tick is pending:
		// this is the shape of the listed C09 finding (TickNow deduplicated
		// against the already-handled tick).
		r.swallowedWake[ci]++
		r.swallowedAtLast[ci] = true
		if r.compensate {
			r.compensations++
			r.conns[ci].TickLater()
		}
	}
}

func (r *netRec) portHook(ctx hooking.HookCtx) {
	port := ctx.Domain.(messaging.Port)
	name := port.Name()
	ci := r.connOfPort[name]
	switch ctx.Pos {
	case messaging.HookPosPortMsgSend:
		m, _ := ctx.Item.(netMsg)
		r.sent = append(r.sent, sentRec{ID: m.ID, Src: name, Dst: string(m.Dst), Time: r.now(), Seq: r.seq, Msg: m})
		r.pendingTo[string(m.Dst)]++
		lt := r.lastTick[ci]
		if lt.valid && lt.time == r.now() && lt.seq != r.seq {
			r.sendAfterTick++
		}
		if r.outOcc[name] == 0 {
			r.wakeCause(ci)
		}
		r.outOcc[name]++
		if d := string(m.Dst); len(r.blockedOn[ci]) > 0 && r.inOcc[d] < r.capOfPort[d] {
			congruent := false
			for k := range r.blockedOn[ci] {
				if k != d && r.inOcc[k] >= r.capOfPort[k] && r.plugIdx[k]%64 == r.plugIdx[d]%64 {
					congruent = true
				}
			}
			if congruent {
				r.congruentSend++
				if lt.valid && lt.delivered == 0 && lt.time != r.now() {
					r.quietCongruentSend++
				}
			} else {
				r.nonCongruentSendBlocked++
			}
		}
	case messaging.HookPosPortMsgRetrieveOutgoing:
		r.outOcc[name]--
	case messaging.HookPosPortMsgRecvd:
		m := ctx.Item.(messaging.Msg)
		r.delivered = append(r.delivered, delivRec{Port: name, Time: r.now(), Seq: r.seq, Msg: m})
		r.inOcc[name]++
		if r.inOcc[name] > r.maxInOcc[name] {
			r.maxInOcc[name] = r.inOcc[name]
		}
		if r.inOcc[name] > r.capOfPort[name] {
			r.overCap = append(r.overCap, fmt.Sprintf("%s holds %d > cap %d at %d", name, r.inOcc[name], r.capOfPort[name], r.now()))
		}
		if lt := &r.lastTick[ci]; lt.valid && lt.seq == r.seq {
			lt.delivered++
		}
		dst := string(m.Meta().Dst)
		r.pendingTo[dst]--
		// C10 non-triviality: another port is full and has traffic waiting
		// for it while this delivery (to a different port) goes through.
		for other, occ := range r.inOcc {
			if r.fullWhileOtherDelivered {
				break
			}
			if other != name && r.connOfPort[other] == ci && occ >= r.capOfPort[other] && r.pendingTo[other] > 0 {
				r.fullWhileOtherDelivered = true
			}
		}
	case messaging.HookPosPortMsgRetrieveIncoming:
		if r.inOcc[name] == r.capOfPort[name] {
			r.wakeCause(ci)
		}
		r.inOcc[name]--
	}
}

func (r *netRec) plugIn(ci int, port messaging.Port) {
	r.plugIdx[port.Name()] = len(r.portsOfConn[ci])
	r.portsOfConn[ci] = append(r.portsOfConn[ci], port)
	r.conns[ci].PlugIn(port)
}

func (r *netRec) onConsumed(agent, port int, m messaging.Msg) {
	r.consumed = append(r.consumed, delivRec{Port: netPortName(agent, port), Time: r.now(), Seq: r.seq, Msg: m})
}

func netAgentName(i int) string   { return fmt.Sprintf("Agent%d", i) }
func netPortName(a, p int) string { return fmt.Sprintf("Agent%d.P%d", a, p) }
func netConnName(i int) string    { return fmt.Sprintf("Conn%d", i) }

// ------------------------------------------------------------- the runner

type netRun struct {
	c      netCase
	rec    *netRec
	eng    *timing.SerialEngine
	ports  [][]messaging.Port
	states []*agState
	byName map[string]messaging.Port
	endAt  uint64
}

// validNetCase reports whether the case is inside the input domain (used by
// replays of hand-edited files; generators only produce valid cases).
func validNetCase(c netCase) error {
	if len(c.ConnFreq) == 0 {
		return fmt.Errorf("no connection")
	}
	for _, f := range c.ConnFreq {
		if f == 0 || f > 1_000_000_000_000 {
			return fmt.Errorf("bad connection frequency %d", f)
		}
	}
	nports := make([]int, len(c.ConnFreq))
	for _, a := range c.Agents {
		if a.Kind == kindTicking && (a.Freq == 0 || a.Freq > 1_000_000_000_000) {
			return fmt.Errorf("bad agent frequency %d", a.Freq)
		}
		for _, p := range a.Ports {
			if p.Conn < 0 || p.Conn >= len(c.ConnFreq) || p.Cap < 1 || p.OutCap < 0 {
				return fmt.Errorf("bad port %+v", p)
			}
			nports[p.Conn]++
		}
	}
	if len(c.Plug) > 0 {
		seen := map[netSlot]bool{}
		total := 0
		for _, a := range c.Agents {
			total += len(a.Ports)
		}
		for _, sl := range c.Plug {
			if sl.A < 0 || sl.A >= len(c.Agents) || sl.P < 0 || sl.P >= len(c.Agents[sl.A].Ports) || seen[sl] {
				return fmt.Errorf("bad plug order entry %+v", sl)
			}
			seen[sl] = true
		}
		if len(seen) != total {
			return fmt.Errorf("plug order names %d of %d ports", len(seen), total)
		}
	}
	chk := func(ai, port, dstA, dstP, n int) error {
		a := c.Agents[ai]
		if port < 0 || port >= len(a.Ports) || dstA < 0 || dstA >= len(c.Agents) ||
			dstP < 0 || dstP >= len(c.Agents[dstA].Ports) || n < 0 {
			return fmt.Errorf("agent %d: bad route", ai)
		}
		if dstA == ai && dstP == port {
			return fmt.Errorf("agent %d: sends to its own port", ai)
		}
		if c.Agents[dstA].Ports[dstP].Conn != a.Ports[port].Conn {
			return fmt.Errorf("agent %d: destination on another connection", ai)
		}
		return nil
	}
	for ai, a := range c.Agents {
		for _, s := range a.Sends {
			if err := chk(ai, s.Port, s.DstA, s.DstP, s.N); err != nil {
				return err
			}
		}
		for _, f := range a.Fwds {
			if err := chk(ai, f.Port, f.DstA, f.DstP, f.N); err != nil {
				return err
			}
		}
		for _, s := range a.Stalls {
			if s.To < s.From {
				return fmt.Errorf("agent %d: bad stall", ai)
			}
		}
	}
	return nil
}

// runNet builds the network and runs it until the event queue is empty.
func runNet(c netCase, compensate bool) (run *netRun, ok bool, sig, msg string) {
	timing.ResetIDGenerator()
	eng := timing.NewSerialEngine()
	reg := modeling.NewStandaloneRegistrar(eng)
	rec := &netRec{
		eng:             eng,
		connOfHandler:   map[string]int{},
		connOfPort:      map[string]int{},
		capOfPort:       map[string]int{},
		outCapOfPort:    map[string]int{},
		c:               c,
		plugIdx:         map[string]int{},
		ownerOfPort:     map[string]int{},
		portsOfConn:     make([][]messaging.Port, len(c.ConnFreq)),
		blockedOn:       make([]map[string]bool, len(c.ConnFreq)),
		inOcc:           map[string]int{},
		outOcc:          map[string]int{},
		maxInOcc:        map[string]int{},
		pendingTo:       map[string]int{},
		lastTick:        make([]tickRec, len(c.ConnFreq)),
		ticks:           make([]int, len(c.ConnFreq)),
		swallowedWake:   make([]int, len(c.ConnFreq)),
		swallowedAtLast: make([]bool, len(c.ConnFreq)),
		compensate:      compensate,
	}
	run = &netRun{c: c, rec: rec, eng: eng, byName: map[string]messaging.Port{}}

	ok, sig, msg = kit.Guard(func() {
		eng.AcceptHook(&netHook{f: rec.engineHook})
		ph := &netHook{f: rec.portHook}

		for i, f := range c.ConnFreq {
			conn := directconnection.MakeBuilder().
				WithRegistrar(reg).
				WithSpec(directconnection.Spec{Freq: timing.Freq(f)}).
				Build(netConnName(i))
			rec.conns = append(rec.conns, conn)
			rec.connOfHandler[conn.Name()] = i
		}

		kk := &kicker{agents: make([]*tickAgent, len(c.Agents))}
		eng.RegisterHandler("Kicker", kk)
		cores := make([]*agentCore, len(c.Agents))

		for ai, a := range c.Agents {
			core := &agentCore{idx: ai, drain: a.Drain, rec: rec}
			cores[ai] = core
			var owner messaging.Component
			name := netAgentName(ai)
			switch a.Kind {
			case kindTicking:
				comp := modeling.NewBuilder[tickAgentSpec, agState, modeling.None]().
					WithEngine(eng).
					WithFreq(timing.Freq(a.Freq)).
					WithSpec(tickAgentSpec{Index: ai, Freq: a.Freq, Drain: a.Drain, PerAct: a.PerAct}).
					Build(name)
				comp.AddMiddleware(&tickAgentMW{comp: comp, core: core})
				core.st = &comp.State
				core.perAct = a.PerAct
				kk.agents[ai] = comp
				owner = comp
				reg.RegisterComponent(comp)
			default:
				comp := modeling.NewEventDrivenBuilder[evAgentSpec, agState, modeling.None]().
					WithEngine(eng).
					WithSpec(evAgentSpec{Index: ai, Drain: a.Drain}).
					WithProcessor(&evAgentProc{core: core}).
					Build(name)
				core.st = &comp.State
				core.wakeAt = comp.ScheduleWakeAt
				owner = comp
				reg.RegisterComponent(comp)
			}
			run.states = append(run.states, core.st)
			core.st.Queues = make([]agPortQueue, len(a.Ports))
			var ports []messaging.Port
			for pi, p := range a.Ports {
				pname := fmt.Sprintf("P%d", pi)
				owner.DeclarePort(pname)
				var port messaging.Port
				if p.OutCap == 0 {
					port = modeling.MakePortBuilder().
						WithRegistrar(reg).
						WithComponent(owner).
						WithSpec(modeling.PortSpec{BufSize: p.Cap}).
						Build(pname)
				} else {
					// what PortBuilder.Build does, with distinct capacities
					port = messaging.NewPort(owner, p.Cap, p.OutCap, owner.Name()+"."+pname)
					reg.RegisterPort(port)
				}
				owner.AssignPort(pname, port)
				port.AcceptHook(ph)
				if len(c.Plug) == 0 {
					rec.plugIn(p.Conn, port)
				}
				rec.ownerOfPort[port.Name()] = ai
				rec.connOfPort[port.Name()] = p.Conn
				rec.capOfPort[port.Name()] = p.Cap
				rec.outCapOfPort[port.Name()] = p.outCap()
				run.byName[port.Name()] = port
				ports = append(ports, port)
			}
			core.ports = ports
			run.ports = append(run.ports, ports)
		}

		for _, sl := range c.Plug {
			rec.plugIn(c.Agents[sl.A].Ports[sl.P].Conn, run.ports[sl.A][sl.P])
		}

		// Behaviour scripts go into State (like ping.SchedulePing and the
		// tickingping example's NumPingNeedToSend); then the timers are armed.
		for ai, a := range c.Agents {
			st := cores[ai].st
			for _, s := range a.Sends {
				st.Timed = append(st.Timed, agTimed{At: s.At, Port: s.Port, Dst: netPortName(s.DstA, s.DstP), N: s.N})
			}
			for _, f := range a.Fwds {
				st.Fwds = append(st.Fwds, agFwd{On: f.On, Port: f.Port, Dst: netPortName(f.DstA, f.DstP), N: f.N})
			}
			for _, s := range a.Stalls {
				st.Stalls = append(st.Stalls, agStall{From: s.From, To: s.To})
			}
			var times []uint64
			for _, s := range a.Sends {
				times = append(times, s.At)
			}
			for _, s := range a.Stalls {
				times = append(times, s.To)
			}
			for _, t := range times {
				if a.Kind == kindTicking {
					eng.Schedule(kickEvent{EventBase: timing.MakeEventBase(timing.VTimeInPicoSec(t), "Kicker"), Agent: ai})
				} else {
					cores[ai].wakeAt(timing.VTimeInPicoSec(t))
				}
			}
		}

		if err := eng.Run(); err != nil {
			panic(fmt.Sprintf("Run returned %v", err))
		}
	})
	run.endAt = uint64(eng.CurrentTime())
	return run, ok, sig, msg
}

// ------------------------------------------------------------ the oracles

type netProblem struct {
	sig string
	msg string
}

// quiescenceProblems is C09's oracle, evaluated when Run has returned (the
// event queue is empty, so nothing will ever happen again).
func (r *netRun) quiescenceProblems() []netProblem {
	var out []netProblem
	c := r.c
	for ai := range c.Agents {
		for pi, p := range r.ports[ai] {
			if p.NumOutgoing() == 0 {
				continue
			}
			head := p.PeekOutgoing()
			dst, found := r.byName[string(head.Meta().Dst)]
			if !found {
				out = append(out, netProblem{"harness:unknown-dst", fmt.Sprintf("%s head goes to unknown %s", p.Name(), head.Meta().Dst)})
				continue
			}
			if dst.CanDeliver() {
				ci := c.Agents[ai].Ports[pi].Conn
				sig := "stalled-outgoing:deliverable-head"
				if r.rec.swallowedAtLast[ci] {
					sig = sigC09TickNow
				}
				out = append(out, netProblem{sig, fmt.Sprintf(
					"event queue empty at %d ps but %s still holds %d outgoing message(s); head %s -> %s could be delivered (%d/%d incoming); %s",
					r.endAt, p.Name(), p.NumOutgoing(), head.(netMsg).Tag, dst.Name(), dst.NumIncoming(), r.rec.capOfPort[dst.Name()],
					r.connHistory(ci))})
			}
		}
	}
	for ai, a := range c.Agents {
		if !a.Drain {
			continue
		}
		for _, p := range r.ports[ai] {
			if n := p.NumIncoming(); n > 0 {
				out = append(out, netProblem{"unread-incoming:draining-" + kindName(a.Kind), fmt.Sprintf(
					"event queue empty at %d ps but draining %s agent %d has %d unread message(s) on %s",
					r.endAt, kindName(a.Kind), ai, n, p.Name())})
			}
		}
	}
	for ai, a := range c.Agents {
		for pi, p := range r.ports[ai] {
			if len(r.states[ai].Queues[pi].Work) > 0 && p.CanSend() {
				out = append(out, netProblem{"unsent-work:free-port-" + kindName(a.Kind), fmt.Sprintf(
					"event queue empty at %d ps but %s agent %d still has %d unsent message(s) for %s whose outgoing buffer has room (%d/%d)",
					r.endAt, kindName(a.Kind), ai, len(r.states[ai].Queues[pi].Work), p.Name(), p.NumOutgoing(), r.rec.outCapOfPort[p.Name()])})
			}
		}
		if len(r.states[ai].Timed) > 0 {
			out = append(out, netProblem{"timer-never-fired:" + kindName(a.Kind), fmt.Sprintf(
				"event queue empty at %d ps but agent %d still waits for timers %+v", r.endAt, ai, r.states[ai].Timed)})
		}
	}
	return out
}

func (r *netRun) connHistory(ci int) string {
	lt := r.rec.lastTick[ci]
	if !lt.valid {
		return netConnName(ci) + " never ticked"
	}
	return fmt.Sprintf("%s ticked %d time(s), last at %d ps (deliveries in that tick: %d, wake causes after it at the same instant: %d)",
		netConnName(ci), r.rec.ticks[ci], lt.time, lt.delivered, r.rec.swallowedWake[ci])
}

func kindName(k int) string {
	if k == kindTicking {
		return "ticking"
	}
	return "event-driven"
}

func (r *netRun) allDrain() bool {
	for _, a := range r.c.Agents {
		if !a.Drain && len(a.Ports) > 0 {
			return false
		}
	}
	return true
}

// expectedMessages is the number of messages the scripts produce when every
// receipt-driven forward fires (an upper bound otherwise).
func (r *netRun) scriptedTimerMessages() int {
	n := 0
	for _, a := range r.c.Agents {
		for _, s := range a.Sends {
			n += s.N
		}
	}
	return n
}

// conservationProblems: with every receiver draining, at quiescence the
// multiset of sent messages equals the multiset of consumed messages, and no
// scripted work is left anywhere.
func (r *netRun) conservationProblems() []netProblem {
	var out []netProblem
	sent := map[uint64]int{}
	for _, s := range r.rec.sent {
		sent[s.ID]++
	}
	got := map[uint64]int{}
	for _, d := range r.rec.consumed {
		got[d.Msg.Meta().ID]++
	}
	var ids []uint64
	for id := range sent {
		ids = append(ids, id)
	}
	for id := range got {
		if _, ok := sent[id]; !ok {
			ids = append(ids, id)
		}
	}
	sort.Slice(ids, func(i, j int) bool { return ids[i] < ids[j] })
	for _, id := range ids {
		if sent[id] != got[id] {
			out = append(out, netProblem{"conservation:sent!=consumed", fmt.Sprintf(
				"all receivers drain, queue empty at %d ps: message id %#x sent %d time(s), consumed %d time(s)", r.endAt, id, sent[id], got[id])})
			break
		}
	}
	for ai := range r.c.Agents {
		for pi := range r.ports[ai] {
			if n := len(r.states[ai].Queues[pi].Work); n > 0 {
				out = append(out, netProblem{"conservation:work-left", fmt.Sprintf(
					"all receivers drain, queue empty at %d ps: agent %d still has %d unsent message(s) for port %d", r.endAt, ai, n, pi)})
			}
		}
	}
	return out
}

// deliveryProblems is C10's oracle over the port-hook history.
func (r *netRun) deliveryProblems() []netProblem {
	var out []netProblem
	rec := r.rec
	sentByID := map[uint64]sentRec{}
	for _, s := range rec.sent {
		if _, dup := sentByID[s.ID]; dup {
			out = append(out, netProblem{"harness:duplicate-id", fmt.Sprintf("id %#x sent twice", s.ID)})
		}
		sentByID[s.ID] = s
	}
	deliveredCnt := map[uint64]int{}
	type pair struct{ src, dst string }
	orderSent := map[pair][]uint64{}
	for _, s := range rec.sent {
		k := pair{s.Src, s.Dst}
		orderSent[k] = append(orderSent[k], s.ID)
	}
	orderGot := map[pair][]uint64{}
	for _, d := range rec.delivered {
		meta := d.Msg.Meta()
		s, known := sentByID[meta.ID]
		if !known {
			out = append(out, netProblem{"delivered-never-sent", fmt.Sprintf("port %s received message id %#x that was never sent", d.Port, meta.ID)})
			continue
		}
		deliveredCnt[meta.ID]++
		if deliveredCnt[meta.ID] > 1 {
			out = append(out, netProblem{"delivered-twice", fmt.Sprintf("message %s delivered %d times (last at %s, %d ps)", s.Msg.Tag, deliveredCnt[meta.ID], d.Port, d.Time)})
		}
		if d.Port != s.Dst {
			out = append(out, netProblem{"delivered-to-wrong-port", fmt.Sprintf("message %s for %s was delivered to %s", s.Msg.Tag, s.Dst, d.Port)})
		}
		if !reflect.DeepEqual(d.Msg, messaging.Msg(s.Msg)) {
			out = append(out, netProblem{"delivered-modified", fmt.Sprintf("message %s changed in flight: sent %+v got %+v", s.Msg.Tag, s.Msg, d.Msg)})
		}
		if d.Time < s.Time || (d.Time == s.Time && d.Seq < s.Seq) {
			out = append(out, netProblem{"delivered-before-sent", fmt.Sprintf("message %s delivered at %d before sent at %d", s.Msg.Tag, d.Time, s.Time)})
		}
		k := pair{s.Src, d.Port}
		orderGot[k] = append(orderGot[k], meta.ID)
	}
	// per (src,dst) order: the deliveries are a prefix of the sends, in order
	var pairs []pair
	for k := range orderGot {
		pairs = append(pairs, k)
	}
	sort.Slice(pairs, func(i, j int) bool {
		if pairs[i].src != pairs[j].src {
			return pairs[i].src < pairs[j].src
		}
		return pairs[i].dst < pairs[j].dst
	})
	for _, k := range pairs {
		g, s := orderGot[k], orderSent[k]
		for i := range g {
			if i >= len(s) || g[i] != s[i] {
				out = append(out, netProblem{"order:per-pair", fmt.Sprintf("%s -> %s: sent order %x, delivery order %x", k.src, k.dst, s, g)})
				break
			}
		}
	}
	// what the owner reads from a port is what was delivered there, in order
	perPortDel := map[string][]uint64{}
	for _, d := range rec.delivered {
		perPortDel[d.Port] = append(perPortDel[d.Port], d.Msg.Meta().ID)
	}
	perPortGot := map[string][]uint64{}
	for _, d := range rec.consumed {
		perPortGot[d.Port] = append(perPortGot[d.Port], d.Msg.Meta().ID)
		if s, ok := sentByID[d.Msg.Meta().ID]; ok && !reflect.DeepEqual(d.Msg, messaging.Msg(s.Msg)) {
			out = append(out, netProblem{"consumed-modified", fmt.Sprintf("message %s read by the receiver differs: %+v vs %+v", s.Msg.Tag, d.Msg, s.Msg)})
		}
	}
	var pnames []string
	for p := range perPortGot {
		pnames = append(pnames, p)
	}
	sort.Strings(pnames)
	for _, p := range pnames {
		g, d := perPortGot[p], perPortDel[p]
		for i := range g {
			if i >= len(d) || g[i] != d[i] {
				out = append(out, netProblem{"consumed!=delivered", fmt.Sprintf("port %s: delivered %x, receiver read %x", p, d, g)})
				break
			}
		}
	}
	for _, o := range rec.overCap {
		out = append(out, netProblem{"incoming-over-capacity", o})
	}
	return out
}

// undeliveredAtQuiescence (all receivers draining): every sent message was
// delivered exactly once.
func (r *netRun) undeliveredProblems() []netProblem {
	var out []netProblem
	cnt := map[uint64]int{}
	for _, d := range r.rec.delivered {
		cnt[d.Msg.Meta().ID]++
	}
	for _, s := range r.rec.sent {
		if cnt[s.ID] != 1 {
			out = append(out, netProblem{"undelivered-at-quiescence", fmt.Sprintf(
				"all receivers drain and the event queue is empty at %d ps, but %s (%s -> %s, sent at %d ps) was delivered %d times",
				r.endAt, s.Msg.Tag, s.Src, s.Dst, s.Time, cnt[s.ID])})
			break
		}
	}
	return out
}
