package modelchk

import (
	"fmt"
	"testing"

	"github.com/sarchlab/akita/v5/hooking"
	"github.com/sarchlab/akita/v5/messaging"
	"github.com/sarchlab/akita/v5/modeling"
	"github.com/sarchlab/akita/v5/timing"
	"pgregory.net/rapid"

	"verif/harness/kit"
)

const (
	c12TickNow = iota
	c12TickLater
	c12NotifyRecv
	c12NotifyPortFree
	c12NumKinds
)

var c12KindName = []string{"TickNow", "TickLater", "NotifyRecv", "NotifyPortFree"}

type c12Op struct {
	Kind int `json:"kind"`
	Dup  int `json:"dup"` // the call is made Dup times in a row (>=1)
}

type c12Req struct {
	At        uint64  `json:"at"`
	Secondary bool    `json:"secondary"` // class of the helper event that issues the calls
	Ops       []c12Op `json:"ops"`
}

type c12Case struct {
	Freq          uint64    `json:"freq"`
	SecondaryComp bool      `json:"secondary_comp"` // built like a connection (secondary tick events)
	Setup         []c12Op   `json:"setup,omitempty"`
	Reqs          []c12Req  `json:"reqs,omitempty"`
	Progress      []bool    `json:"progress,omitempty"` // return value of the k-th Tick (false beyond)
	InTick        [][]c12Op `json:"in_tick,omitempty"`  // calls made from inside the k-th Tick
}

type c12Spec struct {
	Freq uint64 `json:"freq"`
}

type c12State struct {
	Ticks int `json:"ticks"`
}

type c12Comp = modeling.Component[c12Spec, c12State, modeling.None]

type c12Entry struct {
	tick     bool
	kind     int
	time     uint64
	progress bool
	evSeq    int
}

type c12Run struct {
	c     c12Case
	eng   *timing.SerialEngine
	comp  *c12Comp
	port  messaging.Port
	log   []c12Entry
	evSeq int
}

func (r *c12Run) do(ops []c12Op) {
	for _, op := range ops {
		for i := 0; i < op.Dup; i++ {
			r.log = append(r.log, c12Entry{kind: op.Kind, time: uint64(r.eng.CurrentTime()), evSeq: r.evSeq})
			switch op.Kind {
			case c12TickNow:
				r.comp.TickNow()
			case c12TickLater:
				r.comp.TickLater()
			case c12NotifyRecv:
				r.comp.NotifyRecv(r.port)
			case c12NotifyPortFree:
				r.comp.NotifyPortFree(r.port)
			}
		}
	}
}

type c12MW struct{ r *c12Run }

func (m *c12MW) Tick() bool {
	r := m.r
	st := &r.comp.State
	k := st.Ticks
	st.Ticks++
	progress := k < len(r.c.Progress) && r.c.Progress[k]
	r.log = append(r.log, c12Entry{tick: true, time: uint64(r.comp.CurrentTime()), progress: progress, evSeq: r.evSeq})
	if k < len(r.c.InTick) {
		r.do(r.c.InTick[k])
	}
	return progress
}

type c12HelperEvent struct {
	timing.EventBase
	Index int
}

type c12Helper struct{ r *c12Run }

func (h *c12Helper) Handle(e timing.Event) error {
	h.r.do(h.r.c.Reqs[e.(c12HelperEvent).Index].Ops)
	return nil
}

func runC12(c c12Case) (r *c12Run, ok bool, sig, msg string) {
	timing.ResetIDGenerator()
	r = &c12Run{c: c, eng: timing.NewSerialEngine()}
	ok, sig, msg = kit.Guard(func() {
		eng := r.eng
		reg := modeling.NewStandaloneRegistrar(eng)
		eng.AcceptHook(&netHook{f: func(ctx hooking.HookCtx) {
			if ctx.Pos == timing.HookPosBeforeEvent {
				r.evSeq++
			}
		}})
		comp := modeling.NewBuilder[c12Spec, c12State, modeling.None]().
			WithEngine(eng).
			WithFreq(timing.Freq(c.Freq)).
			WithSpec(c12Spec{Freq: c.Freq}).
			Build("Dut")
		if c.SecondaryComp {
			// exactly what directconnection.Builder does
			comp.TickingComponent = modeling.NewSecondaryTickingComponent("Dut", eng, timing.Freq(c.Freq), comp)
		}
		comp.AddMiddleware(&c12MW{r: r})
		comp.DeclarePort("In")
		r.port = modeling.MakePortBuilder().WithRegistrar(reg).WithComponent(comp).
			WithSpec(modeling.PortSpec{BufSize: 1}).Build("In")
		comp.AssignPort("In", r.port)
		r.comp = comp
		eng.RegisterHandler("Helper", &c12Helper{r: r})
		for i, q := range c.Reqs {
			ev := c12HelperEvent{EventBase: timing.MakeEventBase(timing.VTimeInPicoSec(q.At), "Helper"), Index: i}
			ev.Secondary = q.Secondary
			eng.Schedule(ev)
		}
		r.do(c.Setup)
		if err := eng.Run(); err != nil {
			panic(fmt.Sprintf("Run returned %v", err))
		}
	})
	return
}

func genC12Ops(rt *rapid.T, maxOps int, label string) []c12Op {
	n := rapid.IntRange(0, maxOps).Draw(rt, label)
	var ops []c12Op
	for i := 0; i < n; i++ {
		k := rapid.IntRange(0, c12NumKinds-1).Draw(rt, "opkind")
		d := 1
		if rapid.IntRange(0, 2).Draw(rt, "dupq") == 0 {
			d = rapid.IntRange(2, 3).Draw(rt, "dup")
		}
		ops = append(ops, c12Op{Kind: k, Dup: d})
	}
	return ops
}

func genC12Freq(rt *rapid.T) uint64 {
	switch rapid.IntRange(0, 9).Draw(rt, "fclass") {
	case 0, 1, 2, 3:
		// weighted to frequencies whose period is not 1e12/f exactly
		return rapid.SampledFrom([]uint64{3_000_000_000, 1_500_000_000, 7_000_000, 333_333_333, 999_999_999_999, 600_000_000_000, 3, 7, 300, 1_100_000_000, 900_000_000}).Draw(rt, "f")
	case 4, 5:
		return rapid.SampledFrom([]uint64{1, 2, 1000, 1_000_000, 1_000_000_000, 2_000_000_000, 800_000_000, 500_000_000_000, 1_000_000_000_000}).Draw(rt, "f")
	case 6:
		return rapid.Uint64Range(1, 1000).Draw(rt, "f")
	default:
		return rapid.Uint64Range(1, 1_000_000_000_000).Draw(rt, "f")
	}
}

func genC12(rt *rapid.T) c12Case {
	c := c12Case{Freq: genC12Freq(rt)}
	c.SecondaryComp = rapid.IntRange(0, 2).Draw(rt, "secondarycomp") == 0
	per := period(c.Freq)
	c.Setup = genC12Ops(rt, 2, "nsetup")
	nr := rapid.IntRange(0, 8).Draw(rt, "nreqs")
	for i := 0; i < nr; i++ {
		k := uint64(rapid.IntRange(0, 12).Draw(rt, "k"))
		var off uint64
		switch rapid.IntRange(0, 7).Draw(rt, "offclass") {
		case 0:
			off = 1
		case 1:
			off = per - 1
		case 2, 3:
			off = rapid.Uint64Range(0, per-1).Draw(rt, "off")
		}
		ops := genC12Ops(rt, 3, "nops")
		if len(ops) == 0 {
			ops = []c12Op{{Kind: rapid.IntRange(0, c12NumKinds-1).Draw(rt, "opkind1"), Dup: 1}}
		}
		c.Reqs = append(c.Reqs, c12Req{At: k*per + off%per, Secondary: rapid.IntRange(0, 3).Draw(rt, "helpersecondary") == 0, Ops: ops})
	}
	np := rapid.IntRange(0, 10).Draw(rt, "nprogress")
	for i := 0; i < np; i++ {
		c.Progress = append(c.Progress, rapid.IntRange(0, 2).Draw(rt, "progress") != 0)
	}
	nt := rapid.IntRange(0, 6).Draw(rt, "nintick")
	for i := 0; i < nt; i++ {
		c.InTick = append(c.InTick, genC12Ops(rt, 2, "nintickops"))
	}
	return c
}

func TestC12TickEdges(t *testing.T) {
	s := kit.Begin(t, "C12", "ticker",
		"one modeling.Component built by modeling.Builder (primary) or rebuilt with NewSecondaryTickingComponent exactly as directconnection does (secondary, 1/3); f in [1 Hz,1 THz]: 40% from a list of non-divisors of 1e12 (3 GHz->333 ps, 1.5 GHz, 7 MHz, 333.3 MHz, 999999999999 Hz, 3, 7...), 20% round values, 10% 1..1000, 30% uniform; 0-2 calls before Run at t=0, 0-8 helper events (25% secondary) at k*period+{0 (50%),1,period-1,uniform}, k<=12, each issuing 1-3 of TickNow/TickLater/NotifyRecv/NotifyPortFree repeated 1-3 times; tick k returns Progress[k] (<=10 drawn, then false) and issues 0-2 calls from inside Tick for k<6. Oracle on the Tick log: time % Period()==0; strictly increasing; tick with progress at t => next tick at exactly t+period; NotifyRecv/NotifyPortFree at u => a later tick at a time > u; (documented) TickLater at u => a later tick exactly at NextTick(u). Non-trivial: >=2 wake requests inside one instant and period*f != 1e12")
	defer s.End()
	s.Assume("TickNow is exercised as a wake source but nothing is asserted about whether it leads to a tick (C12 does not state it; see C09)")

	run := func(f kit.Failer, c c12Case) {
		r, ok, sig, msg := runC12(c)
		if !ok {
			s.Fail(f, c, sig, "%s", msg)
			return
		}
		per := period(c.Freq)
		comp := "primary"
		if c.SecondaryComp {
			comp = "secondary"
		}
		var ticks []c12Entry
		for _, e := range r.log {
			if e.tick {
				ticks = append(ticks, e)
			}
		}
		if got := uint64(timing.Freq(c.Freq).Period()); got != per {
			s.Fail(f, c, "period", "Freq(%d).Period()=%d want %d", c.Freq, got, per)
			return
		}
		for i, tk := range ticks {
			if tk.time%per != 0 {
				s.Fail(f, c, "tick-off-edge:"+comp, "tick #%d at %d ps is not a multiple of the period %d ps (f=%d Hz)", i, tk.time, per, c.Freq)
				return
			}
			if i > 0 && tk.time <= ticks[i-1].time {
				s.Fail(f, c, "tick-twice-per-instant:"+comp, "tick #%d at %d ps follows tick #%d at %d ps (not strictly later)", i, tk.time, i-1, ticks[i-1].time)
				return
			}
		}
		for i, tk := range ticks {
			if tk.progress {
				if i+1 >= len(ticks) {
					s.Fail(f, c, "progress-not-reticked:"+comp, "tick #%d at %d ps made progress but the component was never ticked again (period %d)", i, tk.time, per)
					return
				}
				if ticks[i+1].time != tk.time+per {
					s.Fail(f, c, "progress-retick-wrong-edge:"+comp, "tick #%d at %d ps made progress; next tick at %d ps, want %d", i, tk.time, ticks[i+1].time, tk.time+per)
					return
				}
			}
		}
		// wake requests
		perInstant := map[uint64]int{}
		dupInstant, afterHandled := false, false
		var lastTick *c12Entry
		for i := range r.log {
			e := r.log[i]
			if e.tick {
				lastTick = &r.log[i]
				continue
			}
			perInstant[e.time]++
			if perInstant[e.time] >= 2 {
				dupInstant = true
			}
			if lastTick != nil && lastTick.time == e.time && lastTick.evSeq != e.evSeq {
				afterHandled = true
			}
			var later *c12Entry
			for j := i + 1; j < len(r.log); j++ {
				if r.log[j].tick && r.log[j].time > e.time {
					later = &r.log[j]
					break
				}
			}
			switch e.kind {
			case c12NotifyRecv, c12NotifyPortFree:
				if later == nil {
					s.Fail(f, c, "notify-no-later-tick:"+comp, "%s at %d ps (log #%d) was not followed by any tick at a later time (period %d ps)", c12KindName[e.kind], e.time, i, per)
					return
				}
			case c12TickLater:
				want := (e.time/per + 1) * per
				if later == nil || later.time != want {
					got := "none"
					if later != nil {
						got = fmt.Sprint(later.time)
					}
					s.Fail(f, c, "ticklater-not-next-edge:"+comp, "TickLater at %d ps (log #%d): next later tick %s, documented 'the cycle after now' = %d", e.time, i, got, want)
					return
				}
			}
		}
		nondiv := per*c.Freq != 1_000_000_000_000
		classes := []string{comp}
		if nondiv {
			classes = append(classes, "period-not-exact")
		}
		if dupInstant {
			classes = append(classes, "dup-requests-in-one-instant")
		}
		if afterHandled {
			classes = append(classes, "request-after-tick-handled-same-instant")
		}
		if len(ticks) == 0 {
			classes = append(classes, "no-tick")
		}
		if len(ticks) >= 5 {
			classes = append(classes, "ticks>=5")
		}
		offEdge := false
		for _, e := range r.log {
			if !e.tick && e.time%per != 0 {
				offEdge = true
			}
		}
		if offEdge {
			classes = append(classes, "request-off-edge")
		}
		s.AddExtra("ticks", len(ticks))
		s.Note(c, dupInstant && nondiv && len(ticks) > 0, classes...)
	}

	var c c12Case
	if ok, err := kit.LoadReplay("C12", "ticker", &c); ok {
		if err != nil {
			t.Fatal(err)
		}
		if c.Freq == 0 || c.Freq > 1_000_000_000_000 {
			t.Fatalf("frequency %d outside the domain", c.Freq)
		}
		run(t, c)
		return
	} else if kit.ReplayMode() {
		t.Skip()
	}

	kit.SetChecks(100_000, 1_000_000)
	rapid.Check(t, func(rt *rapid.T) { run(rt, genC12(rt)) })
}
