package modelchk

import (
	"bytes"
	"encoding/json"
	"fmt"
	"testing"

	"github.com/sarchlab/akita/v5/hooking"
	"github.com/sarchlab/akita/v5/messaging"
	"github.com/sarchlab/akita/v5/modeling"
	"github.com/sarchlab/akita/v5/timing"
	"pgregory.net/rapid"

	"verif/harness/kit"
)

const (
	c12TickNow = iota
	c12TickLater
	c12NotifyRecv
	c12NotifyPortFree
	c12NumKinds
)

var c12KindName = []string{"TickNow", "TickLater", "NotifyRecv", "NotifyPortFree"}

type c12Op struct {
	Kind int `json:"kind"`
	Dup  int `json:"dup"` // the call is made Dup times in a row (>=1)
}

type c12Req struct {
	At        uint64  `json:"at"`
	Secondary bool    `json:"secondary"` // class of the helper event that issues the calls
	Ops       []c12Op `json:"ops"`
}

type c12Case struct {
	Freq          uint64    `json:"freq"`
	SecondaryComp bool      `json:"secondary_comp"` // built like a connection (secondary tick events)
	Setup         []c12Op   `json:"setup,omitempty"`
	Reqs          []c12Req  `json:"reqs,omitempty"`
	Progress      []bool    `json:"progress,omitempty"` // return value of the k-th Tick (false beyond)
	InTick        [][]c12Op `json:"in_tick,omitempty"`  // calls made from inside the k-th Tick

	// Checkpoint leg: 0 none; 1 = after the calls before Run (the usual
	// kick-off) and before Run; 2 = after RunUntil(CkptAt). The engine's and
	// the component's checkpoints are saved (exported SaveCheckpoint), a fresh
	// engine + component are built, both are loaded, PostLoad is issued (the
	// kick-off of a resumed main()) and the run continues.
	Ckpt     int     `json:"ckpt,omitempty"`
	CkptAt   uint64  `json:"ckpt_at,omitempty"`
	PostLoad []c12Op `json:"post_load,omitempty"`
}

const (
	c12CkptNone = iota
	c12CkptBeforeRun
	c12CkptRunUntil
)

func init() { timing.RegisterEvent(c12HelperEvent{}) }

type c12Spec struct {
	Freq uint64 `json:"freq"`
}

type c12State struct {
	Ticks int `json:"ticks"`
}

type c12Comp = modeling.Component[c12Spec, c12State, modeling.None]

type c12Entry struct {
	tick     bool
	kind     int
	time     uint64
	progress bool
	evSeq    int
	k        int // tick index (State.Ticks before the tick)
}

type c12Run struct {
	c     c12Case
	eng   *timing.SerialEngine
	comp  *c12Comp
	port  messaging.Port
	log   []c12Entry
	evSeq int

	// what the checkpoint leg saw
	restored             bool
	tickQueuedAtSaveTime bool // the saved engine queue held a tick of the component for exactly the engine's time
	tickQueuedLater      bool // ... for a later time
	postLoadCalls        int
	cutLogLen            int    // len(log) at the cut
	cutTime              uint64 // engine time at the cut
}

func (r *c12Run) do(ops []c12Op) {
	for _, op := range ops {
		for i := 0; i < op.Dup; i++ {
			r.log = append(r.log, c12Entry{kind: op.Kind, time: uint64(r.eng.CurrentTime()), evSeq: r.evSeq})
			switch op.Kind {
			case c12TickNow:
				r.comp.TickNow()
			case c12TickLater:
				r.comp.TickLater()
			case c12NotifyRecv:
				r.comp.NotifyRecv(r.port)
			case c12NotifyPortFree:
				r.comp.NotifyPortFree(r.port)
			}
		}
	}
}

type c12MW struct{ r *c12Run }

func (m *c12MW) Tick() bool {
	r := m.r
	st := &r.comp.State
	k := st.Ticks
	st.Ticks++
	progress := k < len(r.c.Progress) && r.c.Progress[k]
	r.log = append(r.log, c12Entry{tick: true, time: uint64(r.comp.CurrentTime()), progress: progress, evSeq: r.evSeq, k: k})
	if k < len(r.c.InTick) {
		r.do(r.c.InTick[k])
	}
	return progress
}

type c12HelperEvent struct {
	timing.EventBase
	Index int
}

type c12Helper struct{ r *c12Run }

func (h *c12Helper) Handle(e timing.Event) error {
	h.r.do(h.r.c.Reqs[e.(c12HelperEvent).Index].Ops)
	return nil
}

func (r *c12Run) build() {
	c := r.c
	eng := timing.NewSerialEngine()
	r.eng = eng
	reg := modeling.NewStandaloneRegistrar(eng)
	eng.AcceptHook(&netHook{f: func(ctx hooking.HookCtx) {
		if ctx.Pos == timing.HookPosBeforeEvent {
			r.evSeq++
		}
	}})
	comp := modeling.NewBuilder[c12Spec, c12State, modeling.None]().
		WithEngine(eng).
		WithFreq(timing.Freq(c.Freq)).
		WithSpec(c12Spec{Freq: c.Freq}).
		Build("Dut")
	if c.SecondaryComp {
		// exactly what directconnection.Builder does
		comp.TickingComponent = modeling.NewSecondaryTickingComponent("Dut", eng, timing.Freq(c.Freq), comp)
	}
	comp.AddMiddleware(&c12MW{r: r})
	comp.DeclarePort("In")
	r.port = modeling.MakePortBuilder().WithRegistrar(reg).WithComponent(comp).
		WithSpec(modeling.PortSpec{BufSize: 1}).Build("In")
	comp.AssignPort("In", r.port)
	r.comp = comp
	eng.RegisterHandler("Helper", &c12Helper{r: r})
}

// tickQueuedAt reports whether the engine checkpoint holds an event of handler
// "Dut" for exactly the engine's saved time.
func c12TickQueuedAtSaveTime(engCkpt []byte) (atNow, later bool) {
	type payload struct {
		Payload struct {
			Time      uint64 `json:"time"`
			HandlerID string `json:"handler_id"`
		} `json:"payload"`
	}
	var dto struct {
		Time      uint64    `json:"time"`
		Primary   []payload `json:"primary"`
		Secondary []payload `json:"secondary"`
	}
	if json.Unmarshal(engCkpt, &dto) != nil {
		return false, false
	}
	for _, p := range append(dto.Primary, dto.Secondary...) {
		if p.Payload.HandlerID != "Dut" {
			continue
		}
		if p.Payload.Time == dto.Time {
			atNow = true
		} else {
			later = true
		}
	}
	return atNow, later
}

func runC12(c c12Case) (r *c12Run, ok bool, sig, msg string) {
	return runC12Leg(c, true)
}

// runC12Leg executes the case. With saveLoad=false the cut is still made at
// the same point (RunUntil, then the post-cut calls) but nothing is saved or
// rebuilt: the uninterrupted leg of the C06 differential.
func runC12Leg(c c12Case, saveLoad bool) (r *c12Run, ok bool, sig, msg string) {
	timing.ResetIDGenerator()
	r = &c12Run{c: c}
	ok, sig, msg = kit.Guard(func() {
		r.build()
		for i, q := range c.Reqs {
			ev := c12HelperEvent{EventBase: timing.MakeEventBase(timing.VTimeInPicoSec(q.At), "Helper"), Index: i}
			ev.Secondary = q.Secondary
			r.eng.Schedule(ev)
		}
		r.do(c.Setup)
		if c.Ckpt != c12CkptNone {
			if c.Ckpt == c12CkptRunUntil {
				if err := r.eng.RunUntil(timing.VTimeInPicoSec(c.CkptAt)); err != nil {
					panic(fmt.Sprintf("RunUntil returned %v", err))
				}
			}
			r.cutLogLen = len(r.log)
			r.cutTime = uint64(r.eng.CurrentTime())
			if saveLoad {
				r.saveRebuildLoad()
			}
			before := len(r.log)
			r.do(c.PostLoad)
			r.postLoadCalls = len(r.log) - before
		}
		if err := r.eng.Run(); err != nil {
			panic(fmt.Sprintf("Run returned %v", err))
		}
	})
	return
}

func (r *c12Run) saveRebuildLoad() {
	var engCkpt, compCkpt bytes.Buffer
	if err := r.eng.SaveCheckpoint(&engCkpt); err != nil {
		panic(fmt.Sprintf("engine SaveCheckpoint: %v", err))
	}
	if err := r.comp.SaveCheckpoint(&compCkpt); err != nil {
		panic(fmt.Sprintf("component SaveCheckpoint: %v", err))
	}
	r.tickQueuedAtSaveTime, r.tickQueuedLater = c12TickQueuedAtSaveTime(engCkpt.Bytes())
	// rebuild from scratch, as a resumed process would
	r.build()
	if err := r.eng.LoadCheckpoint(&engCkpt); err != nil {
		panic(fmt.Sprintf("engine LoadCheckpoint: %v", err))
	}
	if err := r.comp.LoadCheckpoint(&compCkpt); err != nil {
		panic(fmt.Sprintf("component LoadCheckpoint: %v", err))
	}
	r.restored = true
}

func genC12Ops(rt *rapid.T, maxOps int, label string) []c12Op {
	n := rapid.IntRange(0, maxOps).Draw(rt, label)
	var ops []c12Op
	for i := 0; i < n; i++ {
		k := rapid.IntRange(0, c12NumKinds-1).Draw(rt, "opkind")
		d := 1
		if rapid.IntRange(0, 2).Draw(rt, "dupq") == 0 {
			d = rapid.IntRange(2, 3).Draw(rt, "dup")
		}
		ops = append(ops, c12Op{Kind: k, Dup: d})
	}
	return ops
}

func genC12Freq(rt *rapid.T) uint64 {
	switch rapid.IntRange(0, 9).Draw(rt, "fclass") {
	case 0, 1, 2, 3:
		// weighted to frequencies whose period is not 1e12/f exactly
		return rapid.SampledFrom([]uint64{3_000_000_000, 1_500_000_000, 7_000_000, 333_333_333, 999_999_999_999, 600_000_000_000, 3, 7, 300, 1_100_000_000, 900_000_000}).Draw(rt, "f")
	case 4, 5:
		return rapid.SampledFrom([]uint64{1, 2, 1000, 1_000_000, 1_000_000_000, 2_000_000_000, 800_000_000, 500_000_000_000, 1_000_000_000_000}).Draw(rt, "f")
	case 6:
		return rapid.Uint64Range(1, 1000).Draw(rt, "f")
	default:
		return rapid.Uint64Range(1, 1_000_000_000_000).Draw(rt, "f")
	}
}

func genC12(rt *rapid.T) c12Case {
	c := c12Case{Freq: genC12Freq(rt)}
	c.SecondaryComp = rapid.IntRange(0, 2).Draw(rt, "secondarycomp") == 0
	per := period(c.Freq)
	c.Setup = genC12Ops(rt, 2, "nsetup")
	nr := rapid.IntRange(0, 8).Draw(rt, "nreqs")
	for i := 0; i < nr; i++ {
		k := uint64(rapid.IntRange(0, 12).Draw(rt, "k"))
		var off uint64
		switch rapid.IntRange(0, 7).Draw(rt, "offclass") {
		case 0:
			off = 1
		case 1:
			off = per - 1
		case 2, 3:
			off = rapid.Uint64Range(0, per-1).Draw(rt, "off")
		}
		ops := genC12Ops(rt, 3, "nops")
		if len(ops) == 0 {
			ops = []c12Op{{Kind: rapid.IntRange(0, c12NumKinds-1).Draw(rt, "opkind1"), Dup: 1}}
		}
		c.Reqs = append(c.Reqs, c12Req{At: k*per + off%per, Secondary: rapid.IntRange(0, 3).Draw(rt, "helpersecondary") == 0, Ops: ops})
	}
	np := rapid.IntRange(0, 10).Draw(rt, "nprogress")
	for i := 0; i < np; i++ {
		c.Progress = append(c.Progress, rapid.IntRange(0, 2).Draw(rt, "progress") != 0)
	}
	nt := rapid.IntRange(0, 6).Draw(rt, "nintick")
	for i := 0; i < nt; i++ {
		c.InTick = append(c.InTick, genC12Ops(rt, 2, "nintickops"))
	}
	switch rapid.IntRange(0, 3).Draw(rt, "ckpt") {
	case 0:
		c.Ckpt = c12CkptBeforeRun
	case 1:
		c.Ckpt = c12CkptRunUntil
		k := uint64(rapid.IntRange(0, 12).Draw(rt, "ckptk"))
		var off uint64
		if rapid.IntRange(0, 2).Draw(rt, "ckptoffq") == 0 {
			off = rapid.Uint64Range(0, per-1).Draw(rt, "ckptoff")
		}
		c.CkptAt = k*per + off
	}
	if c.Ckpt != c12CkptNone {
		c.PostLoad = genC12Ops(rt, 2, "npostload")
	}
	return c
}

func TestC12TickEdges(t *testing.T) {
	s := kit.Begin(t, "C12", "ticker",
		"one modeling.Component built by modeling.Builder (primary) or rebuilt with NewSecondaryTickingComponent exactly as directconnection does (secondary, 1/3); f in [1 Hz,1 THz]: 40% from a list of non-divisors of 1e12 (3 GHz->333 ps, 1.5 GHz, 7 MHz, 333.3 MHz, 999999999999 Hz, 3, 7...), 20% round values, 10% 1..1000, 30% uniform; 0-2 calls before Run at t=0, 0-8 helper events (25% secondary) at k*period+{0 (50%),1,period-1,uniform}, k<=12, each issuing 1-3 of TickNow/TickLater/NotifyRecv/NotifyPortFree repeated 1-3 times; 50% of the cases take a checkpoint leg: after the pre-Run calls (25%) or after RunUntil(k*period[+off]) (25%) the engine's and the component's checkpoints are saved with the exported SaveCheckpoint, a fresh engine+component are built, both loaded, 0-2 further calls issued (the kick-off of a resumed main()) and the run continued, with the same oracle over the joined Tick log; tick k returns Progress[k] (<=10 drawn, then false) and issues 0-2 calls from inside Tick for k<6. Oracle on the Tick log: time % Period()==0; strictly increasing; tick with progress at t => next tick at exactly t+period; NotifyRecv/NotifyPortFree at u => a later tick at a time > u; (documented) TickLater at u => a later tick exactly at NextTick(u). Non-trivial: >=2 wake requests inside one instant and period*f != 1e12")
	defer s.End()
	s.Assume("TickNow is exercised as a wake source but nothing is asserted about whether it leads to a tick (C12 does not state it; see C09)")

	run := func(f kit.Failer, c c12Case) {
		r, ok, sig, msg := runC12(c)
		if !ok {
			s.Fail(f, c, sig, "%s", msg)
			return
		}
		per := period(c.Freq)
		comp := "primary"
		if c.SecondaryComp {
			comp = "secondary"
		}
		var ticks []c12Entry
		for _, e := range r.log {
			if e.tick {
				ticks = append(ticks, e)
			}
		}
		if got := uint64(timing.Freq(c.Freq).Period()); got != per {
			s.Fail(f, c, "period", "Freq(%d).Period()=%d want %d", c.Freq, got, per)
			return
		}
		for i, tk := range ticks {
			if tk.time%per != 0 {
				s.Fail(f, c, "tick-off-edge:"+comp, "tick #%d at %d ps is not a multiple of the period %d ps (f=%d Hz)", i, tk.time, per, c.Freq)
				return
			}
			if i > 0 && tk.time <= ticks[i-1].time {
				s.Fail(f, c, "tick-twice-per-instant:"+comp, "tick #%d at %d ps follows tick #%d at %d ps (not strictly later)", i, tk.time, i-1, ticks[i-1].time)
				return
			}
		}
		for i, tk := range ticks {
			if tk.progress {
				if i+1 >= len(ticks) {
					s.Fail(f, c, "progress-not-reticked:"+comp, "tick #%d at %d ps made progress but the component was never ticked again (period %d)", i, tk.time, per)
					return
				}
				if ticks[i+1].time != tk.time+per {
					s.Fail(f, c, "progress-retick-wrong-edge:"+comp, "tick #%d at %d ps made progress; next tick at %d ps, want %d", i, tk.time, ticks[i+1].time, tk.time+per)
					return
				}
			}
		}
		// wake requests
		perInstant := map[uint64]int{}
		dupInstant, afterHandled := false, false
		var lastTick *c12Entry
		for i := range r.log {
			e := r.log[i]
			if e.tick {
				lastTick = &r.log[i]
				continue
			}
			perInstant[e.time]++
			if perInstant[e.time] >= 2 {
				dupInstant = true
			}
			if lastTick != nil && lastTick.time == e.time && lastTick.evSeq != e.evSeq {
				afterHandled = true
			}
			var later *c12Entry
			for j := i + 1; j < len(r.log); j++ {
				if r.log[j].tick && r.log[j].time > e.time {
					later = &r.log[j]
					break
				}
			}
			switch e.kind {
			case c12NotifyRecv, c12NotifyPortFree:
				if later == nil {
					s.Fail(f, c, "notify-no-later-tick:"+comp, "%s at %d ps (log #%d) was not followed by any tick at a later time (period %d ps)", c12KindName[e.kind], e.time, i, per)
					return
				}
			case c12TickLater:
				want := (e.time/per + 1) * per
				if later == nil || later.time != want {
					got := "none"
					if later != nil {
						got = fmt.Sprint(later.time)
					}
					s.Fail(f, c, "ticklater-not-next-edge:"+comp, "TickLater at %d ps (log #%d): next later tick %s, documented 'the cycle after now' = %d", e.time, i, got, want)
					return
				}
			}
		}
		nondiv := per*c.Freq != 1_000_000_000_000
		classes := []string{comp}
		if nondiv {
			classes = append(classes, "period-not-exact")
		}
		if dupInstant {
			classes = append(classes, "dup-requests-in-one-instant")
		}
		if afterHandled {
			classes = append(classes, "request-after-tick-handled-same-instant")
		}
		if len(ticks) == 0 {
			classes = append(classes, "no-tick")
		}
		if len(ticks) >= 5 {
			classes = append(classes, "ticks>=5")
		}
		switch c.Ckpt {
		case c12CkptBeforeRun:
			classes = append(classes, "ckpt:after-kick-off-before-Run")
		case c12CkptRunUntil:
			classes = append(classes, "ckpt:after-RunUntil")
		}
		if r.restored && r.tickQueuedAtSaveTime {
			classes = append(classes, "ckpt-with-tick-queued-for-current-instant")
			if r.postLoadCalls > 0 {
				classes = append(classes, "ckpt-with-tick-queued-for-current-instant+wake-after-restore")
			}
		}
		offEdge := false
		for _, e := range r.log {
			if !e.tick && e.time%per != 0 {
				offEdge = true
			}
		}
		if offEdge {
			classes = append(classes, "request-off-edge")
		}
		s.AddExtra("ticks", len(ticks))
		s.Note(c, dupInstant && nondiv && len(ticks) > 0, classes...)
	}

	var c c12Case
	if ok, err := kit.LoadReplay("C12", "ticker", &c); ok {
		if err != nil {
			t.Fatal(err)
		}
		if c.Freq == 0 || c.Freq > 1_000_000_000_000 {
			t.Fatalf("frequency %d outside the domain", c.Freq)
		}
		run(t, c)
		return
	} else if kit.ReplayMode() {
		t.Skip()
	}

	kit.SetChecks(100_000, 1_000_000)
	rapid.Check(t, func(rt *rapid.T) { run(rt, genC12(rt)) })
}
