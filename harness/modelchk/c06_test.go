package modelchk

// C06, component level: a checkpoint taken at a time boundary of one ticking
// component (+ its engine) is invisible. The C12 case shape is reused and
// judged as a differential: the same script is executed once uninterrupted and
// once with engine+component SaveCheckpoint -> fresh engine/component ->
// LoadCheckpoint at the drawn cut; the post-cut calls are issued in both legs
// at the same virtual time.

import (
	"bytes"
	"encoding/json"
	"fmt"
	"strings"
	"testing"

	"pgregory.net/rapid"

	"verif/harness/kit"
)

type c06Outcome struct {
	log       []c12Entry
	stateJSON string
	endTime   uint64
	finalCkpt string
}

func c06Finish(r *c12Run) (o c06Outcome, ok bool, sig, msg string) {
	ok, sig, msg = kit.Guard(func() {
		o.log = r.log
		o.endTime = uint64(r.eng.CurrentTime())
		b, err := json.Marshal(r.comp.State)
		if err != nil {
			panic(fmt.Sprintf("marshal state: %v", err))
		}
		o.stateJSON = string(b)
		var eb, cb bytes.Buffer
		if err := r.eng.SaveCheckpoint(&eb); err != nil {
			panic(fmt.Sprintf("final engine SaveCheckpoint: %v", err))
		}
		if err := r.comp.SaveCheckpoint(&cb); err != nil {
			panic(fmt.Sprintf("final component SaveCheckpoint: %v", err))
		}
		o.finalCkpt = "engine:" + strings.TrimSpace(eb.String()) + " component:" + strings.TrimSpace(cb.String())
	})
	return
}

func c06LogString(log []c12Entry) string {
	var sb strings.Builder
	for i, e := range log {
		if i > 0 {
			sb.WriteByte(' ')
		}
		if e.tick {
			fmt.Fprintf(&sb, "tick#%d@%d", e.k, e.time)
		} else {
			fmt.Fprintf(&sb, "%s@%d", c12KindName[e.kind], e.time)
		}
	}
	return sb.String()
}

func c06TickString(log []c12Entry) string {
	var sb strings.Builder
	for _, e := range log {
		if e.tick {
			fmt.Fprintf(&sb, "#%d@%d ", e.k, e.time)
		}
	}
	return strings.TrimSpace(sb.String())
}

func genC06(rt *rapid.T) c12Case {
	c := genC12(rt)
	if c.Ckpt == c12CkptNone {
		per := period(c.Freq)
		if rapid.IntRange(0, 2).Draw(rt, "cutkind") == 0 {
			c.Ckpt = c12CkptBeforeRun
		} else {
			c.Ckpt = c12CkptRunUntil
			k := uint64(rapid.IntRange(0, 12).Draw(rt, "cutk"))
			var off uint64
			if rapid.IntRange(0, 2).Draw(rt, "cutoffq") == 0 {
				off = rapid.Uint64Range(0, per-1).Draw(rt, "cutoff")
			}
			c.CkptAt = k*per + off
		}
		c.PostLoad = genC12Ops(rt, 2, "npostcut")
	}
	return c
}

// c06Minimal is the minimal history of the (fixed) defect of 3b89d9fa: the
// handled-tick marker was not part of the checkpoint.
func c06Minimal() c12Case {
	return c12Case{
		Freq:     1_000_000_000,
		Setup:    []c12Op{{Kind: c12TickNow, Dup: 1}},
		Ckpt:     c12CkptRunUntil,
		CkptAt:   0,
		PostLoad: []c12Op{{Kind: c12TickNow, Dup: 1}},
	}
}

func judgeC06(s *kit.Session, f kit.Failer, c c12Case) {
	if c.Ckpt == c12CkptNone {
		return
	}
	ra, ok, sig, msg := runC12Leg(c, false)
	if !ok {
		s.Fail(f, c, "uninterrupted:"+sig, "%s", msg)
		return
	}
	a, ok, sig, msg := c06Finish(ra)
	if !ok {
		s.Fail(f, c, "uninterrupted:"+sig, "%s", msg)
		return
	}
	rb, ok, sig, msg := runC12Leg(c, true)
	if !ok {
		s.Fail(f, c, "checkpointed:"+sig, "%s", msg)
		return
	}
	b, ok, sig, msg := c06Finish(rb)
	if !ok {
		s.Fail(f, c, "checkpointed:"+sig, "%s", msg)
		return
	}

	// shape of the cut, judged on what happened in the checkpointed leg
	handledAtCut := false
	for _, e := range rb.log[:rb.cutLogLen] {
		if e.tick && e.time == rb.cutTime {
			handledAtCut = true
		}
	}
	postTickNow, postTickLater, postNotify := false, false, false
	for _, e := range rb.log[rb.cutLogLen : rb.cutLogLen+rb.postLoadCalls] {
		switch e.kind {
		case c12TickNow:
			postTickNow = true
		case c12TickLater:
			postTickLater = true
		default:
			postNotify = true
		}
	}
	mode := "cut-before-Run"
	if c.Ckpt == c12CkptRunUntil {
		mode = "cut-after-RunUntil"
	}
	shape := mode
	if handledAtCut {
		shape += "+tick-handled-at-cut-instant"
	}
	if rb.tickQueuedAtSaveTime {
		shape += "+tick-pending-at-cut-instant"
	}
	if postTickNow {
		shape += "+post-cut-TickNow"
	}

	if len(a.log) != len(b.log) || c06LogString(a.log) != c06LogString(b.log) {
		what := "call-log-differs:"
		if c06TickString(a.log) != c06TickString(b.log) {
			what = "tick-log-differs:"
		}
		s.Fail(f, c, what+shape, "cut at engine time %d ps (log position %d): uninterrupted ticks [%s], through save/rebuild/load ticks [%s]; full logs: uninterrupted {%s} checkpointed {%s}",
			rb.cutTime, rb.cutLogLen, c06TickString(a.log), c06TickString(b.log), c06LogString(a.log), c06LogString(b.log))
		return
	}
	for i := range a.log {
		if a.log[i].tick && a.log[i].progress != b.log[i].progress {
			s.Fail(f, c, "tick-progress-differs:"+shape, "tick #%d at %d ps: progress %v uninterrupted, %v checkpointed", a.log[i].k, a.log[i].time, a.log[i].progress, b.log[i].progress)
			return
		}
	}
	if a.stateJSON != b.stateJSON {
		s.Fail(f, c, "final-state-differs:"+shape, "final State uninterrupted %s, checkpointed %s", a.stateJSON, b.stateJSON)
		return
	}
	if a.endTime != b.endTime {
		s.Fail(f, c, "end-time-differs:"+shape, "engine end time uninterrupted %d ps, checkpointed %d ps", a.endTime, b.endTime)
		return
	}
	if a.finalCkpt != b.finalCkpt {
		s.Fail(f, c, "final-checkpoint-differs:"+shape, "checkpoint taken at the end differs: uninterrupted %s / checkpointed %s", a.finalCkpt, b.finalCkpt)
		return
	}

	ticksAfter := 0
	for _, e := range rb.log[rb.cutLogLen:] {
		if e.tick {
			ticksAfter++
		}
	}
	classes := []string{mode}
	if c.SecondaryComp {
		classes = append(classes, "secondary")
	} else {
		classes = append(classes, "primary")
	}
	if handledAtCut {
		classes = append(classes, "cut-with-tick-already-handled-at-cut-instant")
	}
	if rb.tickQueuedAtSaveTime {
		classes = append(classes, "cut-with-tick-pending-at-cut-instant")
	}
	if rb.tickQueuedLater {
		classes = append(classes, "cut-with-tick-pending-later")
	}
	if postTickNow {
		classes = append(classes, "post-cut-TickNow-at-cut-instant")
	}
	if postTickNow && handledAtCut {
		classes = append(classes, "post-cut-TickNow-after-handled-tick-at-cut-instant")
	}
	if postTickNow && rb.tickQueuedAtSaveTime {
		classes = append(classes, "post-cut-TickNow-with-tick-pending-at-cut-instant")
	}
	if postTickLater {
		classes = append(classes, "post-cut-TickLater")
	}
	if postNotify {
		classes = append(classes, "post-cut-notification")
	}
	if rb.cutLogLen == len(rb.log) {
		classes = append(classes, "nothing-after-cut")
	}
	if ticksAfter > 0 {
		classes = append(classes, "ticks-after-cut")
	}
	if per := period(c.Freq); per*c.Freq != 1_000_000_000_000 {
		classes = append(classes, "period-not-exact")
	}
	s.AddExtra("ticks_after_cut", ticksAfter)
	s.Note(c, ticksAfter > 0, classes...)
}

func TestC06Component(t *testing.T) {
	s := kit.Begin(t, "C06", "component",
		"the C12 case shape (one primary/secondary ticking modeling.Component, f in [1 Hz,1 THz] weighted to inexact periods, pre-Run calls, 0-8 helper events issuing TickNow/TickLater/NotifyRecv/NotifyPortFree, progress script, in-tick calls) with a mandatory cut: before Run (after the kick-off calls) or after RunUntil(k*period[+off]), k<=12, followed by 0-2 post-cut calls. Differential: leg A runs to the cut and continues; leg B saves engine+component with the exported SaveCheckpoint, builds a fresh engine+component, loads both, and continues; the post-cut calls are issued in both legs at the same virtual time. Oracle: identical call/tick logs (times, tick index, progress), identical final State JSON, identical engine end time, identical bytes of a second engine+component checkpoint taken at the end. Non-trivial: at least one tick happens after the cut")
	defer s.End()
	s.Assume("the uninterrupted leg performs no SaveCheckpoint before its end (a save with side effects would show as a difference); event IDs are not compared except through the final checkpoint, whose queues are empty")

	run := func(f kit.Failer, c c12Case) { judgeC06(s, f, c) }

	var c c12Case
	if ok, err := kit.LoadReplay("C06", "component", &c); ok {
		if err != nil {
			t.Fatal(err)
		}
		if c.Freq == 0 || c.Freq > 1_000_000_000_000 || c.Ckpt == c12CkptNone {
			t.Fatalf("case outside the domain")
		}
		run(t, c)
		return
	} else if kit.ReplayMode() {
		t.Skip()
	}

	kit.SetChecks(20_000, 300_000)
	rapid.Check(t, func(rt *rapid.T) { run(rt, genC06(rt)) })
}

// TestC06ComponentFixed is the fixed regression for the minimal history of the
// defect repaired by fd1136a4, through the same executor.
func TestC06ComponentFixed(t *testing.T) {
	if kit.ReplayMode() {
		t.Skip()
	}
	s := kit.Begin(t, "C06", "component-fixed",
		"fixed case: 1 GHz primary component, TickNow before Run, cut after RunUntil(0) (the tick at 0 has run idle), TickNow again at 0 after the cut; uninterrupted ticks at 0 and 1000 ps")
	defer s.End()
	judgeC06(s, t, c06Minimal())
}
