package modelchk

import (
	"fmt"
	"testing"

	"github.com/sarchlab/akita/v5/hooking"
	"github.com/sarchlab/akita/v5/messaging"
	"github.com/sarchlab/akita/v5/modeling"
	"github.com/sarchlab/akita/v5/timing"
	"pgregory.net/rapid"

	"verif/harness/kit"
)

const (
	c13WakeAt = iota // ScheduleWakeAt(now + Dt)
	c13WakeNow
	c13NotifyRecv
	c13NotifyPortFree
	c13NumKinds
)

var c13KindName = []string{"ScheduleWakeAt", "ScheduleWakeNow", "NotifyRecv", "NotifyPortFree"}

type c13Op struct {
	Kind int    `json:"kind"`
	Dt   uint64 `json:"dt,omitempty"`
}

type c13Helper struct {
	At        uint64  `json:"at"`
	Secondary bool    `json:"secondary,omitempty"`
	Ops       []c13Op `json:"ops"`
}

type c13Case struct {
	Setup   []c13Op     `json:"setup,omitempty"`   // issued before Run (like ping.SchedulePing)
	Helpers []c13Helper `json:"helpers,omitempty"` // issued by other handlers' events
	InProc  [][]c13Op   `json:"in_proc,omitempty"` // issued by the k-th processor invocation
}

type c13Spec struct {
	Label string `json:"label"`
}

type c13State struct {
	Invocations int `json:"invocations"`
}

type c13Comp = modeling.EventDrivenComponent[c13Spec, c13State, modeling.None]

type c13Entry struct {
	invocation bool
	kind       int
	r, t       uint64 // request made at r for time t (notifications: t == r)
	inProc     bool
}

type c13Run struct {
	c    c13Case
	eng  *timing.SerialEngine
	comp *c13Comp
	port messaging.Port
	log  []c13Entry
}

func (r *c13Run) do(ops []c13Op, inProc bool) {
	for _, op := range ops {
		now := uint64(r.eng.CurrentTime())
		e := c13Entry{kind: op.Kind, r: now, t: now, inProc: inProc}
		if op.Kind == c13WakeAt {
			e.t = now + op.Dt
		}
		r.log = append(r.log, e)
		switch op.Kind {
		case c13WakeAt:
			r.comp.ScheduleWakeAt(timing.VTimeInPicoSec(e.t))
		case c13WakeNow:
			r.comp.ScheduleWakeNow()
		case c13NotifyRecv:
			r.comp.NotifyRecv(r.port)
		case c13NotifyPortFree:
			r.comp.NotifyPortFree(r.port)
		}
	}
}

type c13Proc struct{ r *c13Run }

func (p *c13Proc) Process(comp *c13Comp, now timing.VTimeInPicoSec) bool {
	r := p.r
	k := comp.State.Invocations
	comp.State.Invocations++
	r.log = append(r.log, c13Entry{invocation: true, r: uint64(now), t: uint64(r.eng.CurrentTime())})
	if k < len(r.c.InProc) {
		r.do(r.c.InProc[k], true)
		return true
	}
	return false
}

type c13HelperEvent struct {
	timing.EventBase
	Index int
}

type c13HelperHandler struct{ r *c13Run }

func (h *c13HelperHandler) Handle(e timing.Event) error {
	h.r.do(h.r.c.Helpers[e.(c13HelperEvent).Index].Ops, false)
	return nil
}

func runC13(c c13Case) (r *c13Run, ok bool, sig, msg string) {
	timing.ResetIDGenerator()
	r = &c13Run{c: c, eng: timing.NewSerialEngine()}
	ok, sig, msg = kit.Guard(func() {
		eng := r.eng
		reg := modeling.NewStandaloneRegistrar(eng)
		eng.AcceptHook(&netHook{f: func(hooking.HookCtx) {}}) // run the engine's hooked dispatch path too
		comp := modeling.NewEventDrivenBuilder[c13Spec, c13State, modeling.None]().
			WithEngine(eng).
			WithSpec(c13Spec{Label: "dut"}).
			WithProcessor(&c13Proc{r: r}).
			Build("Dut")
		comp.DeclarePort("In")
		r.port = modeling.MakePortBuilder().WithRegistrar(reg).WithComponent(comp).
			WithSpec(modeling.PortSpec{BufSize: 1}).Build("In")
		comp.AssignPort("In", r.port)
		r.comp = comp
		eng.RegisterHandler("Helper", &c13HelperHandler{r: r})
		for i, h := range c.Helpers {
			ev := c13HelperEvent{EventBase: timing.MakeEventBase(timing.VTimeInPicoSec(h.At), "Helper"), Index: i}
			ev.Secondary = h.Secondary
			eng.Schedule(ev)
		}
		r.do(c.Setup, false)
		if err := eng.Run(); err != nil {
			panic(fmt.Sprintf("Run returned %v", err))
		}
	})
	return
}

func genC13Ops(rt *rapid.T, min, max int, label string) []c13Op {
	n := rapid.IntRange(min, max).Draw(rt, label)
	var ops []c13Op
	for i := 0; i < n; i++ {
		op := c13Op{}
		switch rapid.IntRange(0, 9).Draw(rt, "opclass") {
		case 0:
			op.Kind = c13NotifyRecv
		case 1:
			op.Kind = c13NotifyPortFree
		case 2:
			op.Kind = c13WakeNow
		case 3:
			op.Kind = c13WakeAt
			op.Dt = 0
		case 4:
			op.Kind = c13WakeAt
			op.Dt = rapid.Uint64Range(0, 1_000_000_000_000).Draw(rt, "dtbig")
		default:
			op.Kind = c13WakeAt
			op.Dt = uint64(rapid.IntRange(0, 12).Draw(rt, "dt"))
		}
		ops = append(ops, op)
	}
	return ops
}

func genC13(rt *rapid.T) c13Case {
	var c c13Case
	c.Setup = genC13Ops(rt, 0, 3, "nsetup")
	nh := rapid.IntRange(0, 6).Draw(rt, "nhelpers")
	for i := 0; i < nh; i++ {
		c.Helpers = append(c.Helpers, c13Helper{
			At:        uint64(rapid.IntRange(0, 24).Draw(rt, "at")),
			Secondary: rapid.IntRange(0, 3).Draw(rt, "secondary") == 0,
			Ops:       genC13Ops(rt, 1, 3, "nops"),
		})
	}
	np := rapid.IntRange(0, 6).Draw(rt, "ninproc")
	for i := 0; i < np; i++ {
		c.InProc = append(c.InProc, genC13Ops(rt, 0, 3, "ninprocops"))
	}
	return c
}

func TestC13WakeNoLaterThanRequested(t *testing.T) {
	s := kit.Begin(t, "C13", "eventdriven",
		"one EventDrivenComponent (built by EventDrivenBuilder, owning one port); history = 0-3 calls before Run at t=0, 0-6 helper events (25% secondary) at times 0..24 ps issuing 1-3 calls each, and 0-3 calls from inside each of the first <=6 processor invocations; calls: ScheduleWakeAt(now+dt) with dt in 0..12 (50%), 0 (10%) or up to 1e12 (10%), ScheduleWakeNow, NotifyRecv, NotifyPortFree; the small time range makes earlier/equal/later/repeated requests relative to the pending wakeup frequent. Oracle on the global call/invocation log after Run returns: a request made at r for t is followed (later in the log) by a processor invocation at a time in [r,t]; a notification / ScheduleWakeNow at r is followed by an invocation at time r; the time passed to Process equals the engine time. Non-trivial: the history has a request for an earlier time than a still-pending one and a request issued from inside the processor")
	defer s.End()

	run := func(f kit.Failer, c c13Case) {
		r, ok, sig, msg := runC13(c)
		if !ok {
			s.Fail(f, c, sig, "%s", msg)
			return
		}
		// pending = requests since the last invocation (classification only)
		const none = ^uint64(0)
		minPending := none
		var earlier, equal, later, inProcReq, afterStale bool
		invocations := 0
		for i, e := range r.log {
			if e.invocation {
				invocations++
				if e.r != e.t {
					s.Fail(f, c, "process-time-mismatch", "Process was given now=%d but the engine time is %d", e.r, e.t)
					return
				}
				minPending = none
				continue
			}
			if e.inProc {
				inProcReq = true
			}
			switch {
			case minPending == none:
			case e.t < minPending:
				earlier = true
			case e.t == minPending:
				equal = true
			default:
				later = true
			}
			if e.t < minPending {
				minPending = e.t
			}
			served := false
			for j := i + 1; j < len(r.log); j++ {
				if r.log[j].invocation && r.log[j].r >= e.r && r.log[j].r <= e.t {
					served = true
					if r.log[j].r < e.t {
						afterStale = true
					}
					break
				}
			}
			if !served {
				where := "helper"
				if e.inProc {
					where = "in-processor"
				}
				if e.kind == c13WakeAt {
					s.Fail(f, c, "wake-request-not-served:"+where, "ScheduleWakeAt(%d) issued at %d ps (log #%d, %s): no later processor invocation at a time in [%d,%d]", e.t, e.r, i, where, e.r, e.t)
				} else {
					s.Fail(f, c, "notification-not-served:"+c13KindName[e.kind]+":"+where, "%s at %d ps (log #%d, %s): no later processor invocation at %d ps", c13KindName[e.kind], e.r, i, where, e.r)
				}
				return
			}
		}
		var classes []string
		if earlier {
			classes = append(classes, "request-earlier-than-pending")
		}
		if equal {
			classes = append(classes, "request-equal-to-pending")
		}
		if later {
			classes = append(classes, "request-later-than-pending")
		}
		if inProcReq {
			classes = append(classes, "request-from-processor")
		}
		if afterStale {
			classes = append(classes, "served-by-earlier-wakeup")
		}
		if invocations == 0 {
			classes = append(classes, "no-invocation")
		}
		if invocations >= 5 {
			classes = append(classes, "invocations>=5")
		}
		s.AddExtra("invocations", invocations)
		s.Note(c, earlier && inProcReq, classes...)
	}

	var c c13Case
	if ok, err := kit.LoadReplay("C13", "eventdriven", &c); ok {
		if err != nil {
			t.Fatal(err)
		}
		run(t, c)
		return
	} else if kit.ReplayMode() {
		t.Skip()
	}

	kit.SetChecks(100_000, 1_000_000)
	rapid.Check(t, func(rt *rapid.T) { run(rt, genC13(rt)) })
}
