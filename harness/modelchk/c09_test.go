package modelchk

import (
	"fmt"
	"testing"

	"pgregory.net/rapid"

	"verif/harness/kit"
)

// Signature of the listed C09 finding: TickScheduler.TickNow deduplicates a
// wake request against a tick that was already *handled* at this instant.
const sigC09TickNow = "ticknow-dedup:wake-after-idle-conn-tick-same-instant"

var c09ConnFreqs = []uint64{1_000_000_000, 1_000_000_000, 1_000_000_000, 2_000_000_000, 500_000_000, 1_500_000_000, 3_000_000_000, 800_000_000}
var c09AgentFreqs = []uint64{1_000_000_000, 1_000_000_000, 2_000_000_000, 1_500_000_000, 3_000_000_000, 800_000_000, 7_000_000, 500_000_000, 333_333_333}

func period(f uint64) uint64 { return 1_000_000_000_000 / f }

type slotRef struct{ a, p int }

// genNetTopology draws connections, agents and the port placement: every
// connection gets 2..maxPortsPerConn ports, each owned by a drawn agent; each
// port is on exactly one connection.
func genNetTopology(rt *rapid.T, minConn, maxConn, minAgents, maxAgents, maxPortsPerConn int, connFreqs []uint64) (netCase, [][]slotRef) {
	var c netCase
	nc := rapid.IntRange(minConn, maxConn).Draw(rt, "nconn")
	same := rapid.IntRange(0, 1).Draw(rt, "sameconnfreq") == 0
	for i := 0; i < nc; i++ {
		if same && i > 0 {
			// coinciding clock edges on all connections make same-instant
			// chains across connections much more likely
			c.ConnFreq = append(c.ConnFreq, c.ConnFreq[0])
			continue
		}
		c.ConnFreq = append(c.ConnFreq, rapid.SampledFrom(connFreqs).Draw(rt, "connfreq"))
	}
	na := rapid.IntRange(minAgents, maxAgents).Draw(rt, "nagents")
	for i := 0; i < na; i++ {
		a := netAgent{Drain: true}
		if rapid.IntRange(0, 9).Draw(rt, "kind") < 6 {
			a.Kind = kindEvent
		} else {
			a.Kind = kindTicking
			a.Freq = rapid.SampledFrom(c09AgentFreqs).Draw(rt, "freq")
			a.PerAct = rapid.IntRange(0, 3).Draw(rt, "peract")
		}
		c.Agents = append(c.Agents, a)
	}
	byConn := make([][]slotRef, nc)
	for ci := 0; ci < nc; ci++ {
		np := rapid.IntRange(2, maxPortsPerConn).Draw(rt, "nports")
		for k := 0; k < np; k++ {
			ai := rapid.IntRange(0, na-1).Draw(rt, "owner")
			cp := rapid.IntRange(1, 4).Draw(rt, "cap")
			pt := netPort{Conn: ci, Cap: cp}
			if rapid.IntRange(0, 3).Draw(rt, "asym") == 0 {
				// incoming and outgoing capacities differ (messaging.NewPort)
				if oc := rapid.IntRange(1, 4).Draw(rt, "outcap"); oc != cp {
					pt.OutCap = oc
				}
			}
			c.Agents[ai].Ports = append(c.Agents[ai].Ports, pt)
			byConn[ci] = append(byConn[ci], slotRef{ai, len(c.Agents[ai].Ports) - 1})
		}
	}
	return c, byConn
}

// genTime draws a send time: mostly a small multiple of the period of the
// connection the port is on (same-instant chains need sends exactly on, and
// one period apart on, connection clock edges), sometimes off-edge.
func genTime(rt *rapid.T, per uint64, maxK int) uint64 {
	k := uint64(rapid.IntRange(0, maxK).Draw(rt, "k"))
	switch rapid.IntRange(0, 9).Draw(rt, "tclass") {
	case 0:
		return k*per + 1
	case 1:
		return k*per + per/2
	case 2:
		return k*per + rapid.Uint64Range(0, per).Draw(rt, "off")
	case 3:
		if k*per > 0 {
			return k*per - 1
		}
		return 0
	default:
		return k * per
	}
}

func genRoute(rt *rapid.T, c netCase, byConn [][]slotRef, ai int) (port, dstA, dstP int, ok bool) {
	a := c.Agents[ai]
	if len(a.Ports) == 0 {
		return 0, 0, 0, false
	}
	port = rapid.IntRange(0, len(a.Ports)-1).Draw(rt, "port")
	slots := byConn[a.Ports[port].Conn]
	// another port on the same connection
	var others []slotRef
	for _, s := range slots {
		if s.a != ai || s.p != port {
			others = append(others, s)
		}
	}
	if len(others) == 0 {
		return 0, 0, 0, false
	}
	d := others[rapid.IntRange(0, len(others)-1).Draw(rt, "dst")]
	return port, d.a, d.p, true
}

func genC09(rt *rapid.T) netCase {
	c, byConn := genNetTopology(rt, 1, 3, 2, 6, 4, c09ConnFreqs)
	for ai := range c.Agents {
		a := &c.Agents[ai]
		if len(a.Ports) == 0 {
			continue
		}
		if rapid.IntRange(0, 9).Draw(rt, "nodrain") == 0 {
			a.Drain = false
		}
		ns := rapid.IntRange(0, 3).Draw(rt, "nsends")
		for i := 0; i < ns; i++ {
			port, da, dp, ok := genRoute(rt, c, byConn, ai)
			if !ok {
				continue
			}
			per := period(c.ConnFreq[a.Ports[port].Conn])
			n := rapid.IntRange(1, 3).Draw(rt, "n")
			if rapid.IntRange(0, 7).Draw(rt, "bigburst") == 0 {
				n = rapid.IntRange(4, 8).Draw(rt, "nbig")
			}
			a.Sends = append(a.Sends, netSend{At: genTime(rt, per, 6), Port: port, DstA: da, DstP: dp, N: n})
		}
		nf := rapid.IntRange(0, 3).Draw(rt, "nfwds")
		for i := 0; i < nf; i++ {
			port, da, dp, ok := genRoute(rt, c, byConn, ai)
			if !ok {
				continue
			}
			a.Fwds = append(a.Fwds, netFwd{On: rapid.IntRange(0, 4).Draw(rt, "on"), Port: port, DstA: da, DstP: dp, N: rapid.IntRange(1, 2).Draw(rt, "fn")})
		}
		if a.Drain && rapid.IntRange(0, 5).Draw(rt, "stall") == 0 {
			per := period(c.ConnFreq[a.Ports[0].Conn])
			from := genTime(rt, per, 6)
			a.Stalls = append(a.Stalls, netStall{From: from, To: from + uint64(rapid.IntRange(1, 5).Draw(rt, "stalllen"))*per})
		}
	}
	return c
}

// c09Recipe is the shape of the listed finding, written out by hand for the
// dedicated reproduction: event-driven A -C0-> B -C1-> D, all 1 GHz; B
// timer-sends to D at 2000 ps (so C1 has a tick pending at 3000 ps), A
// timer-sends to B at 3000 ps, B forwards its first received message to D.
func c09Recipe() netCase {
	return netCase{
		ConnFreq: []uint64{1_000_000_000, 1_000_000_000},
		Agents: []netAgent{
			{Kind: kindEvent, Drain: true, Ports: []netPort{{Conn: 0, Cap: 1}},
				Sends: []netSend{{At: 3000, Port: 0, DstA: 1, DstP: 0, N: 1}}},
			{Kind: kindEvent, Drain: true, Ports: []netPort{{Conn: 0, Cap: 1}, {Conn: 1, Cap: 1}},
				Sends: []netSend{{At: 2000, Port: 1, DstA: 2, DstP: 0, N: 1}},
				Fwds:  []netFwd{{On: 0, Port: 1, DstA: 2, DstP: 0, N: 1}}},
			{Kind: kindEvent, Drain: true, Ports: []netPort{{Conn: 1, Cap: 1}}},
		},
	}
}

func c09Classes(c netCase, r *netRun) []string {
	var cl []string
	nt, ne := 0, 0
	for _, a := range c.Agents {
		if len(a.Ports) == 0 {
			continue
		}
		if a.Kind == kindTicking {
			nt++
		} else {
			ne++
		}
	}
	switch {
	case nt > 0 && ne > 0:
		cl = append(cl, "mixed-ticking+event-driven")
	case nt > 0:
		cl = append(cl, "all-ticking")
	default:
		cl = append(cl, "all-event-driven")
	}
	cl = append(cl, fmt.Sprintf("conns=%d", len(c.ConnFreq)))
	nonDiv := false
	for _, a := range c.Agents {
		if a.Kind != kindTicking {
			continue
		}
		for _, p := range a.Ports {
			pa, pc := period(a.Freq), period(c.ConnFreq[p.Conn])
			if pa%pc != 0 && pc%pa != 0 {
				nonDiv = true
			}
		}
	}
	if nonDiv {
		cl = append(cl, "agent-period-not-dividing-conn-period")
	}
	if r.rec.sendAfterTick > 0 {
		cl = append(cl, "send-after-conn-tick-same-instant")
	}
	sw := 0
	for _, n := range r.rec.swallowedWake {
		sw += n
	}
	if sw > 0 {
		cl = append(cl, "wake-after-idle-conn-tick-same-instant")
	}
	if r.rec.sendBlocked > 0 {
		cl = append(cl, "sender-saw-full-port")
	}
	cl = append(cl, asymClasses(c, r)...)
	cl = append(cl, manyPortClasses(c, r)...)
	if !r.allDrain() {
		cl = append(cl, "has-non-draining-agent")
	} else {
		cl = append(cl, "all-drain(conservation-checked)")
	}
	if len(r.rec.sent) == 0 {
		cl = append(cl, "no-traffic")
	}
	if r.rec.forwardsFired > 0 {
		cl = append(cl, "forward-fired")
	}
	return cl
}

// judgeC09 runs the case and applies the oracle. It returns after the first
// reported problem.
func judgeC09(s *kit.Session, f kit.Failer, c netCase, compensate bool) (r *netRun, failedSig string, failedMsg string) {
	r, ok, sig, msg := runNet(c, compensate)
	if !ok {
		s.Fail(f, c, sig, "%s", msg)
		return r, sig, msg
	}
	probs := r.quiescenceProblems()
	if len(probs) == 0 && r.allDrain() {
		probs = r.conservationProblems()
	}
	if len(probs) > 0 {
		// report a non-listed problem in preference to the listed one
		p := probs[0]
		for _, q := range probs {
			if _, known := s.IsKnown(q.sig); !known {
				p = q
				break
			}
		}
		s.Fail(f, c, p.sig, "%s", p.msg)
		return r, p.sig, p.msg
	}
	return r, "", ""
}

func TestC09Topology(t *testing.T) {
	s := kit.Begin(t, "C09", "topology",
		"2-6 agents (ticking modeling.Component+middleware at 1/2/1.5/3 GHz, 800/500/333.3 MHz, 7 MHz, or EventDrivenComponent+processor), 1-3 direct connections (1/2/0.5/1.5/3 GHz, 800 MHz), 2-4 ports per connection owned by drawn agents, caps 1-4 (about 1 case in 12 instead: one connection with 65-200 plugged ports, see C10's many-ports class; 19% of the ports with different incoming/outgoing capacities, built with messaging.NewPort+RegisterPort instead of PortBuilder); per agent 0-3 timer bursts (times = k*connection period, k<=6, 40% off-edge variants), 0-3 receipt-driven forwards fired in the same activation, 10% non-draining agents, occasional read stalls. Oracle at Run's return (empty queue): no outgoing head whose destination CanDeliver, no unread input at a draining agent, no unsent State work with a free port, no unfired timer; all-drain cases: sent multiset == consumed multiset. Non-trivial: a send happened on a connection that had already handled its tick at that very instant (from the engine BeforeEvent trace)")
	defer s.End()
	s.Assume("harness agents follow the examples' idioms (CanSend before Send, unsent work in State, woken only by NotifyRecv/NotifyPortFree/own timers/external TickLater kick)")

	_, listed := s.IsKnown(sigC09TickNow)
	if listed {
		s.Assume("listed finding " + sigC09TickNow + " is steered around at execution time: when a wake cause hits a connection that already handled an idle tick at that instant, the harness adds an external conn.TickLater() kick (counted as excluded); the full oracle still applies to those cases")
	}

	run := func(f kit.Failer, c netCase) {
		r, sig, _ := judgeC09(s, f, c, listed)
		if sig != "" {
			return
		}
		if r.rec.compensations > 0 {
			s.Excluded(1)
		}
		s.AddExtra("events", r.rec.events)
		s.AddExtra("messages", len(r.rec.sent))
		s.Note(c, r.rec.sendAfterTick > 0, c09Classes(c, r)...)
	}

	var c netCase
	if ok, err := kit.LoadReplay("C09", "topology", &c); ok {
		if err != nil {
			t.Fatal(err)
		}
		if err := validNetCase(c); err != nil {
			t.Fatal(err)
		}
		run(t, c)
		return
	} else if kit.ReplayMode() {
		t.Skip()
	}

	kit.SetChecks(20_000, 200_000)
	rapid.Check(t, func(rt *rapid.T) {
		if rapid.IntRange(0, 19).Draw(rt, "manyports") == 0 {
			run(rt, genManyPorts(rt, c09ConnFreqs))
			return
		}
		run(rt, genC09(rt))
	})
}

// TestC09Known_TickNowSameInstant is the dedicated reproduction of the listed
// finding (no steering): the hand-written minimal shape must still stall.
func TestC09Known_TickNowSameInstant(t *testing.T) {
	if kit.ReplayMode() {
		t.Skip()
	}
	s := kit.Begin(t, "C09", "known-ticknow",
		"fixed case: event-driven A -Conn0-> B -Conn1-> D, all 1 GHz, B timer-sends to D at 2000 ps, A timer-sends to B at 3000 ps, B forwards to D on receipt")
	defer s.End()
	c := c09Recipe()
	if err := validNetCase(c); err != nil {
		t.Fatal(err)
	}
	r, ok, sig, msg := runNet(c, false)
	if !ok {
		s.Fail(t, c, sig, "%s", msg)
		return
	}
	probs := r.quiescenceProblems()
	if len(probs) == 0 {
		t.Logf("the listed finding %s no longer reproduces on this tree", sigC09TickNow)
		s.Note(c, true, "recipe-passes")
		return
	}
	s.KnownStillFails(t, c, probs[0].sig, probs[0].msg)
	s.Note(c, true, "recipe-stalls")
}

// asymClasses labels cases with ports whose incoming and outgoing capacities
// differ, judged on what happened: the port's incoming buffer actually filled.
func asymClasses(c netCase, r *netRun) []string {
	var cl []string
	less, more, filled := false, false, false
	for ai, a := range c.Agents {
		for pi, p := range a.Ports {
			if p.OutCap == 0 || p.OutCap == p.Cap {
				continue
			}
			if p.Cap < p.OutCap {
				less = true
			} else {
				more = true
			}
			if r.rec.maxInOcc[netPortName(ai, pi)] >= p.Cap {
				filled = true
			}
		}
	}
	if less {
		cl = append(cl, "asym-port:in<out")
	}
	if more {
		cl = append(cl, "asym-port:in>out")
	}
	if filled {
		cl = append(cl, "asym-port-incoming-filled")
	}
	return cl
}
