#!/usr/bin/env python3
"""Regenerates seeded/SUMMARY.md from seeded/*/meta.json."""
import glob, json, os
rows = []
obsolete = []
try:
    first = json.load(open('/verif/seeded/first_pass.json'))
except Exception:
    first = {}
for f in sorted(glob.glob('/verif/seeded/*/meta.json')):
    m = json.load(open(f))
    c = m.get('confirmed', {})
    name = os.path.basename(os.path.dirname(f))
    if m.get('obsolete'):
        obsolete.append((name, m['obsolete']))
        continue
    caught = c.get('caught_by', [])
    det = ''
    for ck, rs in (c.get('checks') or {}).items():
        for r in rs:
            if r.get('exit') == 1:
                det = '%s in %ss: %s' % (ck, r.get('wall_s'), (r.get('detail') or '')[:140].replace('|', '/'))
                break
        if det:
            break
    rows.append((name, m.get('property'), (m.get('summary') or '')[:160].replace('|', '/'), (m.get('needs') or '')[:120].replace('|', '/'),
                 'yes' if c.get('demo_fails_with_patch') and c.get('demo_passes_without_patch') else 'NO',
                 c.get('existing_tests', 'n/a (no tests in the touched package)'), ', '.join(caught) if caught else 'MISSED',
                 ('caught' if first.get(name) else ('missed, check strengthened' if caught else 'missed (see DESIGN 11.3)')) if name in first else '', det))
with open('/verif/seeded/SUMMARY.md', 'w') as w:
    w.write('# Independently seeded changes\n\n')
    w.write('%d changes; caught by the quick tier: %d; missed: %d\n\n' % (len(rows), sum(1 for r in rows if r[6] != 'MISSED'), sum(1 for r in rows if r[6] == 'MISSED')))
    w.write('| id | property | change | needs | demo confirmed | repo tests | caught by (now) | first pass | first detection |\n|---|---|---|---|---|---|---|---|---|\n')
    for r in rows:
        w.write('| ' + ' | '.join(str(x) for x in r) + ' |\n')
    for n, why in obsolete:
        w.write('\nNot counted: %s - %s\n' % (n, why))
    w.write('\n"first pass" = result of the quick tier as it stood when the change was first evaluated (seeded/first_pass.json); '
            '"caught by (now)" = result after the checks were strengthened.\n')
print(len(rows), 'rows')
